"""Shared machinery of the gemato verification harness.

Every check (./check <id>) does, in this order:
  1. T1: re-extract constants from /repo's current source -> lean/Gemato/Extracted.lean
  2. lake build of the model, the property's theorem file, its Bridge file, the
     driver; grep gate; axiom audit  -> obligations / discharged
  3. T2/T3: run the property's correspondence + oracle against the real code
  4. write evidence/<id>.json, print VIOLATION / KNOWN-FINDING lines, exit code
"""
import fcntl
import hashlib
import json
import os
import random
import re
import shutil
import subprocess
import sys
import tempfile
import time

VERIF = os.path.dirname(os.path.dirname(os.path.abspath(__file__)))
REPO = os.environ.get('VERIF_REPO', '/repo')
LEAN = os.path.join(VERIF, 'lean')
DRIVER = os.path.join(LEAN, '.lake', 'build', 'bin', 'driver')
ALLOWED_AXIOMS = {'propext', 'Classical.choice', 'Quot.sound'}

if REPO not in sys.path:
    sys.path.insert(0, REPO)


class HarnessError(Exception):
    """infrastructure failure: exit 2, never a VIOLATION"""


def scratch_dir(prefix='gv.'):
    base = os.environ.get('VERIF_SCRATCH') or tempfile.gettempdir()
    return tempfile.mkdtemp(prefix=prefix, dir=base)


# ---------------------------------------------------------------------------
# build + gates
# ---------------------------------------------------------------------------

GATE_RE = re.compile(
    r'\b(sorry|admit|native_decide|bv_decide|implemented_by|unsafe)\b|^\s*axiom\s|maxHeartbeats\s+0\b')


def _strip_comments(src):
    # remove /- ... -/ (nested) and -- comments
    out = []
    i = 0
    depth = 0
    n = len(src)
    while i < n:
        if src.startswith('/-', i):
            depth += 1
            i += 2
        elif depth and src.startswith('-/', i):
            depth -= 1
            i += 2
        elif depth:
            if src[i] == '\n':
                out.append('\n')
            i += 1
        elif src.startswith('--', i):
            while i < n and src[i] != '\n':
                i += 1
        else:
            out.append(src[i])
            i += 1
    return ''.join(out)


def grep_gate():
    """no sorry/admit/axiom/native_decide/... outside comments in any Lean file"""
    hits = []
    for root, _dirs, files in os.walk(LEAN):
        if '.lake' in root:
            continue
        for f in files:
            if not f.endswith('.lean'):
                continue
            p = os.path.join(root, f)
            txt = _strip_comments(open(p, encoding='utf8').read())
            for ln, line in enumerate(txt.split('\n'), 1):
                if GATE_RE.search(line):
                    hits.append(f'{os.path.relpath(p, LEAN)}:{ln}: {line.strip()}')
    return hits


def _run(cmd, cwd=None, timeout=3600, env=None):
    p = subprocess.run(cmd, cwd=cwd, stdout=subprocess.PIPE, stderr=subprocess.STDOUT,
                       timeout=timeout, env=env, text=True)
    return p.returncode, p.stdout


class BuildResult:
    def __init__(self):
        self.obligations = []      # names
        self.failed = []           # names that no longer check
        self.axioms = {}           # theorem -> [axioms]
        self.log = ''
        self.extract_errors = []

    @property
    def discharged(self):
        return [o for o in self.obligations if o not in self.failed]

    @property
    def ok(self):
        return not self.failed and not self.extract_errors


THEOREM_RE = re.compile(r'^\s*(?:private\s+|protected\s+)?(?:theorem|lemma)\s+([A-Za-z0-9_.\']+)', re.M)


PRIVATE_RE = re.compile(r'^\s*private\s+(?:theorem|lemma)\s+([A-Za-z0-9_.\']+)', re.M)


def private_names(lean_file):
    try:
        return set(PRIVATE_RE.findall(_strip_comments(open(lean_file, encoding='utf8').read())))
    except FileNotFoundError:
        return set()


def theorem_names(lean_file):
    try:
        txt = _strip_comments(open(lean_file, encoding='utf8').read())
    except FileNotFoundError:
        return []
    return THEOREM_RE.findall(txt)


def failing_theorems(lean_file, log):
    """map error positions in a lake log to the nearest preceding theorem name"""
    rel = os.path.relpath(lean_file, LEAN)
    lines = open(lean_file, encoding='utf8').read().split('\n')
    bad = set()
    for m in re.finditer(r'error: (?:' + re.escape(rel) + '|' + re.escape(os.path.abspath(lean_file)) + r'):(\d+):\d+', log):
        ln = int(m.group(1))
        name = None
        for i in range(min(ln, len(lines)) - 1, -1, -1):
            mm = THEOREM_RE.match(lines[i])
            if mm:
                name = mm.group(1)
                break
        bad.add(name or f'{rel}:{ln}')
    return sorted(bad)


def build(prop_id, bridge_modules=(), props_modules=None, recheck=False):
    """Regenerate Extracted.lean from /repo, build, gate, audit.
    Returns BuildResult. Raises HarnessError only for infrastructure trouble
    (the model itself or the driver not compiling)."""
    from harness import extract
    res = BuildResult()
    os.makedirs(os.path.join(VERIF, '.locks'), exist_ok=True)
    lockf = open(os.path.join(VERIF, '.locks', 'build.lock'), 'w')
    fcntl.flock(lockf, fcntl.LOCK_EX)
    try:
        try:
            res.extract_errors = extract.write_extracted()
        except Exception as e:  # the source no longer has the expected shape
            res.extract_errors = [f'extractor: {type(e).__name__}: {e}']
        # 1. model + driver: must always build (independent of /repo)
        rc, out = _run(['lake', 'build', 'driver'], cwd=LEAN)
        res.log += out
        if rc != 0:
            raise HarnessError('driver does not build:\n' + out[-4000:])
        # 2. property theorems
        if props_modules is None:
            props_modules = [f'Gemato.Props.{prop_id}']
        audit = []     # (module, namespace, theorem)
        for props_module in props_modules:
            pfile = os.path.join(LEAN, props_module.replace('.', '/') + '.lean')
            if not os.path.exists(pfile):
                raise HarnessError(f'{pfile} missing')
            names = theorem_names(pfile)
            res.obligations += [f'{props_module}:{n}' for n in names]
            ns = _namespace_of(pfile)
            priv = private_names(pfile)      # helper lemmas: audited through the public theorems that use them
            audit += [(props_module, ns, n) for n in names if n not in priv]
            rc, out = _run(['lake', 'build', props_module], cwd=LEAN)
            res.log += out
            if rc != 0:
                raise HarnessError(f'{props_module} does not build:\n' + out[-4000:])
        # 3. bridge obligations (these depend on Extracted.lean = on /repo)
        for bm in bridge_modules:
            bfile = os.path.join(LEAN, bm.replace('.', '/') + '.lean')
            names = theorem_names(bfile)
            res.obligations += [f'{bm}:{n}' for n in names]
            if res.extract_errors:
                res.failed += [f'{bm}:{n}' for n in names]
                continue
            rc, out = _run(['lake', 'build', bm], cwd=LEAN)
            res.log += out
            if rc != 0:
                bad = failing_theorems(bfile, out)
                if not bad:
                    bad = names or ['<module does not build>']
                if not names:
                    res.obligations.append(f'{bm}:<module does not build>')
                res.failed += [f'{bm}:{n}' for n in bad]
        # 4. grep gate
        res.obligations.append('gate:no-sorry-axiom-native_decide')
        hits = grep_gate()
        if hits:
            raise HarnessError('grep gate: ' + '; '.join(hits[:5]))
        # 5. axiom audit of the property theorems
        if audit:
            afile = os.path.join(LEAN, 'Gemato', 'Props', f'Audit{prop_id}.lean')
            with open(afile, 'w') as f:
                for m in props_modules:
                    f.write(f'import {m}\n')
                for _m, ns, n in audit:
                    f.write(f'#print axioms {ns}{n}\n')
            rc, out = _run(['lake', 'env', 'lean', afile], cwd=LEAN)
            os.unlink(afile)
            if rc != 0:
                raise HarnessError('axiom audit failed:\n' + out[-3000:])
            for m in re.finditer(r"'([^']+)' (?:depends on axioms: \[([^\]]*)\]|does not depend on any axioms)", out):
                axs = [a.strip() for a in (m.group(2) or '').replace('\n', ' ').split(',') if a.strip()]
                res.axioms[m.group(1)] = axs
                extra = set(axs) - ALLOWED_AXIOMS
                if extra:
                    raise HarnessError(f'theorem {m.group(1)} depends on axioms {sorted(extra)}')
            res.obligations.append('audit:axioms-subset-of-standard')
            if len(res.axioms) != len(audit):
                raise HarnessError(f'axiom audit saw {len(res.axioms)} of {len(audit)} theorems:\n{out[-2000:]}')
        # 6. thorough tier: the compiled theorem modules are re-checked by leanchecker (an independent run of the kernel
        #    over the .olean files)
        if recheck:
            rc, out = _run(['lake', 'env', 'leanchecker'] + list(props_modules), cwd=LEAN, timeout=3000)
            res.log += out
            res.obligations.append('leanchecker:' + ','.join(props_modules))
            if rc != 0:
                raise HarnessError('leanchecker rejects a compiled module:\n' + out[-3000:])
    finally:
        fcntl.flock(lockf, fcntl.LOCK_UN)
        lockf.close()
    return res


def _namespace_of(lean_file):
    txt = _strip_comments(open(lean_file, encoding='utf8').read())
    m = re.search(r'^namespace\s+(\S+)', txt, re.M)
    return (m.group(1) + '.') if m else ''


# ---------------------------------------------------------------------------
# driver
# ---------------------------------------------------------------------------

class Driver:
    def __init__(self):
        if not os.path.exists(DRIVER):
            raise HarnessError('driver binary missing; run setup (cd lean && lake build)')
        self.p = subprocess.Popen([DRIVER], stdin=subprocess.PIPE, stdout=subprocess.PIPE,
                                  text=True, bufsize=1 << 20)
        self.n = 0

    def ask(self, req):
        self.p.stdin.write(json.dumps(req, separators=(',', ':')) + '\n')
        self.p.stdin.flush()
        line = self.p.stdout.readline()
        if not line:
            raise HarnessError(f'driver died on request {json.dumps(req)[:300]}')
        self.n += 1
        rep = json.loads(line)
        if isinstance(rep, dict) and 'error' in rep and len(rep) == 1:
            raise HarnessError(f'driver error {rep["error"]} on {json.dumps(req)[:300]}')
        return rep

    def ask_many(self, reqs):
        """pipeline a batch (writer thread avoids pipe deadlock)"""
        import threading
        reqs = list(reqs)

        def w():
            for r in reqs:
                self.p.stdin.write(json.dumps(r, separators=(',', ':')) + '\n')
            self.p.stdin.flush()
        t = threading.Thread(target=w)
        t.start()
        out = []
        for r in reqs:
            line = self.p.stdout.readline()
            if not line:
                raise HarnessError('driver died in batch')
            rep = json.loads(line)
            if isinstance(rep, dict) and 'error' in rep and len(rep) == 1:
                raise HarnessError(f'driver error {rep["error"]} on {json.dumps(r)[:300]}')
            out.append(rep)
        t.join()
        self.n += len(reqs)
        return out

    def close(self):
        try:
            self.p.stdin.close()
            self.p.wait(timeout=10)
        except Exception:
            self.p.kill()


def cps(s):
    return [ord(c) for c in s]


def uncps(a):
    return ''.join(chr(c) for c in a)


# ---------------------------------------------------------------------------
# known findings
# ---------------------------------------------------------------------------

def load_known_findings():
    p = os.path.join(VERIF, 'known_findings.json')
    if not os.path.exists(p):
        return []
    return json.load(open(p))['findings']


# ---------------------------------------------------------------------------
# run context: collects results, writes evidence, decides exit status
# ---------------------------------------------------------------------------

class Ctx:
    def __init__(self, prop_id, tier, seed):
        self.prop = prop_id
        self.tier = tier
        self.seed = seed
        self.rng = random.Random(f'{prop_id}/{seed}')
        self.t0 = time.time()
        self.evaluations = 0
        self.nontrivial = set()
        self.samples = []
        self.dist = {}
        self.failures = []         # property failures on the real code: dicts with a replayable scenario
        self.disagreements = []    # impl != model (correspondence)
        self.known_hits = {}       # finding id -> count
        self.build = None
        self.notes = []
        self.tables = {}           # name -> {'size': n, 'exhaustive': bool}
        self.traces = 0
        self.assumptions = []
        self.rule = ''
        self.budget_s = None
        self._findings = [f for f in load_known_findings()
                          if f.get('status') == 'open' and prop_id in f['properties']]

    # -- bookkeeping -------------------------------------------------------
    def count(self, key, n=1):
        self.dist[key] = self.dist.get(key, 0) + n

    def case(self, scenario_key=None, nontrivial=False, sample=None):
        self.evaluations += 1
        if nontrivial and scenario_key is not None:
            self.nontrivial.add(scenario_key if isinstance(scenario_key, (str, int)) else
                                hashlib.sha1(json.dumps(scenario_key, sort_keys=True).encode()).hexdigest())
        if sample is not None and len(self.samples) < 6:
            self.samples.append(sample)

    def time_left(self):
        if self.budget_s is None:
            return 1e9
        return self.budget_s - (time.time() - self.t0)

    def fail(self, kind, scenario, detail=''):
        """the property fails on the real code for this concrete scenario"""
        for f in self._findings:
            from harness import findings
            if findings.matches(f, self.prop, kind, scenario):
                self.known_hits[f['id']] = self.known_hits.get(f['id'], 0) + 1
                return 'known'
        self.failures.append({'kind': kind, 'scenario': scenario, 'detail': detail})
        return 'new'

    def disagree(self, op, scenario, impl, model):
        self.disagreements.append({'op': op, 'scenario': scenario, 'impl': impl, 'model': model})

    # -- finish ------------------------------------------------------------
    def finish(self):
        wall = time.time() - self.t0
        b = self.build
        obligations = list(b.obligations) if b else []
        failed = list(b.failed) if b else []
        for name, t in self.tables.items():
            obligations.append(f'table:{name}')
            if not t.get('ok', True):
                failed.append(f'table:{name}')
        obligations.append('correspondence:impl=model on all generated scenarios')
        if self.disagreements:
            failed.append('correspondence:impl=model on all generated scenarios')
        obligations.append('oracle:property holds on all generated scenarios')
        if self.failures:
            failed.append('oracle:property holds on all generated scenarios')
        violations = 0
        lines = []
        if os.environ.get('VERIF_DEBUG'):
            json.dump({'failures': self.failures, 'disagreements': self.disagreements},
                      open(os.path.join(tempfile.gettempdir(), f'verif-debug-{self.prop}.json'), 'w'), default=str)
        os.makedirs(os.path.join(VERIF, 'replays'), exist_ok=True)
        for f in load_known_findings():
            if f.get('status') == 'open' and self.prop in f['properties'] and self.known_hits.get(f['id']):
                lines.append(f"KNOWN-FINDING: property={self.prop} {f['id']}: {f['what']}"
                             f" (seen {self.known_hits[f['id']]}x this run)")
        if self.failures:
            violations = len(self.failures)
            f0 = self.failures[0]
            rp = os.path.join('replays', f'{self.prop}-{self.seed}-{int(time.time())}.json')
            json.dump({'property': self.prop, 'kind': f0['kind'], 'scenario': f0['scenario'],
                       'detail': f0['detail'], 'more': len(self.failures) - 1},
                      open(os.path.join(VERIF, rp), 'w'), indent=1, default=str)
            lines.append(f'VIOLATION property={self.prop} replay={rp}')
        elif failed or (b and b.extract_errors):
            violations = 1
            rp = os.path.join('replays', f'{self.prop}-{self.seed}-{int(time.time())}-unproved.json')
            json.dump({'property': self.prop, 'kind': 'no-failing-input-found',
                       'no_longer_checks': failed,
                       'extract_errors': b.extract_errors if b else [],
                       'first_disagreements': self.disagreements[:3],
                       'build_log_tail': (b.log[-3000:] if b else '')},
                      open(os.path.join(VERIF, rp), 'w'), indent=1, default=str)
            lines.append(f'VIOLATION property={self.prop} replay={rp} no-failing-input-found')
        ev = {
            'property_id': self.prop,
            'tier': self.tier,
            'seed': self.seed,
            'level': 'proof',
            'coverage': {
                'obligations': len(obligations),
                'discharged': len(obligations) - len(failed),
                'checker_cmd': f'cd lean && lake build <Props modules of {self.prop}> <Bridge modules> && lake env lean <#print axioms of every property theorem>; then ./check {self.prop} (T2/T3 correspondence + oracle)',
                'trusted_base': [
                    'Lean 4.33.0 kernel',
                    'axioms: subset of {propext, Classical.choice, Quot.sound} (audited per theorem this run)',
                    'harness/extract.py (T1 constants) and the correspondence harness (T2/T3)',
                    'Lean compiler for the driver binary (correspondence only)',
                ],
                'obligation_names': obligations,
                'not_discharged': failed,
                'axioms_per_theorem': b.axioms if b else {},
                'evaluations': self.evaluations,
                'distinct_nontrivial': len(self.nontrivial),
                'rule': self.rule,
                'samples': self.samples or ['(no generated scenario; obligations only)'],
                'traces_validated_against_impl': self.traces,
                'disagreements_impl_vs_model': len(self.disagreements),
                'tables': self.tables,
                'distribution': self.dist,
                'known_findings_hit': self.known_hits,
                'exhaustive': False,
            },
            'assumptions': self.assumptions,
            'wall_s': round(wall, 2),
            'violations': violations,
        }
        if self.notes:
            ev['coverage']['notes'] = self.notes
        evdir = os.environ.get('VERIF_EVIDENCE_DIR') or os.path.join(VERIF, 'evidence')
        os.makedirs(evdir, exist_ok=True)
        with open(os.path.join(evdir, f'{self.prop}.json'), 'w') as fo:
            json.dump(ev, fo, indent=1, default=str)
        for ln in lines:
            print(ln)
        print(f'[{self.prop}] tier={self.tier} seed={self.seed} obligations={len(obligations)} '
              f'discharged={len(obligations) - len(failed)} evaluations={self.evaluations} '
              f'nontrivial={len(self.nontrivial)} disagreements={len(self.disagreements)} '
              f'failures={len(self.failures)} wall={wall:.1f}s')
        return 1 if violations else 0
