"""Generators for Manifest texts and entry lists (one PRNG, passed in)."""
import itertools

TAGS = ['TIMESTAMP', 'MANIFEST', 'IGNORE', 'DATA', 'DIST', 'EBUILD', 'MISC', 'AUX']
FILE_TAGS = ['MANIFEST', 'DATA', 'DIST', 'EBUILD', 'MISC', 'AUX']
HASHES = ['MD5', 'SHA1', 'SHA256', 'SHA512', 'RMD160', 'WHIRLPOOL', 'BLAKE2B', 'BLAKE2S', 'SHA3_256', 'SHA3_512']

HOSTILE = ['a', 'b', 'Z', '0', '9', 'f', 'F', 'x', 'u', 'U', '.', '-', '_', '/', '\\', ' ', '\t', '\n', '\r',
           '\x00', '\x1f', '\x7f', '\x80', '\x85', '\x9f', '\xa0', '\xa1', '\x0b', '\x0c', '\x1c', '\x1e',
           ' ', ' ', ' ', '​', ' ', ' ', ' ', ' ', '　', '﻿',
           '￿', '\U00010000', '\U0010ffff', 'é', 'ß', '字', '+', '=', ':', '"', "'", '#', '~']
SURROGATES = ['\ud800', '\udfff', '\udc80']


def rand_path(rng, allow_surrogates=False, maxlen=12):
    n = rng.choice([1, 1, 2, 3, 5, 8, maxlen])
    alpha = HOSTILE + (SURROGATES if allow_surrogates else [])
    if rng.random() < 0.4:
        alpha = ['a', 'b', 'c', '/', '.', '-', 'x', '1']
    s = ''.join(rng.choice(alpha) for _ in range(n))
    return s


def rand_word(rng, maxlen=8):
    alpha = 'abcdef0123456789ABCDEFxyz_-+\\/.é\U0001f600'
    return ''.join(rng.choice(alpha) for _ in range(rng.randint(1, maxlen)))


def rand_ts(rng):
    y = rng.choice([1, 9, 99, 999, 1000, 1970, 2000, 2017, 2024, 9999, rng.randint(1, 9999)])
    mo = rng.randint(1, 12)
    dim = [31, 29 if (y % 4 == 0 and y % 100 != 0) or y % 400 == 0 else 28, 31, 30, 31, 30, 31, 31, 30, 31, 30, 31][mo - 1]
    return [y, mo, rng.randint(1, dim), rng.randint(0, 23), rng.randint(0, 59), rng.randint(0, 59)]


def rand_size(rng):
    return rng.choice([0, 1, 9, 10, 255, 65536, 2**31 - 1, 2**32, 2**63, 2**64 - 1, 2**64, rng.randint(0, 10**6),
                       rng.randint(0, 2**70)])


def rand_cks(rng):
    n = rng.choice([0, 0, 1, 1, 2, 2, 3, 5, 10])
    names = set()
    while len(names) < n:
        names.add(rng.choice(HASHES) if rng.random() < 0.7 else rand_word(rng))
    return [[[ord(c) for c in k], [ord(c) for c in rand_word(rng, 16)]] for k in sorted(names)]


def rand_entry(rng, allow_surrogates=False, wf=True):
    """canonical entry; with wf=True it satisfies the model's WF predicate"""
    tag = rng.choice(TAGS)
    if tag == 'TIMESTAMP':
        return ['TIMESTAMP', rand_ts(rng)]
    while True:
        p = rand_path(rng, allow_surrogates)
        if not wf:
            break
        if p.startswith('/'):
            continue
        if tag == 'DIST' and '/' in p:
            continue
        break
    pc = [ord(c) for c in p]
    if tag == 'IGNORE':
        return ['IGNORE', pc]
    return [tag, pc, rand_size(rng), rand_cks(rng)]


def rand_entries(rng, allow_surrogates=False, maxn=8):
    return [rand_entry(rng, allow_surrogates) for _ in range(rng.choice([0, 1, 1, 2, 3, 5, maxn]))]


# ---- grammar of lines with every field independently valid / invalid ------

def enc_path(p):
    import gemato.manifest as gm
    return gm.ManifestPathEntry(p).encoded_path


VALID_PATH_FIELDS = ['a', 'foo/bar', 'a\\x20b', '\\u00e9', '\\U0001F600x', 'x\\x5Cy', 'files/a', '..', 'a//b', '-', 'a\\x2Fb']
INVALID_PATH_FIELDS = ['/abs', '\\x2Fabs', '\\', 'a\\', 'a\\x2', 'a\\xZZ', '\\u123', '\\U0001F60', '\\y', '\\X41',
                       '\\U00110000', '\\UFFFFFFFF', '\\U7FFFFFFF', '\\U80000000', '\\u002Fx', '\\U0000002Fx', 'a\\x2g',
                       # hex positions filled with non-ASCII decimal digits (Arabic-Indic, Devanagari, fullwidth): not hex digits
                       'tes\\x\u0663\u0663t', '\\u00\u0969\u0969', 'b\\x0\uff13', '\\U0001F60\u0663']
VALID_SIZES = ['0', '1', '42', '007', '+5', '-0', '1_0', '18446744073709551616', '00']
INVALID_SIZES = ['-1', 'x', '1.0', '1e3', '', '0x10', '_1', '1_', '1__0', '+', '-', '+-1', '١٢', '1 ']
VALID_TS = ['2017-01-01T00:00:00Z', '1999-12-31T23:59:59Z', '2020-02-29T12:00:00Z', '2017-1-1T0:0:0Z',
            '2017-01-01t00:00:00z', '0001-01-01T00:00:00Z', '0999-01-01T00:00:00Z', '9999-12-31T23:59:59Z']
INVALID_TS = ['2017-01-01', '2017-13-01T00:00:00Z', '2017-02-30T00:00:00Z', '2017-01-01T24:00:00Z',
              '2017-01-01T00:60:00Z', '2017-01-01T00:00:60Z', '2017-01-01T00:00:61Z', '2017-01-01T00:00:00',
              '17-01-01T00:00:00Z', '2017-01-01T00:00:00Zx', '0000-01-01T00:00:00Z', '2019-02-29T00:00:00Z',
              '2017-001-01T00:00:00Z', 'now', '2017-01-01 00:00:00Z', '20170101T000000Z', '2017-00-01T00:00:00Z',
              '2017-01-00T00:00:00Z', '2017-01-01T00:00:00+00:00', '+2017-01-01T00:00:00Z']


def grammar_line(rng):
    """returns (line, expect) where expect is 'ok' / 'bad' / None (unknown) by construction"""
    tagc = rng.random()
    ok = True
    if tagc < 0.1:
        tag = rng.choice(['FOO', 'data', 'Data', 'DATA2', 'MANIFEST_', 'TIMESTAMPS', 'IGNORED', '-', '#', 'DATA x', 'ＤＡＴＡ'])
        ok = None if tag == 'DATA x' else False
    else:
        tag = rng.choice(TAGS)
    fields = [tag]
    if tag == 'TIMESTAMP':
        if rng.random() < 0.3:
            v = rng.choice(INVALID_TS)
            ok = False if ok is not None else None
        else:
            v = rng.choice(VALID_TS)
        fields.append(v)
        r = rng.random()
        if r < 0.1:
            fields.append('extra')
            ok = False
        elif r < 0.2:
            fields.pop()
            ok = False
    else:
        if rng.random() < 0.3:
            p = rng.choice(INVALID_PATH_FIELDS)
            ok = False if ok is not None else None
        else:
            p = rng.choice(VALID_PATH_FIELDS)
            if rng.random() < 0.3:
                p = enc_path(rand_path(rng)).lstrip('/') or 'q'
            if tag == 'DIST' and ('/' in p or '\\x2F' in p or '\\x2f' in p or '\\u002F' in p):
                ok = False if ok is not None else None
        fields.append(p)
        if tag == 'IGNORE':
            r = rng.random()
            if r < 0.1:
                fields.append('extra')
                ok = False
            elif r < 0.15:
                fields.pop()
                ok = False
        else:
            if rng.random() < 0.3:
                sz = rng.choice(INVALID_SIZES)
                ok = None if sz in ('١٢',) else (False if ok is not None else None)
                if sz in ('', '1 '):
                    sz = 'x'
            else:
                sz = rng.choice(VALID_SIZES)
            fields.append(sz)
            nck = rng.choice([0, 1, 2, 2, 3])
            for _ in range(nck):
                fields += [rng.choice(HASHES + ['FOO', 'MD5']), rand_word(rng)]
            r = rng.random()
            if r < 0.15:
                fields.append('DANGLING')
                ok = False
            elif r < 0.2:
                del fields[2:]
                ok = False
            elif r < 0.25:
                del fields[1:]
                ok = False
    sep = rng.choice([' ', ' ', ' ', '  ', '\t', ' \t ', '\x0b', '　', '\x1c', '\x85', ' '])
    lead = rng.choice(['', '', '', ' ', '\t'])
    trail = rng.choice(['', '', '', ' ', '\t', '\r'])
    return lead + sep.join(fields) + trail, ok


def grammar_text(rng):
    n = rng.choice([1, 1, 2, 3, 5])
    lines = []
    expect = 'ok'
    for _ in range(n):
        if rng.random() < 0.15:
            lines.append(rng.choice(['', ' ', '\t', '\x0c', '　']))
            continue
        ln, ok = grammar_line(rng)
        lines.append(ln)
        if ok is False:
            expect = 'bad'
        elif ok is None and expect == 'ok':
            expect = None
    nl = rng.choice(['\n', '\n', '\n', '\r\n', '\r'])
    text = nl.join(lines) + rng.choice(['\n', '\n', ''])
    return text, expect


TOKENS = ['DATA', 'IGNORE', 'TIMESTAMP', 'DIST', 'AUX', 'foo', 'a/b', '0', '12', '-1', 'MD5', 'abc',
          '2017-01-01T00:00:00Z', '\\x20', '\\', '/x', '\n', '\r']


def token_texts(maxlen):
    for n in range(1, maxlen + 1):
        for combo in itertools.product(range(len(TOKENS)), repeat=n):
            yield ' '.join(TOKENS[i] for i in combo).replace(' \n ', '\n').replace('\n ', '\n').replace(' \n', '\n')


def mutate(rng, text):
    if not text:
        return rng.choice(HOSTILE)
    r = rng.random()
    i = rng.randrange(len(text))
    if r < 0.3:
        return text[:i] + text[i + 1:]
    if r < 0.6:
        return text[:i] + rng.choice(HOSTILE + list('0123456789-+_ \\/')) + text[i:]
    if r < 0.8:
        return text[:i] + rng.choice(HOSTILE + list('0123456789-+_ \\/')) + text[i + 1:]
    j = rng.randrange(len(text))
    i, j = min(i, j), max(i, j)
    return text[:i] + text[j:] + text[i:j]


# ---- line classes of the cleartext-signature framework (C04) ---------------
BEGIN_MSG = '-----BEGIN PGP SIGNED MESSAGE-----'
BEGIN_SIG = '-----BEGIN PGP SIGNATURE-----'
END_SIG = '-----END PGP SIGNATURE-----'

LINE_CLASSES = {
    'M': BEGIN_MSG,
    'S': BEGIN_SIG,
    'E': END_SIG,
    'A': '-----BEGIN PGP MESSAGE-----',     # other armor-like line
    'B': '',                                # blank
    'H': 'Hash: SHA256',                    # armor header / base64 text
    'V': 'DATA a 0',                        # valid entry
    'D': '- DATA b 1 MD5 aa',               # dash-escaped entry
    'Q': '- -----BEGIN PGP SIGNATURE-----', # dash-escaped armor line
    'J': 'junk line here',                  # junk
    'W': '- - DATA c 0',                    # escaped twice: one level of unescaping leaves '- DATA c 0', not an entry
    'X': '-DATA d 0',                       # a dash that is no dash-escape
}


def class_texts(maxlen, final_newline=(True, False)):
    keys = list(LINE_CLASSES)
    for n in range(0, maxlen + 1):
        for combo in itertools.product(keys, repeat=n):
            for fn in final_newline:
                if n == 0 and not fn:
                    continue
                lines = [LINE_CLASSES[k] for k in combo]
                yield ''.join(combo), '\n'.join(lines) + ('\n' if fn and n else '')


def framework_text(rng, minlen=5, maxlen=12):
    """a sampled sequence of line classes, biased towards the order of a cleartext-signed message (text before, BEGIN, armor
    headers, blank, body with dash-escaped / armor-like / junk lines, SIGNATURE, base64, END, text after), one line
    sometimes dropped, random trailing white space; returns (classes, text)"""
    keys = list(LINE_CLASSES)
    k = rng.randint(minlen, maxlen)
    combo = [rng.choice(keys) for _ in range(k)]
    if rng.random() < 0.7:
        body = [rng.choice('VDBQJWXQ') for _ in range(rng.randint(0, 5))]
        sig = [rng.choice('HBAJ') for _ in range(rng.randint(0, 2))]
        combo = ([rng.choice('BBV') for _ in range(rng.randint(0, 2))] + ['M'] +
                 [rng.choice('HHJ') for _ in range(rng.randint(0, 2))] + ['B'] + body + ['S'] + sig + ['E'] +
                 [rng.choice('BBVJ') for _ in range(rng.randint(0, 2))])
        if rng.random() < 0.4:
            del combo[rng.randrange(len(combo))]
    lines = [LINE_CLASSES[c] + rng.choice(['', '', '', ' ', '\t', '\r']) for c in combo]
    return ''.join(combo), '\n'.join(lines) + rng.choice(['\n', ''])
