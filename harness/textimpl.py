"""Real-implementation side of the L0 (text level) correspondence."""
import io
import os
import unicodedata

from harness.common import cps, scratch_dir

import gemato.manifest as gm
from gemato.compression import open_potentially_compressed_path
from gemato.exceptions import ManifestSyntaxError, ManifestUnsignedData, GematoException


class RecordingEnv:
    """stand-in OpenPGP back end: records the text it is given"""
    def __init__(self, fail=None):
        self.seen = []
        self.fail = fail

    def verify_file(self, f):
        self.seen.append(f.read())
        if self.fail is not None:
            raise self.fail
        return 'SIGDATA'


def canon_entry(e):
    if e.tag == 'TIMESTAMP':
        t = e.ts
        return ['TIMESTAMP', [t.year, t.month, t.day, t.hour, t.minute, t.second]]
    if e.tag == 'IGNORE':
        return ['IGNORE', cps(e.path)]
    path = e.aux_path if e.tag == 'AUX' else e.path
    return [e.tag, cps(path), e.size, [[cps(k), cps(v)] for k, v in sorted(e.checksums.items())]]


def classify_exc(e):
    if isinstance(e, ManifestSyntaxError):
        return 'syntax'
    if isinstance(e, ManifestUnsignedData):
        return 'unsigned'
    if isinstance(e, GematoException):
        return 'gemato:' + type(e).__name__
    return 'exc:' + type(e).__name__


def load_outcome(m, env):
    signed = None
    if m.openpgp_signed:
        signed = cps(env.seen[-1]) if env.seen else []
    return {'entries': [canon_entry(e) for e in m.entries], 'signed': signed}


def impl_load_stringio(text):
    env = RecordingEnv()
    m = gm.ManifestFile()
    try:
        m.load(io.StringIO(text), verify_openpgp=True, openpgp_env=env)
    except Exception as e:
        return {'err': classify_exc(e)}
    if (len(env.seen) == 1) != bool(m.openpgp_signed):
        return {'err': 'exc:signed-flag-without-verify'}
    return load_outcome(m, env)


def impl_load_file(text, suffix='', tmpdir=None):
    """through a real file, text mode, universal newlines; optional compression"""
    own = tmpdir is None
    if own:
        tmpdir = scratch_dir()
    p = os.path.join(tmpdir, 'Manifest' + suffix)
    try:
        data = text.encode('utf8')
        if suffix:
            with open_potentially_compressed_path(p, 'wb') as f:
                f.write(data)
        else:
            with open(p, 'wb') as f:
                f.write(data)
        env = RecordingEnv()
        m = gm.ManifestFile()
        try:
            with open_potentially_compressed_path(p, 'r', encoding='utf8') as f:
                m.load(f, verify_openpgp=True, openpgp_env=env)
        except Exception as e:
            return {'err': classify_exc(e)}
        return load_outcome(m, env)
    finally:
        try:
            os.unlink(p)
        except OSError:
            pass
        if own:
            os.rmdir(tmpdir)


def model_abstains(text):
    """inputs the text model does not cover: non-ASCII decimal digits in a NUMERIC field (CPython's int() and strptime
    accept them): the size field of a file entry, the value of a TIMESTAMP. Anywhere else (paths, escapes, checksum
    fields) such characters are ordinary code points that the model handles."""
    def nd(tok):
        return any(ord(c) > 127 and unicodedata.category(c) == 'Nd' for c in tok)
    if not nd(text):
        return False
    for line in text.replace('\r\n', '\n').replace('\r', '\n').split('\n'):
        toks = line.split()
        if not toks:
            continue
        body = toks[1:] if toks[0] == '-' else toks          # a dash-escaped line of a signed Manifest
        if not body:
            continue
        if body[0] == 'TIMESTAMP':
            if any(nd(t) for t in body[1:2]):
                return True
        elif body[0] in ('MANIFEST', 'DATA', 'DIST', 'EBUILD', 'MISC', 'AUX'):
            if any(nd(t) for t in body[2:3]):
                return True
        elif nd(body[0]):
            return True                                      # a tag-like token with such digits: leave it to the class oracle
    return False


def make_entry(c):
    """canonical entry (as produced by canon_entry / the driver) -> gemato object"""
    import datetime
    tag = c[0]
    if tag == 'TIMESTAMP':
        return gm.ManifestEntryTIMESTAMP(datetime.datetime(*c[1]))
    s = lambda a: ''.join(chr(x) for x in a)
    if tag == 'IGNORE':
        return gm.ManifestEntryIGNORE(s(c[1]))
    return gm.new_manifest_entry(tag, s(c[1]), c[2], {s(k): s(v) for k, v in c[3]})


def impl_dump(centries, sort=False):
    m = gm.ManifestFile()
    m.entries = [make_entry(c) for c in centries]
    out = io.StringIO()
    try:
        m.dump(out, sign_openpgp=False, sort=sort)
    except Exception as e:
        return {'err': classify_exc(e)}
    return {'text': cps(out.getvalue())}
