"""T1: constants re-extracted from /repo's current source on every run.

Reads the Python sources with `ast` (never imports them) and writes
lean/Gemato/Extracted.lean. Items that cannot be found are reported (the tie is
broken) and emitted as an empty default so the file still compiles; the Bridge
obligation for that item then fails.
"""
import ast
import os
import re
import sys

from harness.common import REPO, LEAN

try:
    import re._parser as sre_parse
    import re._constants as sre_c
except ImportError:  # pragma: no cover
    import sre_parse
    import sre_constants as sre_c


def _src(rel):
    with open(os.path.join(REPO, rel), encoding='utf8') as f:
        return ast.parse(f.read())


def lstr(s):
    return '[' + ', '.join(str(ord(c)) for c in s) + ']'


def llist(items):
    return '[' + ', '.join(items) + ']'


def norm_ranges(rs):
    rs = sorted(rs)
    out = []
    for lo, hi in rs:
        if out and lo <= out[-1][1] + 1:
            out[-1] = (out[-1][0], max(out[-1][1], hi))
        else:
            out.append((lo, hi))
    return out


_space_cache = None


def space_ranges():
    global _space_cache
    if _space_cache is None:
        pat = re.compile(r'\s', re.U)
        cps = [c for c in range(0x110000) if pat.match(chr(c))]
        _space_cache = norm_ranges([(c, c) for c in cps])
    return _space_cache


def class_ranges(items):
    rs = []
    for op, av in items:
        if op is sre_c.LITERAL:
            rs.append((av, av))
        elif op is sre_c.RANGE:
            rs.append(tuple(av))
        elif op is sre_c.CATEGORY and av is sre_c.CATEGORY_SPACE:
            rs += space_ranges()
        else:
            raise ValueError(f'unsupported class item {op} {av}')
    return norm_ranges(rs)


def lranges(rs):
    return llist(f'({a}, {b})' for a, b in rs)


def find_assign(tree, name, cls=None):
    """value node of `name = ...` at module level or inside class `cls`"""
    body = tree.body
    if cls is not None:
        for n in tree.body:
            if isinstance(n, ast.ClassDef) and n.name == cls:
                body = n.body
                break
        else:
            raise KeyError(f'class {cls}')
    for n in body:
        if isinstance(n, ast.Assign):
            for t in n.targets:
                if isinstance(t, ast.Name) and t.id == name:
                    return n.value
    raise KeyError(name)


def find_func(tree, name, cls=None):
    for n in ast.walk(tree):
        if isinstance(n, ast.ClassDef) and cls is not None and n.name == cls:
            for m in n.body:
                if isinstance(m, (ast.FunctionDef,)) and m.name == name:
                    return m
        if cls is None and isinstance(n, ast.FunctionDef) and n.name == name:
            return n
    raise KeyError(f'{cls}.{name}')


def const_strs(node):
    return [n.value for n in ast.walk(node) if isinstance(n, ast.Constant) and isinstance(n.value, (str, bytes))]


def regex_pattern(call):
    # re.compile(<pattern>, flags?)
    assert isinstance(call, ast.Call)
    return ast.literal_eval(call.args[0])


class Out:
    def __init__(self):
        self.defs = []
        self.errors = []

    def item(self, name, ty, fn, default):
        try:
            v = fn()
        except Exception as e:
            self.errors.append(f'{name}: {type(e).__name__}: {e}')
            v = default
        self.defs.append(f'def {name} : {ty} := {v}')


def extract():
    o = Out()
    man = _src('gemato/manifest.py')

    # --- manifest.py -------------------------------------------------------
    def tag_keys():
        d = find_assign(man, 'MANIFEST_TAG_MAPPING')
        return llist(lstr(ast.literal_eval(k)) for k in d.keys)
    o.item('tagKeys', 'List (List Nat)', tag_keys, '[]')

    def tag_classes():
        d = find_assign(man, 'MANIFEST_TAG_MAPPING')
        return llist(f'({lstr(ast.literal_eval(k))}, {lstr(v.id)})' for k, v in zip(d.keys, d.values))
    o.item('tagClasses', 'List (List Nat × List Nat)', tag_classes, '[]')

    def class_tags():
        # tag attribute of each entry class: (class name, tag)
        out = []
        for n in man.body:
            if isinstance(n, ast.ClassDef):
                for m in n.body:
                    if isinstance(m, ast.Assign) and any(isinstance(t, ast.Name) and t.id == 'tag' for t in m.targets):
                        out.append(f'({lstr(n.name)}, {lstr(ast.literal_eval(m.value))})')
        return llist(out)
    o.item('classTags', 'List (List Nat × List Nat)', class_tags, '[]')

    def hash_mapping():
        d = ast.literal_eval(find_assign(man, 'MANIFEST_HASH_MAPPING'))
        return llist(f'({lstr(k)}, {lstr(v)})' for k, v in d.items())
    o.item('hashMapping', 'List (List Nat × List Nat)', hash_mapping, '[]')

    def disallowed():
        pat = regex_pattern(find_assign(man, 'disallowed_path_re', 'ManifestPathEntry'))
        p = sre_parse.parse(pat, re.U)
        assert len(p) == 1 and p[0][0] is sre_c.IN, 'disallowed_path_re is not a single character class'
        return lranges(class_ranges(p[0][1]))
    o.item('disallowedRanges', 'List (Nat × Nat)', disallowed, '[]')

    def escape_forms():
        # \\( x HEX{2} | u HEX{4} | U HEX{8} )?   ->  [(marker, width)], hex class
        pat = regex_pattern(find_assign(man, 'escape_seq_re', 'ManifestPathEntry'))
        p = sre_parse.parse(pat)
        assert p[0] == (sre_c.LITERAL, 92), 'escape does not start with a backslash'
        op, av = p[1]
        assert op is sre_c.MAX_REPEAT and av[0] == 0 and av[1] == 1, 'optional group expected'
        sub = av[2]
        assert sub[0][0] is sre_c.SUBPATTERN
        inner = sub[0][1][3]
        assert inner[0][0] is sre_c.BRANCH
        forms = []
        hexes = set()
        for alt in inner[0][1][1]:
            assert alt[0][0] is sre_c.LITERAL
            marker = alt[0][1]
            rop, rav = alt[1]
            assert rop is sre_c.MAX_REPEAT and rav[0] == rav[1]
            width = rav[0]
            cls = rav[2]
            assert cls[0][0] is sre_c.IN
            hexes.add(tuple(class_ranges(cls[0][1])))
            forms.append((marker, width))
        assert len(hexes) == 1
        return forms, list(hexes)[0], len(p)
    def esc_forms():
        forms, _h, n = escape_forms()
        assert n == 2
        return llist(f'({m}, {w})' for m, w in forms)
    o.item('escapeForms', 'List (Nat × Nat)', esc_forms, '[]')
    o.item('hexClass', 'List (Nat × Nat)', lambda: lranges(escape_forms()[1]), '[]')

    def decode_base():
        f = find_func(man, 'decode_char', 'ManifestPathEntry')
        for n in ast.walk(f):
            if isinstance(n, ast.Call) and isinstance(n.func, ast.Name) and n.func.id == 'int':
                for kw in n.keywords:
                    if kw.arg == 'base':
                        return str(ast.literal_eval(kw.value))
                if len(n.args) == 2:
                    return str(ast.literal_eval(n.args[1]))
        raise KeyError('int(..., base=) in decode_char')
    o.item('decodeBase', 'Nat', decode_base, '0')

    def encode_thresholds():
        f = find_func(man, 'encode_char', 'ManifestPathEntry')
        out = []
        for n in ast.walk(f):
            if isinstance(n, ast.If):
                t = n.test
                if isinstance(t, ast.Compare) and isinstance(t.ops[0], ast.LtE):
                    out.append(ast.literal_eval(t.comparators[0]))
        fmts = [s for s in const_strs(f) if isinstance(s, str)]
        return out, fmts
    o.item('encodeThresholds', 'List Nat', lambda: llist(str(x) for x in encode_thresholds()[0]), '[]')

    def encode_formats():
        # the f-strings of encode_char: collect (literal prefix, format spec) per JoinedStr
        f = find_func(man, 'encode_char', 'ManifestPathEntry')
        out = []
        for n in ast.walk(f):
            if isinstance(n, ast.JoinedStr):
                pre = ''
                spec = ''
                if not any(isinstance(v, ast.FormattedValue) for v in n.values):
                    continue
                for v in n.values:
                    if isinstance(v, ast.Constant):
                        pre += v.value
                    elif isinstance(v, ast.FormattedValue):
                        spec = ''.join(x.value for x in v.format_spec.values) if v.format_spec else ''
                out.append(f'({lstr(pre)}, {lstr(spec)})')
        return llist(out)
    o.item('encodeFormats', 'List (List Nat × List Nat)', encode_formats, '[]')

    def armor_lines():
        f = find_func(man, 'load', 'ManifestFile')
        out = []
        for n in ast.walk(f):
            if isinstance(n, ast.Compare) and isinstance(n.ops[0], ast.Eq) and isinstance(n.left, ast.Name) \
                    and n.left.id == 'line' and isinstance(n.comparators[0], ast.Constant):
                out.append(n.comparators[0].value)
        return llist(lstr(s) for s in out)
    o.item('armorLines', 'List (List Nat)', armor_lines, '[]')

    def armor_like():
        f = find_func(man, 'load', 'ManifestFile')
        out = []
        for n in ast.walk(f):
            if isinstance(n, ast.Call) and isinstance(n.func, ast.Attribute) and n.func.attr in ('startswith', 'endswith') \
                    and n.args and isinstance(n.args[0], ast.Constant):
                out.append((n.lineno, n.col_offset, n.func.attr, n.args[0].value))
        out.sort()      # source order
        return llist(f'({lstr(a)}, {lstr(b)})' for _l, _c, a, b in out)
    o.item('loadPrefixTests', 'List (List Nat × List Nat)', armor_like, '[]')

    def ts_formats():
        out = []
        for n in ast.walk(man):
            if isinstance(n, ast.Call) and isinstance(n.func, ast.Attribute) and n.func.attr in ('strptime', 'strftime'):
                for a in n.args:
                    if isinstance(a, ast.Constant) and isinstance(a.value, str):
                        out.append((n.func.attr, a.value))
        return llist(f'({lstr(a)}, {lstr(b)})' for a, b in out)
    o.item('tsFormats', 'List (List Nat × List Nat)', ts_formats, '[]')

    def find_path_skip():
        f = find_func(man, 'find_path_entry', 'ManifestFile')
        for n in ast.walk(f):
            if isinstance(n, ast.Compare) and isinstance(n.ops[0], ast.In) and isinstance(n.comparators[0], ast.Tuple):
                return llist(lstr(x) for x in ast.literal_eval(n.comparators[0]))
        raise KeyError('tag tuple')
    o.item('findPathSkipTags', 'List (List Nat)', find_path_skip, '[]')

    for hook in EXTRA:
        hook(o)
    return o


EXTRA = []


def write_extracted():
    o = extract()
    path = os.path.join(LEAN, 'Gemato', 'Extracted.lean')
    txt = ('/- GENERATED on every run by harness/extract.py from /repo\'s current source. Do not edit. -/\n'
           'namespace Gemato.Extracted\n\n' + '\n'.join(o.defs) + '\n\nend Gemato.Extracted\n')
    old = None
    if os.path.exists(path):
        old = open(path, encoding='utf8').read()
    if old != txt:
        with open(path, 'w', encoding='utf8') as f:
            f.write(txt)
    return o.errors


if __name__ == '__main__':
    errs = write_extracted()
    print(open(os.path.join(LEAN, 'Gemato', 'Extracted.lean')).read())
    print('errors:', errs)
