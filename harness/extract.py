"""T1: constants re-extracted from /repo's current source on every run.

Reads the Python sources with `ast` (never imports them) and writes
lean/Gemato/Extracted.lean. Items that cannot be found are reported (the tie is
broken) and emitted as an empty default so the file still compiles; the Bridge
obligation for that item then fails.
"""
import ast
import json
import os
import re
import sys

from harness.common import REPO, LEAN

try:
    import re._parser as sre_parse
    import re._constants as sre_c
except ImportError:  # pragma: no cover
    import sre_parse
    import sre_constants as sre_c


def _src(rel):
    with open(os.path.join(REPO, rel), encoding='utf8') as f:
        return ast.parse(f.read())


def lstr(s):
    return '[' + ', '.join(str(ord(c)) for c in s) + ']'


def llist(items):
    return '[' + ', '.join(items) + ']'


def norm_ranges(rs):
    rs = sorted(rs)
    out = []
    for lo, hi in rs:
        if out and lo <= out[-1][1] + 1:
            out[-1] = (out[-1][0], max(out[-1][1], hi))
        else:
            out.append((lo, hi))
    return out


_space_cache = None


def space_ranges():
    global _space_cache
    if _space_cache is None:
        pat = re.compile(r'\s', re.U)
        cps = [c for c in range(0x110000) if pat.match(chr(c))]
        _space_cache = norm_ranges([(c, c) for c in cps])
    return _space_cache


def class_ranges(items):
    rs = []
    for op, av in items:
        if op is sre_c.LITERAL:
            rs.append((av, av))
        elif op is sre_c.RANGE:
            rs.append(tuple(av))
        elif op is sre_c.CATEGORY and av is sre_c.CATEGORY_SPACE:
            rs += space_ranges()
        else:
            raise ValueError(f'unsupported class item {op} {av}')
    return norm_ranges(rs)


def lranges(rs):
    return llist(f'({a}, {b})' for a, b in rs)


def find_assign(tree, name, cls=None):
    """value node of `name = ...` at module level or inside class `cls`"""
    body = tree.body
    if cls is not None:
        for n in tree.body:
            if isinstance(n, ast.ClassDef) and n.name == cls:
                body = n.body
                break
        else:
            raise KeyError(f'class {cls}')
    for n in body:
        if isinstance(n, ast.Assign):
            for t in n.targets:
                if isinstance(t, ast.Name) and t.id == name:
                    return n.value
    raise KeyError(name)


def find_func(tree, name, cls=None):
    for n in ast.walk(tree):
        if isinstance(n, ast.ClassDef) and cls is not None and n.name == cls:
            for m in n.body:
                if isinstance(m, (ast.FunctionDef,)) and m.name == name:
                    return m
        if cls is None and isinstance(n, ast.FunctionDef) and n.name == name:
            return n
    raise KeyError(f'{cls}.{name}')


def const_strs(node):
    return [n.value for n in ast.walk(node) if isinstance(n, ast.Constant) and isinstance(n.value, (str, bytes))]


def regex_pattern(call):
    # re.compile(<pattern>, flags?)
    assert isinstance(call, ast.Call)
    return ast.literal_eval(call.args[0])


class Out:
    def __init__(self):
        self.defs = []
        self.errors = []

    def item(self, name, ty, fn, default):
        try:
            v = fn()
        except Exception as e:
            self.errors.append(f'{name}: {type(e).__name__}: {e}')
            v = default
        self.defs.append(f'def {name} : {ty} := {v}')


def extract():
    o = Out()
    man = _src('gemato/manifest.py')

    # --- manifest.py -------------------------------------------------------
    def tag_keys():
        d = find_assign(man, 'MANIFEST_TAG_MAPPING')
        return llist(lstr(ast.literal_eval(k)) for k in d.keys)
    o.item('tagKeys', 'List (List Nat)', tag_keys, '[]')

    def tag_classes():
        d = find_assign(man, 'MANIFEST_TAG_MAPPING')
        return llist(f'({lstr(ast.literal_eval(k))}, {lstr(v.id)})' for k, v in zip(d.keys, d.values))
    o.item('tagClasses', 'List (List Nat × List Nat)', tag_classes, '[]')

    def class_tags():
        # tag attribute of each entry class: (class name, tag)
        out = []
        for n in man.body:
            if isinstance(n, ast.ClassDef):
                for m in n.body:
                    if isinstance(m, ast.Assign) and any(isinstance(t, ast.Name) and t.id == 'tag' for t in m.targets):
                        out.append(f'({lstr(n.name)}, {lstr(ast.literal_eval(m.value))})')
        return llist(out)
    o.item('classTags', 'List (List Nat × List Nat)', class_tags, '[]')

    def hash_mapping():
        d = ast.literal_eval(find_assign(man, 'MANIFEST_HASH_MAPPING'))
        return llist(f'({lstr(k)}, {lstr(v)})' for k, v in d.items())
    o.item('hashMapping', 'List (List Nat × List Nat)', hash_mapping, '[]')

    def disallowed():
        pat = regex_pattern(find_assign(man, 'disallowed_path_re', 'ManifestPathEntry'))
        p = sre_parse.parse(pat, re.U)
        assert len(p) == 1 and p[0][0] is sre_c.IN, 'disallowed_path_re is not a single character class'
        return lranges(class_ranges(p[0][1]))
    o.item('disallowedRanges', 'List (Nat × Nat)', disallowed, '[]')

    def escape_forms():
        # \\( x HEX{2} | u HEX{4} | U HEX{8} )?   ->  [(marker, width)], hex class
        pat = regex_pattern(find_assign(man, 'escape_seq_re', 'ManifestPathEntry'))
        p = sre_parse.parse(pat)
        assert p[0] == (sre_c.LITERAL, 92), 'escape does not start with a backslash'
        op, av = p[1]
        assert op is sre_c.MAX_REPEAT and av[0] == 0 and av[1] == 1, 'optional group expected'
        sub = av[2]
        assert sub[0][0] is sre_c.SUBPATTERN
        inner = sub[0][1][3]
        assert inner[0][0] is sre_c.BRANCH
        forms = []
        hexes = set()
        for alt in inner[0][1][1]:
            assert alt[0][0] is sre_c.LITERAL
            marker = alt[0][1]
            rop, rav = alt[1]
            assert rop is sre_c.MAX_REPEAT and rav[0] == rav[1]
            width = rav[0]
            cls = rav[2]
            assert cls[0][0] is sre_c.IN
            hexes.add(tuple(class_ranges(cls[0][1])))
            forms.append((marker, width))
        assert len(hexes) == 1
        return forms, list(hexes)[0], len(p)
    def esc_forms():
        forms, _h, n = escape_forms()
        assert n == 2
        return llist(f'({m}, {w})' for m, w in forms)
    o.item('escapeForms', 'List (Nat × Nat)', esc_forms, '[]')
    o.item('hexClass', 'List (Nat × Nat)', lambda: lranges(escape_forms()[1]), '[]')

    def decode_base():
        f = find_func(man, 'decode_char', 'ManifestPathEntry')
        for n in ast.walk(f):
            if isinstance(n, ast.Call) and isinstance(n.func, ast.Name) and n.func.id == 'int':
                for kw in n.keywords:
                    if kw.arg == 'base':
                        return str(ast.literal_eval(kw.value))
                if len(n.args) == 2:
                    return str(ast.literal_eval(n.args[1]))
        raise KeyError('int(..., base=) in decode_char')
    o.item('decodeBase', 'Nat', decode_base, '0')

    def encode_thresholds():
        f = find_func(man, 'encode_char', 'ManifestPathEntry')
        out = []
        for n in ast.walk(f):
            if isinstance(n, ast.If):
                t = n.test
                if isinstance(t, ast.Compare) and isinstance(t.ops[0], ast.LtE):
                    out.append(ast.literal_eval(t.comparators[0]))
        fmts = [s for s in const_strs(f) if isinstance(s, str)]
        return out, fmts
    o.item('encodeThresholds', 'List Nat', lambda: llist(str(x) for x in encode_thresholds()[0]), '[]')

    def encode_formats():
        # the f-strings of encode_char: collect (literal prefix, format spec) per JoinedStr
        f = find_func(man, 'encode_char', 'ManifestPathEntry')
        out = []
        for n in ast.walk(f):
            if isinstance(n, ast.JoinedStr):
                pre = ''
                spec = ''
                if not any(isinstance(v, ast.FormattedValue) for v in n.values):
                    continue
                for v in n.values:
                    if isinstance(v, ast.Constant):
                        pre += v.value
                    elif isinstance(v, ast.FormattedValue):
                        spec = ''.join(x.value for x in v.format_spec.values) if v.format_spec else ''
                out.append(f'({lstr(pre)}, {lstr(spec)})')
        return llist(out)
    o.item('encodeFormats', 'List (List Nat × List Nat)', encode_formats, '[]')

    def armor_lines():
        f = find_func(man, 'load', 'ManifestFile')
        out = []
        for n in ast.walk(f):
            if isinstance(n, ast.Compare) and isinstance(n.ops[0], ast.Eq) and isinstance(n.left, ast.Name) \
                    and n.left.id == 'line' and isinstance(n.comparators[0], ast.Constant):
                out.append(n.comparators[0].value)
        return llist(lstr(s) for s in out)
    o.item('armorLines', 'List (List Nat)', armor_lines, '[]')

    def armor_like():
        f = find_func(man, 'load', 'ManifestFile')
        out = []
        for n in ast.walk(f):
            if isinstance(n, ast.Call) and isinstance(n.func, ast.Attribute) and n.func.attr in ('startswith', 'endswith') \
                    and n.args and isinstance(n.args[0], ast.Constant):
                out.append((n.lineno, n.col_offset, n.func.attr, n.args[0].value))
        out.sort()      # source order
        return llist(f'({lstr(a)}, {lstr(b)})' for _l, _c, a, b in out)
    o.item('loadPrefixTests', 'List (List Nat × List Nat)', armor_like, '[]')

    def ts_formats():
        out = []
        for n in ast.walk(man):
            if isinstance(n, ast.Call) and isinstance(n.func, ast.Attribute) and n.func.attr in ('strptime', 'strftime'):
                for a in n.args:
                    if isinstance(a, ast.Constant) and isinstance(a.value, str):
                        out.append((n.func.attr, a.value))
        return llist(f'({lstr(a)}, {lstr(b)})' for a, b in out)
    o.item('tsFormats', 'List (List Nat × List Nat)', ts_formats, '[]')

    def find_path_skip():
        f = find_func(man, 'find_path_entry', 'ManifestFile')
        for n in ast.walk(f):
            if isinstance(n, ast.Compare) and isinstance(n.ops[0], ast.In) and isinstance(n.comparators[0], ast.Tuple):
                return llist(lstr(x) for x in ast.literal_eval(n.comparators[0]))
        raise KeyError('tag tuple')
    o.item('findPathSkipTags', 'List (List Nat)', find_path_skip, '[]')

    for hook in EXTRA:
        hook(o)
    return o


EXTRA = []


def write_extracted():
    o = extract()
    path = os.path.join(LEAN, 'Gemato', 'Extracted.lean')
    txt = ('/- GENERATED on every run by harness/extract.py from /repo\'s current source. Do not edit. -/\n'
           'namespace Gemato.Extracted\n\n' + '\n'.join(o.defs) + '\n\nend Gemato.Extracted\n')
    old = None
    if os.path.exists(path):
        old = open(path, encoding='utf8').read()
    if old != txt:
        with open(path, 'w', encoding='utf8') as f:
            f.write(txt)
    return o.errors




# ---------------------------------------------------------------------------
# openpgp.py / cli.py (C05, C14)
# ---------------------------------------------------------------------------

def lbytes(b):
    return '[' + ', '.join(str(x) for x in b) + ']'


def _pgp(o):
    pg = _src('gemato/openpgp.py')
    cli = _src('gemato/cli.py')

    def vf():
        return find_func(pg, 'verify_file', 'SystemGPGEnvironment')

    def prefixes():
        out = []
        for n in ast.walk(vf()):
            if isinstance(n, ast.Call) and isinstance(n.func, ast.Attribute) and n.func.attr == 'startswith' \
                    and n.args and isinstance(n.args[0], ast.Constant) and isinstance(n.args[0].value, bytes):
                out.append((n.lineno, n.col_offset, n.args[0].value))
        out.sort()
        return llist(lbytes(b) for _l, _c, b in out)
    o.item('pgpPrefixes', 'List (List Nat)', prefixes, '[]')

    def trust_tokens():
        for n in ast.walk(vf()):
            if isinstance(n, ast.Compare) and isinstance(n.ops[0], ast.In) and isinstance(n.comparators[0], ast.Tuple):
                vals = ast.literal_eval(n.comparators[0])
                if all(isinstance(v, bytes) for v in vals):
                    # the tested expression must be spl[1]
                    assert isinstance(n.left, ast.Subscript) and ast.literal_eval(n.left.slice) == 1
                    return llist(lbytes(v) for v in vals)
        raise KeyError('trust tuple')
    o.item('pgpTrustTokens', 'List (List Nat)', trust_tokens, '[]')

    def valid_idx():
        idx = []
        for n in ast.walk(vf()):
            if isinstance(n, ast.Subscript) and isinstance(n.value, ast.Name) and n.value.id == 'spl' \
                    and isinstance(n.slice, ast.Constant) and isinstance(n.slice.value, int):
                idx.append((n.lineno, n.col_offset, n.slice.value))
        idx.sort()
        return llist(str(i) for _l, _c, i in idx)
    o.item('pgpSplIndices', 'List Nat', valid_idx, '[]')

    def min_fields():
        for n in ast.walk(vf()):
            if isinstance(n, ast.Assert) and isinstance(n.test, ast.Compare) and isinstance(n.test.ops[0], ast.GtE):
                return str(ast.literal_eval(n.test.comparators[0]))
        raise KeyError('assert len(spl) >= N')
    o.item('pgpMinFields', 'Nat', min_fields, '0')

    def split_args():
        out = []
        for n in ast.walk(vf()):
            if isinstance(n, ast.Call) and isinstance(n.func, ast.Attribute) and n.func.attr == 'split':
                args = [ast.literal_eval(a) for a in n.args]
                out.append((n.lineno, n.col_offset, args))
        out.sort()
        # (separator bytes, maxsplit or 0 if absent)
        return llist(f'({lbytes(a[0])}, {a[1] if len(a) > 1 else 0})' for _l, _c, a in out)
    o.item('pgpSplitCalls', 'List (List Nat × Nat)', split_args, '[]')

    def verify_argv():
        for n in ast.walk(vf()):
            if isinstance(n, ast.Call) and isinstance(n.func, ast.Attribute) and n.func.attr == '_spawn_gpg':
                lst = n.args[0]
                assert isinstance(lst, ast.List) and isinstance(lst.elts[0], ast.Name) and lst.elts[0].id == 'GNUPG'
                roe = [kw.value.id for kw in n.keywords if kw.arg == 'raise_on_error']
                return llist(lstr(ast.literal_eval(e)) for e in lst.elts[1:]), roe
        raise KeyError('_spawn_gpg in verify_file')
    o.item('pgpVerifyArgv', 'List (List Nat)', lambda: verify_argv()[0], '[]')
    o.item('pgpVerifyRaiseOnError', 'List (List Nat)', lambda: llist(lstr(x) for x in verify_argv()[1]), '[]')

    def failure_order():
        # exception classes raised in verify_file, in source order
        out = []
        for n in ast.walk(vf()):
            if isinstance(n, ast.Raise) and isinstance(n.exc, ast.Call) and isinstance(n.exc.func, ast.Name):
                out.append((n.lineno, n.exc.func.id))
        out.sort()
        return llist(lstr(x) for _l, x in out)
    o.item('pgpRaises', 'List (List Nat)', failure_order, '[]')

    def spawn_env_steps():
        f = find_func(pg, '_spawn_gpg', 'SystemGPGEnvironment')
        steps = []
        for st in f.body:
            if isinstance(st, ast.Assign) and isinstance(st.targets[0], ast.Name) and st.targets[0].id == 'env':
                steps.append('copy:' + ast.unparse(st.value))
            elif isinstance(st, ast.Assign) and isinstance(st.targets[0], ast.Subscript) and \
                    isinstance(st.targets[0].value, ast.Name) and st.targets[0].value.id == 'env':
                steps.append('set:' + ast.literal_eval(st.targets[0].slice) + '=' + ast.literal_eval(st.value))
            elif isinstance(st, ast.Expr) and isinstance(st.value, ast.Call) and ast.unparse(st.value.func) == 'env.update':
                steps.append('update:' + ast.unparse(st.value.args[0]))
        # and Popen gets env=env
        popen_env = [ast.unparse(kw.value) for n in ast.walk(f) if isinstance(n, ast.Call) and ast.unparse(n.func).endswith('Popen')
                     for kw in n.keywords if kw.arg == 'env']
        steps.append('popen-env:' + ','.join(popen_env))
        return llist(lstr(s) for s in steps)
    o.item('pgpSpawnEnvSteps', 'List (List Nat)', spawn_env_steps, '[]')

    def isolated_override():
        f = find_func(pg, '_spawn_gpg', 'IsolatedGPGEnvironment')
        keys = []
        for n in ast.walk(f):
            if isinstance(n, ast.Dict):
                for k, v in zip(n.keys, n.values):
                    keys.append((n.lineno, ast.literal_eval(k), ast.unparse(v)))
            if isinstance(n, ast.Assign) and isinstance(n.targets[0], ast.Subscript) and \
                    ast.unparse(n.targets[0].value) == 'env_override':
                keys.append((n.lineno, ast.literal_eval(n.targets[0].slice), ast.unparse(n.value)))
        keys.sort()
        passes = any(isinstance(n, ast.Assign) and ast.unparse(n.targets[0]) == "kwargs['env_override']" and
                     ast.unparse(n.value) == 'env_override' for n in ast.walk(f))
        sup = any(isinstance(n, ast.Return) and ast.unparse(n.value).startswith('super()._spawn_gpg(*args, **kwargs)')
                  for n in ast.walk(f))
        return keys, passes and sup
    o.item('pgpIsolatedOverride', 'List (List Nat × List Nat)',
           lambda: llist(f'({lstr(k)}, {lstr(v)})' for _l, k, v in isolated_override()[0]), '[]')
    o.item('pgpIsolatedPassesOverride', 'Bool', lambda: 'true' if isolated_override()[1] else 'false', 'false')

    def home_property():
        f = find_func(pg, 'home', 'IsolatedGPGEnvironment')
        return lstr(ast.unparse(f.body[-1]))
    o.item('pgpHomeProperty', 'List Nat', home_property, '[]')

    def isolated_direct_spawns():
        # inside IsolatedGPGEnvironment every gpg start must go through self._spawn_gpg
        n_direct = 0
        n_self = 0
        for c in pg.body:
            if isinstance(c, ast.ClassDef) and c.name == 'IsolatedGPGEnvironment':
                for m in c.body:
                    if not isinstance(m, ast.FunctionDef):
                        continue
                    for n in ast.walk(m):
                        if isinstance(n, ast.Call):
                            fn = ast.unparse(n.func)
                            if fn == 'self._spawn_gpg':
                                n_self += 1
                            elif 'Popen' in fn or fn.startswith('subprocess.') or fn.startswith('os.system') or \
                                    (fn == 'super()._spawn_gpg' and m.name != '_spawn_gpg'):
                                n_direct += 1
        return n_direct, n_self
    o.item('pgpIsolatedDirectSpawns', 'Nat', lambda: str(isolated_direct_spawns()[0]), '99')
    o.item('pgpIsolatedSelfSpawns', 'Nat', lambda: str(isolated_direct_spawns()[1]), '0')

    def conf_direct():
        f = find_func(pg, '__init__', 'IsolatedGPGEnvironment')
        strs = [s for s in const_strs(f) if isinstance(s, str)]
        lines = [ln.strip() for s in strs for ln in s.split('\n')]
        return 'true' if 'trust-model direct' in lines else 'false'
    o.item('pgpConfTrustModelDirect', 'Bool', conf_direct, 'false')

    def ownertrust():
        f = find_func(pg, 'import_key', 'IsolatedGPGEnvironment')
        for n in ast.walk(f):
            if isinstance(n, ast.JoinedStr):
                consts = ''.join(v.value for v in n.values if isinstance(v, ast.Constant))
                if consts.startswith(':') and consts.endswith(':\n'):
                    return lstr(consts)
        raise KeyError('ownertrust format')
    o.item('pgpOwnertrustSuffix', 'List Nat', ownertrust, '[]')

    def env_choice():
        # BaseOpenPGPMixin.parse_args: isolated environment iff a key file is given
        f = find_func(cli, 'parse_args', 'BaseOpenPGPMixin')
        for n in ast.walk(f):
            if isinstance(n, ast.If) and ast.unparse(n.test) == 'args.openpgp_key is not None':
                a = ast.unparse(n.body[0]) if n.body else ''
                b = ast.unparse(n.orelse[0]) if n.orelse else ''
                if a.startswith('env_class'):
                    return llist([lstr(a), lstr(b)])
        raise KeyError('env_class choice')
    o.item('cliEnvChoice', 'List (List Nat)', env_choice, '[]')

    def env_aliases():
        out = []
        for n in pg.body:
            if isinstance(n, ast.Assign) and isinstance(n.targets[0], ast.Name) and isinstance(n.value, ast.Name) \
                    and n.targets[0].id.startswith('OpenPGP'):
                out.append(f'({lstr(n.targets[0].id)}, {lstr(n.value.id)})')
        return llist(out)
    o.item('pgpEnvAliases', 'List (List Nat × List Nat)', env_aliases, '[]')

    def require_signed():
        f = find_func(cli, '__call__', 'VerifyCommand')
        for n in ast.walk(f):
            if isinstance(n, ast.If) and ast.unparse(n.test) == 'self.require_signed_manifest and (not m.openpgp_signed)':
                rets = [ast.literal_eval(r.value) for r in ast.walk(n) if isinstance(r, ast.Return)]
                return llist(str(r) for r in rets)
        raise KeyError('require-signed gate')
    o.item('cliRequireSignedReturns', 'List Nat', require_signed, '[]')

    def loader_signed_flag():
        # ManifestRecursiveLoader.__init__: self.openpgp_signed = m.openpgp_signed  (m = the top-level ManifestFile)
        rl = _src('gemato/recursiveloader.py')
        f = find_func(rl, '__init__', 'ManifestRecursiveLoader')
        for n in ast.walk(f):
            if isinstance(n, ast.Assign) and ast.unparse(n.targets[0]) == 'self.openpgp_signed':
                return lstr(ast.unparse(n.value))
        raise KeyError('self.openpgp_signed')
    o.item('loaderSignedFlag', 'List Nat', loader_signed_flag, '[]')

    def signed_set_after_verify():
        # in ManifestFile.load: `self.openpgp_signed = True` is the statement right after the verify_file call block
        man = _src('gemato/manifest.py')
        f = find_func(man, 'load', 'ManifestFile')
        trues = [n for n in ast.walk(f) if isinstance(n, ast.Assign) and ast.unparse(n.targets[0]) == 'self.openpgp_signed'
                 and isinstance(n.value, ast.Constant) and n.value.value is True]
        assert len(trues) == 1
        last_if = f.body[-1]
        assert isinstance(last_if, ast.If)
        body = [ast.unparse(s).split('\n')[0] for s in last_if.body]
        return llist([lstr(ast.unparse(last_if.test))] + [lstr(b) for b in body])
    o.item('loadSignedTail', 'List (List Nat)', signed_set_after_verify, '[]')


EXTRA.append(_pgp)



# ---------------------------------------------------------------------------
# hash.py / verify.py (C17)
# ---------------------------------------------------------------------------

def _hash(o):
    h = _src('gemato/hash.py')
    ver = _src('gemato/verify.py')
    man = _src('gemato/manifest.py')
    o.item('hashBufferSize', 'Nat', lambda: str(ast.literal_eval(find_assign(h, 'HASH_BUFFER_SIZE'))), '0')
    o.item('maxSlurpSize', 'Nat', lambda: str(ast.literal_eval(find_assign(h, 'MAX_SLURP_SIZE'))), '0')

    def hf():
        return find_func(h, 'hash_file')

    def slurp_if():
        for n in hf().body:
            if isinstance(n, ast.If):
                return n
        raise KeyError('if in hash_file')
    o.item('hashSlurpCond', 'List Nat', lambda: lstr(ast.unparse(slurp_if().test)), '[]')
    o.item('hashSlurpBody', 'List (List Nat)',
           lambda: llist(lstr(ast.unparse(st).split('\n')[0]) for st in slurp_if().body), '[]')
    o.item('hashLoopBody', 'List (List Nat)',
           lambda: llist(lstr(x) for st in slurp_if().orelse for x in ast.unparse(st).split('\n')), '[]')
    o.item('hashReturn', 'List Nat', lambda: lstr(ast.unparse(hf().body[-1])), '[]')
    o.item('hashGetByName', 'List (List Nat)',
           lambda: llist(lstr(x.strip()) for st in find_func(h, 'get_hash_by_name').body[1:]
                         for x in ast.unparse(st).split('\n')), '[]')
    o.item('hashSizeHash', 'List (List Nat)',
           lambda: llist(lstr(x.strip()) for c in h.body if isinstance(c, ast.ClassDef) and c.name == 'SizeHash'
                         for m in c.body if isinstance(m, ast.FunctionDef)
                         for x in ast.unparse(m).split('\n')), '[]')

    def meta_hash_call():
        f = find_func(ver, 'get_file_metadata')
        for n in ast.walk(f):
            if isinstance(n, ast.Call) and isinstance(n.func, ast.Name) and n.func.id == 'hash_file':
                return lstr(ast.unparse(n))
        raise KeyError('hash_file call')
    o.item('metaHashCall', 'List Nat', meta_hash_call, '[]')
    o.item('hashNameTranslation', 'List (List Nat)',
           lambda: llist(lstr(x.strip()) for st in find_func(man, 'manifest_hashes_to_hashlib').body[1:]
                         for x in ast.unparse(st).split('\n')), '[]')


EXTRA.append(_hash)



# ---------------------------------------------------------------------------
# verify.py / recursiveloader.py / util.py (C01, C02, C06, C07, C16)
# ---------------------------------------------------------------------------

def _u(node):
    return ast.unparse(node)


def _tree(o):
    ver = _src('gemato/verify.py')
    rl = _src('gemato/recursiveloader.py')
    ut = _src('gemato/util.py')

    def compat_tags():
        f = find_func(ver, 'verify_entry_compatibility')
        for n in ast.walk(f):
            if isinstance(n, ast.Assign) and isinstance(n.targets[0], ast.Name) and n.targets[0].id == 'COMPATIBLE_TAGS':
                return llist(lstr(x) for x in ast.literal_eval(n.value))
        raise KeyError('COMPATIBLE_TAGS')
    o.item('compatibleTags', 'List (List Nat)', compat_tags, '[]')

    def compat_stages():
        f = find_func(ver, 'verify_entry_compatibility')
        return llist(lstr(_u(n.test)) for n in ast.walk(f) if isinstance(n, ast.If))
    o.item('compatConditions', 'List (List Nat)', compat_stages, '[]')

    def open_errors():
        f = find_func(ver, 'get_file_metadata')
        tr = [n for n in f.body if isinstance(n, ast.Try)][0]
        hs = []
        for h in tr.handlers:
            hs.append(_u(h.type))
        errnos = []
        for n in ast.walk(tr):
            if isinstance(n, ast.Compare) and isinstance(n.ops[0], ast.In) and _u(n.left) == 'err.errno':
                errnos = [_u(x) for x in n.comparators[0].elts]
        reraise = any(isinstance(n, ast.Raise) and n.exc is None for n in ast.walk(tr))
        return hs, errnos, reraise
    o.item('openAbsentClass', 'List (List Nat)', lambda: llist(lstr(x) for x in open_errors()[0]), '[]')
    o.item('openPresentErrnos', 'List (List Nat)', lambda: llist(lstr(x) for x in open_errors()[1]), '[]')
    o.item('openReraises', 'Bool', lambda: 'true' if open_errors()[2] else 'false', 'false')

    def verify_stages():
        f = find_func(ver, 'verify_path')
        conds = []
        for n in ast.walk(f):
            if isinstance(n, ast.If):
                conds.append((n.lineno, _u(n.test)))
        conds.sort()
        return llist(lstr(c) for _l, c in conds)
    o.item('verifyPathConditions', 'List (List Nat)', verify_stages, '[]')

    def update_stages():
        f = find_func(ver, 'update_entry_for_path')
        conds = []
        for n in ast.walk(f):
            if isinstance(n, ast.If):
                conds.append((n.lineno, _u(n.test)))
        conds.sort()
        return llist(lstr(c) for _l, c in conds)
    o.item('updateEntryConditions', 'List (List Nat)', update_stages, '[]')

    o.item('pathStartsWithBody', 'List Nat', lambda: lstr(_u(find_func(ut, 'path_starts_with').body[-1])), '[]')
    o.item('pathInsideDirBody', 'List Nat', lambda: lstr(_u(find_func(ut, 'path_inside_dir').body[-1])), '[]')
    o.item('poolMapBody', 'List Nat', lambda: lstr(_u(find_func(ut, 'map', 'MultiprocessingPoolWrapper').body[-1])), '[]')

    def defaults(fn, cls='ManifestRecursiveLoader'):
        f = find_func(rl, fn, cls)
        names = [a.arg for a in f.args.args]
        ds = f.args.defaults
        out = []
        for a, d in zip(names[len(names) - len(ds):], ds):
            out.append(f'({lstr(a)}, {lstr(_u(d))})')
        return llist(out)
    for fn in ('load_manifests_for_path', 'get_file_entry_dict', 'assert_directory_verifies', 'update_entries_for_directory',
               'load_unregistered_manifests', 'get_deduplicated_file_entry_dict_for_update', '__init__'):
        o.item('defaults_' + fn.strip('_'), 'List (List Nat × List Nat)', (lambda fn=fn: defaults(fn)), '[]')

    def walk_calls():
        out = []
        for n in ast.walk(rl):
            if isinstance(n, ast.Call) and _u(n.func) == 'os.walk':
                out.append((n.lineno, _u(n)))
        out.sort()
        return llist(lstr(x) for _l, x in out)
    o.item('walkCalls', 'List (List Nat)', walk_calls, '[]')

    def verify_aggregate():
        f = find_func(rl, 'assert_directory_verifies', 'ManifestRecursiveLoader')
        for n in ast.walk(f):
            if isinstance(n, ast.Assign) and _u(n.targets[0]) == 'ret' and 'imap_unordered' in _u(n.value):
                return lstr(' '.join(_u(n.value).split()))
        raise KeyError('ret = all(...)')
    o.item('verifyAggregate', 'List Nat', verify_aggregate, '[]')

    def verifier_call_conditions():
        f = find_func(rl, '__call__', 'SubprocessVerifier')
        out = [(n.lineno, _u(n.test)) for n in ast.walk(f) if isinstance(n, ast.If)]
        out.sort()
        return llist(lstr(c) for _l, c in out)
    o.item('verifierConditions', 'List (List Nat)', verifier_call_conditions, '[]')

    def verify_one():
        f = find_func(rl, '_verify_one_file', 'SubprocessVerifier')
        return llist(lstr(x.strip()) for st in f.body for x in _u(st).split('\n'))
    o.item('verifyOneFile', 'List (List Nat)', verify_one, '[]')

    def walk_dir_conditions():
        f = find_func(rl, 'assert_directory_verifies', 'ManifestRecursiveLoader')
        out = [(n.lineno, _u(n.test)) for n in ast.walk(f) if isinstance(n, ast.If)]
        out.sort()
        return llist(lstr(c) for _l, c in out)
    o.item('walkDirConditions', 'List (List Nat)', walk_dir_conditions, '[]')

    def verify_and_load():
        f = find_func(rl, 'verify_and_load', 'ManifestLoader')
        return llist(lstr(x.strip()) for st in f.body[1:] for x in _u(st).split('\n'))
    o.item('verifyAndLoad', 'List (List Nat)', verify_and_load, '[]')

    def lookup_loads():
        # every lookup API loads the chain with verification on (no verify=False argument)
        out = []
        for fn in ('find_path_entry', 'find_dist_entry', 'find_timestamp', 'update_entry_for_path'):
            f = find_func(rl, fn, 'ManifestRecursiveLoader')
            for n in ast.walk(f):
                if isinstance(n, ast.Call) and _u(n.func) == 'self.load_manifests_for_path':
                    out.append(f'({lstr(fn)}, {lstr(_u(n))})')
        return llist(out)
    o.item('lookupLoadCalls', 'List (List Nat × List Nat)', lookup_loads, '[]')

    def entry_dict_skip():
        f = find_func(rl, 'get_file_entry_dict', 'ManifestRecursiveLoader')
        out = [(n.lineno, _u(n.test)) for n in ast.walk(f) if isinstance(n, (ast.If,))]
        out.sort()
        return llist(lstr(c) for _l, c in out)
    o.item('entryDictConditions', 'List (List Nat)', entry_dict_skip, '[]')


EXTRA.append(_tree)



# ---------------------------------------------------------------------------
# find_top_level.py / compression.py (C15, C13)
# ---------------------------------------------------------------------------

def _findtop(o):
    ft = _src('gemato/find_top_level.py')
    co = _src('gemato/compression.py')
    f = find_func(ft, 'find_top_level_manifest')

    def conds():
        out = [(n.lineno, _u(n.test)) for n in ast.walk(f) if isinstance(n, ast.If)]
        out.sort()
        return llist(lstr(c) for _l, c in out)
    o.item('findTopConditions', 'List (List Nat)', conds, '[]')

    def names():
        out = []
        for n in f.body:
            if isinstance(n, ast.Assign) and _u(n.targets[0]) == 'manifest_filenames':
                out.append(_u(n.value))
        for n in ast.walk(f):
            if isinstance(n, ast.If) and _u(n.test) == 'allow_compressed':
                out += [_u(x.value) for x in n.body if isinstance(x, ast.Assign)]
        return llist(lstr(x) for x in out)
    o.item('findTopNames', 'List (List Nat)', names, '[]')

    def defaults():
        names_ = [a.arg for a in f.args.args]
        return llist(f'({lstr(a)}, {lstr(_u(d))})' for a, d in zip(names_, f.args.defaults))
    o.item('findTopDefaults', 'List (List Nat × List Nat)', defaults, '[]')

    def excepts():
        return llist(lstr(_u(h.type)) for n in ast.walk(f) if isinstance(n, ast.Try) for h in n.handlers)
    o.item('findTopExcepts', 'List (List Nat)', excepts, '[]')

    def tail():
        w = [n for n in f.body if isinstance(n, ast.While)][0]
        return llist(lstr(x) for st in w.body[-2:] for x in _u(st).split('\n'))
    o.item('findTopLoopTail', 'List (List Nat)', tail, '[]')

    def suffixes():
        g = find_func(co, 'get_potential_compressed_names')
        for n in ast.walk(g):
            if isinstance(n, ast.Tuple):
                return llist(lstr(x) for x in ast.literal_eval(n))
        raise KeyError('suffix tuple')
    o.item('compressedSuffixes', 'List (List Nat)', suffixes, '[]')

    def suffix_detect():
        g = find_func(co, 'get_compressed_suffix_from_filename')
        for n in ast.walk(g):
            if isinstance(n, ast.Compare) and isinstance(n.ops[0], ast.In):
                return llist(lstr(x) for x in ast.literal_eval(n.comparators[0]))
        raise KeyError('ext in (...)')
    o.item('compressedExts', 'List (List Nat)', suffix_detect, '[]')

    def codecs():
        g = find_func(co, 'open_compressed_file')
        out = []
        for n in ast.walk(g):
            if isinstance(n, ast.If):
                t = n.test
                c = t.values[0] if isinstance(t, ast.BoolOp) else t
                if isinstance(c, ast.Compare) and _u(c.left) == 'suffix':
                    out.append((n.lineno, ast.literal_eval(c.comparators[0]), ' '.join(_u(n.body[0]).split())))
        out.sort()
        return llist(f'({lstr(a)}, {lstr(b)})' for _l, a, b in out)
    o.item('codecDispatch', 'List (List Nat × List Nat)', codecs, '[]')


EXTRA.append(_findtop)



# ---------------------------------------------------------------------------
# profile.py (C19)
# ---------------------------------------------------------------------------

def _profile(o):
    pr = _src('gemato/profile.py')

    def method_lines(cls, fn):
        f = find_func(pr, fn, cls)
        body = f.body
        if body and isinstance(body[0], ast.Expr) and isinstance(body[0].value, ast.Constant):
            body = body[1:]       # docstring
        return llist(lstr(x) for st in body for x in _u(st).split('\n'))
    for cls, fns in (('DefaultProfile', ['set_loader_options', 'get_entry_type_for_path', 'want_manifest_in_directory',
                                         'get_ignore_paths_for_new_manifest', 'want_compressed_manifest']),
                     ('EbuildRepositoryProfile', ['want_manifest_in_directory', 'get_ignore_paths_for_new_manifest', 'set_loader_options']),
                     ('BackwardsCompatEbuildRepositoryProfile', ['get_entry_type_for_path', 'want_compressed_manifest'])):
        for fn in fns:
            o.item(f'prof_{cls}_{fn}', 'List (List Nat)', (lambda cls=cls, fn=fn: method_lines(cls, fn)), '[]')

    def classes():
        out = []
        for c in pr.body:
            if isinstance(c, ast.ClassDef):
                nm = [ast.literal_eval(m.value) for m in c.body if isinstance(m, ast.Assign) and _u(m.targets[0]) == 'name']
                out.append(f'({lstr(c.name)}, {lstr(_u(c.bases[0]) if c.bases else "")}, {lstr(nm[0] if nm else "")}, '
                           f'{llist(lstr(m.name) for m in c.body if isinstance(m, ast.FunctionDef))})')
        return llist(out)
    o.item('profClasses', 'List (List Nat × List Nat × List Nat × List (List Nat))', classes, '[]')


EXTRA.append(_profile)


# ---------------------------------------------------------------------------
# cli.py (C11, C18, C07 exit status)
# ---------------------------------------------------------------------------

def _cli(o):
    cl = _src('gemato/cli.py')

    def method_lines(cls, fn):
        f = find_func(cl, fn, cls)
        body = f.body
        if body and isinstance(body[0], ast.Expr) and isinstance(body[0].value, ast.Constant):
            body = body[1:]
        return llist(lstr(x) for st in body for x in _u(st).split('\n') if 'logging.' not in x)
    for cls in ('UpdateCommand', 'CreateCommand', 'VerifyCommand'):
        o.item(f'cli_{cls}_call', 'List (List Nat)', (lambda cls=cls: method_lines(cls, '__call__')), '[]')

    def main_excepts():
        f = find_func(cl, 'main')
        out = []
        for n in ast.walk(f):
            if isinstance(n, ast.Try):
                for h in n.handlers:
                    out.append((h.lineno, _u(h.type) if h.type is not None else ''))
        out.sort()
        return llist(lstr(t) for _l, t in out)
    o.item('cli_main_excepts', 'List (List Nat)', main_excepts, '[]')

    def set_ts():
        rl = _src('gemato/recursiveloader.py')
        out = []
        for fn in ('find_timestamp', 'set_timestamp'):
            f = find_func(rl, fn, 'ManifestRecursiveLoader')
            body = f.body[1:] if isinstance(f.body[0], ast.Expr) and isinstance(f.body[0].value, ast.Constant) else f.body
            out += [x for st in body for x in _u(st).split('\n')]
        return llist(lstr(x) for x in out)
    o.item('cli_timestamp_methods', 'List (List Nat)', set_ts, '[]')


EXTRA.append(_cli)


# ---------------------------------------------------------------------------
# verify.py call level (C06): the whole bodies of the generator and its two consumers
# ---------------------------------------------------------------------------

def _faults(o):
    ve = _src('gemato/verify.py')

    def lines(fn):
        f = find_func(ve, fn)
        body = f.body
        if body and isinstance(body[0], ast.Expr) and isinstance(body[0].value, ast.Constant):
            body = body[1:]
        return llist(lstr(x) for st in body for x in _u(st).split('\n'))
    for fn in ('get_file_metadata', 'verify_path', 'update_entry_for_path'):
        o.item(f'calls_{fn}', 'List (List Nat)', (lambda fn=fn: lines(fn)), '[]')

    def load_unreg_handlers():
        rl = _src('gemato/recursiveloader.py')
        f = find_func(rl, 'load_unregistered_manifests', 'ManifestRecursiveLoader')
        out = []
        for n in ast.walk(f):
            if isinstance(n, ast.Try):
                for h in n.handlers:
                    out.append((h.lineno, _u(h.type) + ': ' + ' '.join(_u(x) for x in h.body).replace('\n', ' ')))
        out.sort()
        return llist(lstr(t) for _l, t in out)
    o.item('calls_unregistered_handlers', 'List (List Nat)', load_unreg_handlers, '[]')


EXTRA.append(_faults)


# ---------------------------------------------------------------------------
# signing (C14)
# ---------------------------------------------------------------------------

def _sign(o):
    mf = _src('gemato/manifest.py')
    rl = _src('gemato/recursiveloader.py')
    pg = _src('gemato/openpgp.py')
    cl = _src('gemato/cli.py')

    def lines(tree, fn, cls):
        f = find_func(tree, fn, cls)
        body = f.body
        if body and isinstance(body[0], ast.Expr) and isinstance(body[0].value, ast.Constant):
            body = body[1:]
        return llist(lstr(x) for st in body for x in _u(st).split('\n'))
    o.item('sign_dump', 'List (List Nat)', lambda: lines(mf, 'dump', 'ManifestFile'), '[]')
    o.item('sign_save_manifest', 'List (List Nat)', lambda: lines(rl, 'save_manifest', 'ManifestRecursiveLoader'), '[]')
    o.item('sign_clear_sign_file', 'List (List Nat)', lambda: lines(pg, 'clear_sign_file', 'SystemGPGEnvironment'), '[]')

    def rename_block():
        f = find_func(rl, 'save_manifests', 'ManifestRecursiveLoader')
        for n in ast.walk(f):
            if isinstance(n, ast.If) and 'is_compr != want_compr' in _u(n.test):
                return llist(lstr(x) for st in n.body for x in _u(st).split('\n'))
        raise KeyError('rename block')
    o.item('sign_rename_block', 'List (List Nat)', rename_block, '[]')

    def cli_opts():
        f = find_func(cl, 'parse_args', 'BaseUpdateMixin')
        out = [x for st in f.body for x in _u(st).split('\n') if 'sign' in x or 'openpgp' in x]
        g = find_func(cl, 'add_options', 'BaseUpdateMixin')
        for n in ast.walk(g):
            if isinstance(n, ast.Call) and _u(n.func).endswith('add_argument') and n.args and \
                    ast.literal_eval(n.args[0]) in ('-s', '-S', '-k'):
                out.append(' '.join(_u(a) for a in n.args) + ' ' +
                           ' '.join(f'{k.arg}={_u(k.value)}' for k in n.keywords if k.arg != 'help'))
        return llist(lstr(x) for x in out)
    o.item('sign_cli_options', 'List (List Nat)', cli_opts, '[]')


EXTRA.append(_sign)


# ---------------------------------------------------------------------------
# utils/gen_fast_manifest.py, utils/gen_fast_metamanifest.py (C20)
# ---------------------------------------------------------------------------

def _fastgen(o):
    gm = _src('utils/gen_fast_manifest.py')
    mm = _src('utils/gen_fast_metamanifest.py')

    def body_lines(tree, fn):
        f = find_func(tree, fn)
        body = f.body
        if body and isinstance(body[0], ast.Expr) and isinstance(getattr(body[0], 'value', None), ast.Constant) \
                and isinstance(body[0].value.value, str):
            body = body[1:]
        return llist(lstr(x) for st in body for x in _u(st).split('\n'))
    for tree, fn in ((gm, 'get_manifest_entry'), (gm, 'generate_manifest_entries'), (gm, 'gen_manifest'),
                     (mm, 'manifest_dir_generator'), (mm, 'make_toplevel'), (mm, 'gen_metamanifest')):
        o.item(f'fg_src_{fn}', 'List (List Nat)', (lambda tree=tree, fn=fn: body_lines(tree, fn)), '[]')

    def tuples_in(fn):
        """the literal tuples of strings tested with `in` inside a function, in source order"""
        f = find_func(gm, fn)
        out = []
        for n in ast.walk(f):
            if isinstance(n, ast.Compare) and isinstance(n.ops[0], ast.In) and isinstance(n.comparators[0], ast.Tuple):
                out.append((n.lineno, n.col_offset, [ast.literal_eval(e) for e in n.comparators[0].elts]))
        out.sort()
        return [t for _l, _c, t in out]
    o.item('fg_subManifestNames', 'List (List Nat)', lambda: llist(lstr(x) for x in tuples_in('generate_manifest_entries')[0]), '[]')
    o.item('fg_timestampNames', 'List (List Nat)', lambda: llist(lstr(x) for x in tuples_in('generate_manifest_entries')[1]), '[]')

    def str_consts(fn, tree=gm):
        f = find_func(tree, fn)
        out = []
        for n in ast.walk(f):
            if isinstance(n, ast.Constant) and isinstance(n.value, (str, bytes)):
                v = n.value if isinstance(n.value, str) else n.value.decode('latin1')
                out.append((n.lineno, n.col_offset, v))
        out.sort()
        return [v for _l, _c, v in out]
    o.item('fg_entryFormat', 'List Nat', lambda: lstr([v for v in str_consts('get_manifest_entry') if '{}' in v][0]), '[]')

    def aux_slice():
        f = find_func(gm, 'generate_manifest_entries')
        for n in ast.walk(f):
            if isinstance(n, ast.Subscript) and isinstance(n.slice, ast.Slice) and _u(n.value) == 'ep' and n.slice.upper is None:
                return str(ast.literal_eval(n.slice.lower))
        raise KeyError('ep[k:]')
    o.item('fg_auxSliceStart', 'Nat', aux_slice, '0')

    def aux_prefix():
        f = find_func(gm, 'generate_manifest_entries')
        for n in ast.walk(f):
            if isinstance(n, ast.Call) and _u(n.func) == 'ep.startswith':
                return lstr(ast.literal_eval(n.args[0]))
        raise KeyError('ep.startswith')
    o.item('fg_auxPrefix', 'List Nat', aux_prefix, '[]')

    def carry_prefixes():
        f = find_func(gm, 'gen_manifest')
        out = []
        for n in ast.walk(f):
            if isinstance(n, ast.Call) and _u(n.func) == 'l.startswith':
                out.append((n.lineno, n.col_offset, ast.literal_eval(n.args[0]).decode('ascii')))
        out.sort()
        return llist(lstr(v) for _l, _c, v in out)
    o.item('fg_carryPrefixes', 'List (List Nat)', carry_prefixes, '[]')

    def yields(iter_n):
        """the literal directories yielded by manifest_dir_generator outside the category loop, for `iter_n == k`"""
        f = find_func(mm, 'manifest_dir_generator')
        out = []

        def visit(stmts, active):
            for st in stmts:
                if isinstance(st, ast.If):
                    t = _u(st.test)
                    if t.startswith('iter_n == '):
                        k = int(t.split('==')[1])
                        visit(st.body, active and k == iter_n)
                        # elif chain
                        visit(st.orelse, active)
                    else:
                        visit(st.body, active)
                        visit(st.orelse, active)
                elif isinstance(st, ast.Expr) and isinstance(st.value, ast.Yield) and active:
                    if isinstance(st.value.value, ast.Constant):
                        out.append(st.value.value.value)
        top = [st for st in f.body if not isinstance(st, (ast.For, ast.With))]
        visit(top, True)
        return llist(lstr(x) for x in out)
    for k in (1, 2, 3, 4):
        o.item(f'fg_batch{k}Fixed', 'List (List Nat)', (lambda k=k: yields(k)), '[]')

    def toplevel_suffixes():
        f = find_func(mm, 'make_toplevel')
        for n in ast.walk(f):
            if isinstance(n, ast.For) and isinstance(n.iter, ast.Tuple):
                return llist(lstr(ast.literal_eval(e)) for e in n.iter.elts)
        raise KeyError('suffix loop')
    o.item('fg_toplevelSuffixes', 'List (List Nat)', toplevel_suffixes, '[]')
    o.item('fg_prepopulated', 'List (List Nat)', lambda: llist(lstr(v) for v in str_consts('gen_metamanifest', mm) if 'IGNORE' in v), '[]')
    o.item('fg_splitDirs', 'List (List Nat)', lambda: llist(
        lstr(ast.literal_eval(n.args[0])) for n in sorted(
            (n for n in ast.walk(find_func(mm, 'gen_metamanifest')) if isinstance(n, ast.Call) and _u(n.func) == 'make_toplevel'),
            key=lambda n: n.lineno)), '[]')


EXTRA.append(_fastgen)


# ---------------------------------------------------------------------------
# whole-function snapshots of everything the model was read off (all properties)
# ---------------------------------------------------------------------------

# group -> [(file, class or None, function)]
SRC_GROUPS = {
    'text': [('gemato/manifest.py', 'ManifestPathEntry', 'decode_char'), ('gemato/manifest.py', 'ManifestPathEntry', 'process_path'),
             ('gemato/manifest.py', 'ManifestPathEntry', 'encode_char'), ('gemato/manifest.py', 'ManifestPathEntry', 'encoded_path'),
             ('gemato/manifest.py', 'ManifestFileEntry', 'process_checksums'), ('gemato/manifest.py', 'ManifestFileEntry', 'to_list'),
             ('gemato/manifest.py', 'ManifestEntryTIMESTAMP', 'from_list'), ('gemato/manifest.py', 'ManifestEntryTIMESTAMP', 'to_list'),
             ('gemato/manifest.py', 'ManifestEntryIGNORE', 'from_list'), ('gemato/manifest.py', 'ManifestEntryIGNORE', 'to_list'),
             ('gemato/manifest.py', 'ManifestEntryDIST', 'from_list'), ('gemato/manifest.py', 'ManifestEntryAUX', 'from_list'),
             ('gemato/manifest.py', 'ManifestEntryAUX', 'to_list'), ('gemato/manifest.py', 'ManifestEntryDATA', 'from_list'),
             ('gemato/manifest.py', None, '_text_lines'), ('gemato/manifest.py', 'ManifestFile', 'load'),
             ('gemato/manifest.py', 'ManifestFile', 'dump'), ('gemato/manifest.py', 'ManifestFile', 'find_path_entry')],
    'verify': [('gemato/verify.py', None, 'get_file_metadata'), ('gemato/verify.py', None, 'verify_path'),
               ('gemato/verify.py', None, 'update_entry_for_path'), ('gemato/verify.py', None, 'verify_entry_compatibility'),
               ('gemato/util.py', None, 'path_starts_with'), ('gemato/util.py', None, 'path_inside_dir'),
               ('gemato/util.py', None, 'throw_exception')],
    'loader': [('gemato/recursiveloader.py', 'ManifestLoader', 'verify_and_load'),
               ('gemato/recursiveloader.py', 'ManifestRecursiveLoader', '__init__'),
               ('gemato/recursiveloader.py', 'ManifestRecursiveLoader', 'load_manifest'),
               ('gemato/recursiveloader.py', 'ManifestRecursiveLoader', '_iter_unordered_manifests_for_path'),
               ('gemato/recursiveloader.py', 'ManifestRecursiveLoader', '_iter_manifests_for_path'),
               ('gemato/recursiveloader.py', 'ManifestRecursiveLoader', 'load_manifests_for_path'),
               ('gemato/recursiveloader.py', 'ManifestRecursiveLoader', 'find_timestamp'),
               ('gemato/recursiveloader.py', 'ManifestRecursiveLoader', 'find_path_entry'),
               ('gemato/recursiveloader.py', 'ManifestRecursiveLoader', 'find_dist_entry'),
               ('gemato/recursiveloader.py', 'ManifestRecursiveLoader', 'verify_path'),
               ('gemato/recursiveloader.py', 'ManifestRecursiveLoader', 'assert_path_verifies'),
               ('gemato/recursiveloader.py', 'ManifestRecursiveLoader', 'get_file_entry_dict')],
    'walk': [('gemato/recursiveloader.py', 'SubprocessVerifier', '_verify_one_file'),
             ('gemato/recursiveloader.py', 'SubprocessVerifier', '__call__'),
             ('gemato/recursiveloader.py', 'ManifestRecursiveLoader', 'assert_directory_verifies')],
    'update': [('gemato/recursiveloader.py', 'ManifestRecursiveLoader', 'save_manifest'),
               ('gemato/recursiveloader.py', 'ManifestRecursiveLoader', 'save_manifests'),
               ('gemato/recursiveloader.py', 'ManifestRecursiveLoader', 'update_entry_for_path'),
               ('gemato/recursiveloader.py', 'ManifestRecursiveLoader', 'get_deduplicated_file_entry_dict_for_update'),
               ('gemato/recursiveloader.py', 'ManifestRecursiveLoader', 'create_manifest'),
               ('gemato/recursiveloader.py', 'ManifestRecursiveLoader', 'set_timestamp'),
               ('gemato/recursiveloader.py', 'ManifestRecursiveLoader', 'load_unregistered_manifests'),
               ('gemato/recursiveloader.py', 'ManifestRecursiveLoader', 'update_entries_for_directory'),
               ],
    'codec': [('gemato/compression.py', None, 'open_potentially_compressed_path'),
              ('gemato/compression.py', None, 'get_potential_compressed_names'),
              ('gemato/compression.py', None, 'get_compressed_suffix_from_filename')],
    'findtop': [('gemato/find_top_level.py', None, 'find_top_level_manifest')],
    'hash': [('gemato/hash.py', None, 'get_hash_by_name'), ('gemato/hash.py', None, 'hash_file'),
             ('gemato/hash.py', None, 'hash_path'), ('gemato/manifest.py', None, 'manifest_hashes_to_hashlib')],
    'pgp': [('gemato/openpgp.py', 'SystemGPGEnvironment', 'verify_file'), ('gemato/openpgp.py', 'SystemGPGEnvironment', 'clear_sign_file'),
            ('gemato/openpgp.py', 'SystemGPGEnvironment', '_spawn_gpg'), ('gemato/openpgp.py', 'IsolatedGPGEnvironment', '_spawn_gpg')],
    'cli': [('gemato/cli.py', None, 'main'), ('gemato/cli.py', 'VerifyCommand', '__call__'),
            ('gemato/cli.py', 'UpdateCommand', '__call__'), ('gemato/cli.py', 'CreateCommand', '__call__'),
            ('gemato/cli.py', None, 'verify_failure')],
}


def _srcsnap(o):
    cache = {}

    def body(fl, cls, fn):
        if fl not in cache:
            cache[fl] = _src(fl)
        f = find_func(cache[fl], fn, cls)
        b = f.body
        if b and isinstance(b[0], ast.Expr) and isinstance(getattr(b[0], 'value', None), ast.Constant) \
                and isinstance(b[0].value.value, str):
            b = b[1:]
        args = ast.unparse(f.args)
        return llist([lstr('def(' + args + '):')] + [lstr(x) for st in b for x in _u(st).split('\n')])
    for grp, items in SRC_GROUPS.items():
        for fl, cls, fn in items:
            nm = f'src_{grp}_' + (cls + '_' if cls else '') + fn.strip('_')
            o.item(nm, 'List (List Nat)', (lambda fl=fl, cls=cls, fn=fn: body(fl, cls, fn)), '[]')

    # everything else of the code base (tools/enumerate_src.py -> src_items.json): the remaining functions and methods, and the
    # class- and module-level statements (attributes, patterns, tables, imports) of every module
    def attrs(fl, cls):
        if fl not in cache:
            cache[fl] = _src(fl)
        node = cache[fl]
        if cls is not None:
            node = next(n for n in cache[fl].body if isinstance(n, ast.ClassDef) and n.name == cls)
        sts = [st for st in node.body if not isinstance(st, (ast.FunctionDef, ast.ClassDef))
               and not (isinstance(st, ast.Expr) and isinstance(getattr(st, 'value', None), ast.Constant) and isinstance(st.value.value, str))]
        head = [lstr('class(' + ', '.join(ast.unparse(b) for b in node.bases) + '):')] if cls is not None else []
        return llist(head + [lstr(x) for st in sts for x in _u(st).split('\n')])
    ip = os.path.join(os.path.dirname(os.path.abspath(__file__)), 'src_items.json')
    if os.path.isfile(ip):
        for grp, fl, cls, fn in json.load(open(ip)):
            stem = os.path.basename(fl)[:-3]
            nm = f'src_{grp}_{stem}_' + (cls + '_' if cls else '') + ('attrs' if fn == '<attrs>' else fn.strip('_'))
            if fn == '<attrs>':
                o.item(nm, 'List (List Nat)', (lambda fl=fl, cls=cls: attrs(fl, cls)), '[]')
            else:
                o.item(nm, 'List (List Nat)', (lambda fl=fl, cls=cls, fn=fn: body(fl, cls, fn)), '[]')


EXTRA.append(_srcsnap)


if __name__ == '__main__':
    errs = write_extracted()
    print(open(os.path.join(LEAN, 'Gemato', 'Extracted.lean')).read())
    print('errors:', errs)
