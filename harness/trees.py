"""Trees on disk for the L1 (tree level) correspondence: build a scenario in a scratch
directory, and read the *actual* on-disk state back into the world the Lean model runs on."""
import bz2
import gzip
import hashlib
import lzma
import os
import shutil
import stat

from harness.common import cps, scratch_dir

GLEP = {'MD5': 'md5', 'SHA1': 'sha1', 'SHA256': 'sha256', 'SHA512': 'sha512', 'RMD160': 'ripemd160', 'WHIRLPOOL': 'whirlpool',
        'BLAKE2B': 'blake2b', 'BLAKE2S': 'blake2s', 'SHA3_256': 'sha3_256', 'SHA3_512': 'sha3_512'}
AVAILABLE = [k for k, v in GLEP.items() if v in hashlib.algorithms_available]
SUFFIXES = ['', '.gz', '.bz2', '.lzma', '.xz']


def compress(suffix, data):
    if suffix == '':
        return data
    if suffix == '.gz':
        import io
        b = io.BytesIO()
        with gzip.GzipFile(fileobj=b, mode='wb', filename='', mtime=0) as f:
            f.write(data)
        return b.getvalue()
    if suffix == '.bz2':
        return bz2.compress(data)
    if suffix == '.lzma':
        return lzma.compress(data, format=lzma.FORMAT_ALONE)
    if suffix == '.xz':
        return lzma.compress(data, format=lzma.FORMAT_XZ)
    raise KeyError(suffix)


def decompress_by_name(name, data):
    """what opening `name` as a potentially compressed text file yields: text or None (corrupt)"""
    ext = os.path.splitext(name)[1]
    try:
        if ext == '.gz':
            data = gzip.decompress(data)
        elif ext == '.bz2':
            data = bz2.decompress(data)
        elif ext == '.lzma':
            data = lzma.decompress(data, format=lzma.FORMAT_ALONE)
        elif ext == '.xz':
            data = lzma.decompress(data, format=lzma.FORMAT_XZ)
        return data.decode('utf8')
    except Exception:
        return None


def stream_prefix(name, data):
    """the text a line-by-line reader gets out of a corrupt file before the codec or the UTF-8 decoder fails"""
    import io
    ext = os.path.splitext(name)[1]
    raw = io.BytesIO(data)
    try:
        if ext == '.gz':
            f = gzip.GzipFile(fileobj=raw, mode='rb', filename='', mtime=0)
        elif ext == '.bz2':
            f = bz2.BZ2File(raw, mode='rb')
        elif ext == '.lzma':
            f = lzma.LZMAFile(raw, format=lzma.FORMAT_ALONE, mode='rb')
        elif ext == '.xz':
            f = lzma.LZMAFile(raw, format=lzma.FORMAT_XZ, mode='rb')
        else:
            f = raw
        t = io.TextIOWrapper(f, encoding='utf8')
    except Exception:
        return ''
    out = []
    try:
        for line in t:
            out.append(line)
    except Exception:
        pass
    return ''.join(out)


def digests_of(data, names):
    return {n: hashlib.new(GLEP[n], data).hexdigest() for n in names if n in AVAILABLE}


def enc_path(p):
    import re
    def esc(m):
        c = ord(m.group(0))
        if c <= 0x7f:
            return '\\x%02X' % c
        if c <= 0xffff:
            return '\\u%04X' % c
        return '\\U%08X' % c
    return re.sub(r'[\x00-\x1F\x7F-\x9F\s\\]', esc, p)


def entry_line(tag, path, size=None, cks=None, ts=None):
    """independent Manifest writer (not gemato's)"""
    if tag == 'TIMESTAMP':
        return 'TIMESTAMP ' + ts
    if tag == 'IGNORE':
        return 'IGNORE ' + enc_path(path)
    fields = [tag, enc_path(path), str(size)]
    for k in sorted(cks):
        fields += [k, cks[k]]
    return ' '.join(fields)


# ---------------------------------------------------------------------------
# spec -> disk
# ---------------------------------------------------------------------------
# spec node: ('f', bytes, mtime_s) | ('d', {name: node}) | ('l', target) | ('p',) fifo

def materialise(spec, path):
    kind = spec[0]
    if kind == 'd':
        os.makedirs(path, exist_ok=True)
        for nm, ch in spec[1].items():
            materialise(ch, os.path.join(path, nm))
    elif kind == 'f':
        with open(path, 'wb') as f:
            f.write(spec[1])
        if len(spec) > 2 and spec[2] is not None:
            os.utime(path, ns=(spec[2] * 10**9, spec[2] * 10**9))
    elif kind == 'l':
        os.symlink(spec[1], path)
    elif kind == 'p':
        os.mkfifo(path)
    else:
        raise KeyError(kind)


def rmtree(path):
    shutil.rmtree(path, ignore_errors=True)


# ---------------------------------------------------------------------------
# disk -> world (what the model runs on)
# ---------------------------------------------------------------------------

def is_manifest_name(nm):
    return nm.startswith('Manifest')


def world_of(root, hash_names, manifest_paths=(), max_repeat=2):
    """scan the real tree (following directory symlinks, unfolding cycles `max_repeat` times)"""
    hash_names = [n for n in hash_names if n in AVAILABLE]
    manifest_paths = set(os.path.normpath(p) for p in manifest_paths)

    def node(path, rel, seen):
        try:
            st = os.stat(path)
        except FileNotFoundError:
            return ['x']
        except OSError:
            return ['x']
        if stat.S_ISDIR(st.st_mode):
            ident = (st.st_dev, st.st_ino)
            if seen.count(ident) >= max_repeat:
                return ['d', st.st_dev, st.st_ino, []]
            kids = []
            with os.scandir(path) as it:
                names = [e.name for e in it]
            for nm in names:
                kids.append([cps(nm), node(os.path.join(path, nm), os.path.join(rel, nm) if rel else nm, seen + [ident])])
            return ['d', st.st_dev, st.st_ino, kids]
        if stat.S_ISREG(st.st_mode):
            with open(path, 'rb') as f:
                data = f.read()
            m = None
            if is_manifest_name(os.path.basename(path)) or os.path.normpath(rel) in manifest_paths:
                t = decompress_by_name(os.path.basename(path), data)
                if t is None:
                    pre = stream_prefix(os.path.basename(path), data)
                    m = ['b', cps(pre)] if pre else ['c']
                else:
                    m = ['t', cps(t)]
            return ['f', {'dev': st.st_dev, 'stsize': st.st_size, 'size': len(data), 'mtime': st.st_mtime_ns,
                          'dig': [[cps(k), cps(v)] for k, v in digests_of(data, hash_names).items()], 'm': m}]
        return ['s', st.st_dev]
    return node(root, '', [])


def hash_names_in(texts):
    """Manifest hash names used by any entry of the given Manifest texts (rough, by token)"""
    out = set()
    for t in texts:
        for tok in t.split():
            if tok in GLEP:
                out.add(tok)
    return sorted(out)
