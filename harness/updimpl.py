"""Real-implementation side for update / save, the post-state table for the model, and the Exact oracle."""
import hashlib
import os

from harness import trees, treeimpl
from harness.common import cps, uncps


def snapshot(root):
    out = {}
    for dp, dn, fn in os.walk(root):
        for f in fn:
            p = os.path.join(dp, f)
            rel = os.path.relpath(p, root)
            try:
                st = os.lstat(p)
                if os.path.islink(p):
                    out[rel] = ('link', os.readlink(p))
                elif os.path.isfile(p):
                    out[rel] = ('file', hashlib.sha1(open(p, 'rb').read()).hexdigest(), st.st_mtime_ns)
                else:
                    out[rel] = ('special',)
            except OSError:
                out[rel] = ('?',)
    return out


def make_loader(root, top, o):
    from gemato.recursiveloader import ManifestRecursiveLoader
    from gemato.profile import get_profile_by_name
    kw = {'allow_create': o.get('create', False), 'profile': get_profile_by_name(o.get('profile', 'default')),
          'allow_xdev': o.get('xdev', True)}
    for k in ('hashes', 'sort', 'compress_watermark', 'compress_format'):
        if o.get(k) is not None:
            kw[k] = o[k]
    return ManifestRecursiveLoader(os.path.join(root, top), **kw)


def run_update(root, top, path, o, do_save=True):
    """returns (outcome, effective options)"""
    eff = {}
    try:
        with treeimpl.time_limit(10):
            l = make_loader(root, top, o)
            eff = {'hashes': l.hashes, 'sort': bool(l.sort), 'watermark': l.compress_watermark, 'format': l.compress_format}
            if l.hashes is None:
                return {'err': 'no-hashes'}, eff
            kw = {}
            if o.get('last_mtime') is not None:
                kw['last_mtime'] = o['last_mtime']
            l.update_entries_for_directory(path, **kw)
            if do_save:
                l.save_manifests(**({'force': True} if o.get('force') else {}))
            return {'ok': True, 'top': l.top_level_manifest_filename}, eff
    except Exception as e:
        return treeimpl.classify(e), eff


def post_table(root, hash_names):
    out = []
    for dp, dn, fn in os.walk(root):
        for f in fn:
            if not f.startswith('Manifest'):
                continue
            p = os.path.join(dp, f)
            if not os.path.isfile(p) or os.path.islink(p):
                continue
            data = open(p, 'rb').read()
            st = os.stat(p)
            out.append([cps(os.path.relpath(p, root)),
                        {'dev': st.st_dev, 'stsize': st.st_size, 'size': len(data), 'mtime': st.st_mtime_ns,
                         'dig': [[cps(k), cps(v)] for k, v in trees.digests_of(data, hash_names).items()]}])
    return out


def read_manifest(path):
    import gemato.manifest as gm
    from gemato.compression import open_potentially_compressed_path
    m = gm.ManifestFile()
    if os.path.exists(path) and not os.path.isfile(path) and not os.path.isdir(path):
        raise OSError('not a regular file: ' + path)       # opening a FIFO would block
    with open_potentially_compressed_path(path, 'r', encoding='utf8') as f:
        m.load(f, verify_openpgp=False)
    return m


def starts_with(path, pre):
    return pre == '' or path == pre or path.startswith(pre.rstrip('/') + '/')


def exact_check(root, top, path, hashes, changed=None):
    """the statement of C03 on the on-disk state; returns a list of problems (empty = exact)"""
    problems = []
    in_use = {}
    queue = [top]
    while queue:
        mp = queue.pop(0)
        if mp in in_use:
            continue
        try:
            in_use[mp] = read_manifest(os.path.join(root, mp))
        except Exception as e:
            # an unreadable Manifest outside the updated directory is prior state the update does not own
            if starts_with(os.path.dirname(mp), path):
                problems.append(f'manifest-unreadable:{mp}:{type(e).__name__}')
            continue
        d = os.path.dirname(mp)
        for e in in_use[mp].entries:
            if e.tag == 'MANIFEST':
                queue.append(os.path.normpath(os.path.join(d, e.path)))
    file_entries = {}
    ignores = []
    for mp, m in in_use.items():
        d = os.path.dirname(mp)
        for e in m.entries:
            full = os.path.normpath(os.path.join(d, e.path)) if e.tag not in ('TIMESTAMP', 'DIST') else None
            if e.tag == 'IGNORE':
                ignores.append(full)
            elif e.tag in ('DATA', 'MISC', 'EBUILD', 'AUX', 'MANIFEST'):
                file_entries.setdefault(full, []).append((mp, e))

    def ignored(p):
        return any(starts_with(p, i) for i in ignores)
    start = os.path.join(root, path) if path else root
    tops = set(['Manifest' + s for s in trees.SUFFIXES])
    for dp, dn, fn in os.walk(start):
        rel = os.path.relpath(dp, root)
        rel = '' if rel == '.' else rel
        dn[:] = [d for d in dn if not d.startswith('.') and not ignored(os.path.join(rel, d) if rel else d)]
        for f in fn:
            p = os.path.join(rel, f) if rel else f
            if f.startswith('.') or ignored(p) or (rel == '' and f in tops):
                continue
            fp = os.path.join(root, p)
            if not os.path.isfile(fp):
                continue
            es = file_entries.get(p, [])
            if len(es) != 1:
                problems.append(f'covered-{len(es)}-times:{p}')
                continue
            mp, e = es[0]
            data = open(fp, 'rb').read()
            if e.size != len(data):
                problems.append(f'wrong-size:{p}')
            want = trees.digests_of(data, hashes if e.tag != 'MANIFEST' else list(e.checksums))
            if e.tag != 'MANIFEST' and sorted(e.checksums) != sorted(hashes):
                problems.append(f'hash-set:{p}:{sorted(e.checksums)}')
            elif any(e.checksums.get(k) != v for k, v in want.items()):
                problems.append(f'wrong-digest:{p}')
    for p, es in file_entries.items():
        if starts_with(p, path) and not os.path.exists(os.path.join(root, p)):
            problems.append(f'entry-for-missing-file:{p}')
    for mp in in_use:
        if mp == top:
            continue
        md = os.path.dirname(mp)
        # sub-directory updates own the Manifests at or below the directory, and those on the chain above it that they
        # rewrote (`changed`, when given: a chain Manifest the update had no reason to touch may carry damage from before)
        if not (starts_with(md, path) or starts_with(path, md)):
            continue
        if changed is not None and not starts_with(md, path) and mp not in changed:
            continue
        es = file_entries.get(mp, [])
        data = open(os.path.join(root, mp), 'rb').read() if os.path.isfile(os.path.join(root, mp)) else None
        for pm, e in es:
            if data is None:
                continue
            if e.size != len(data) or any(e.checksums.get(k) != v for k, v in trees.digests_of(data, list(e.checksums)).items()):
                problems.append(f'stale-manifest-entry:{mp} in {pm}')
    return problems, sorted(in_use)
