"""Signatures of the known findings (known_findings.json). A failure is
attributed to a finding only if the scenario satisfies the finding's predicate
AND the failure kind is the finding's kind."""

PREDICATES = {}


def predicate(name):
    def deco(f):
        PREDICATES[name] = f
        return f
    return deco


def matches(finding, prop, kind, scenario):
    if kind not in finding.get('kinds', []):
        return False
    pred = PREDICATES.get(finding['predicate'])
    if pred is None:
        return False
    try:
        return bool(pred(scenario))
    except Exception:
        return False


# ---------------------------------------------------------------------------
# F7: duplicates in ONE Manifest that are equal, or become equal once the kept (first) one has received the
# other's checksums: `list.remove(dup)` then removes the kept object and the stale twin survives.
# ---------------------------------------------------------------------------

def _manifest_texts(world, prefix=''):
    out = []
    if world[0] == 'd':
        for k, c in world[3]:
            nm = ''.join(chr(x) for x in k)
            p = prefix + '/' + nm if prefix else nm
            if c[0] == 'f' and c[1].get('m') and c[1]['m'][0] == 't':
                out.append((p, ''.join(chr(x) for x in c[1]['m'][1])))
            elif c[0] == 'd':
                out += _manifest_texts(c, p)
    return out


def f7_paths(world):
    """full paths hit by finding F7 in the given world"""
    import io
    import os
    import gemato.manifest as gm
    hit = set()
    for mp, text in _manifest_texts(world):
        m = gm.ManifestFile()
        try:
            m.load(io.StringIO(text), verify_openpgp=False)
        except Exception:
            continue
        seen = {}
        for e in m.entries:
            if e.tag in ('TIMESTAMP', 'DIST', 'IGNORE'):
                continue
            first = seen.get(e.path)
            if first is None:
                seen[e.path] = e
            elif first.tag == e.tag and first.size == e.size and set(first.checksums) <= set(e.checksums):
                hit.add(os.path.normpath(os.path.join(os.path.dirname(mp), e.path)))
    return hit


@predicate('f7_equal_duplicates_in_one_manifest')
def _f7(scenario):
    paths = f7_paths(scenario['request']['world'])
    probs = scenario.get('problem_paths')
    return bool(paths) and probs is not None and set(probs) <= paths


def _walk_nodes(world, prefix=''):
    if world[0] == 'd':
        for k, c in world[3]:
            nm = ''.join(chr(x) for x in k)
            p = prefix + '/' + nm if prefix else nm
            yield p, nm, c
            if c[0] == 'd':
                yield from _walk_nodes(c, p)


SUFFIXES = ('.gz', '.bz2', '.lzma', '.xz')


def _strip_suffix(nm):
    for s in SUFFIXES:
        if nm.endswith(s):
            return nm[:-len(s)]
    return nm


@predicate('f8_manifest_rename_collision')
def _f8(scenario):
    """a compression watermark is in force and some directory holds two Manifest files whose names differ
    only by a compression suffix: the (de)compression rename of one lands on the other"""
    req = scenario['request']
    if req.get('save', {}).get('watermark') is None:
        return False
    per_dir = {}
    for p, nm, c in _walk_nodes(req['world']):
        if c[0] == 'f' and nm.startswith('Manifest'):
            per_dir.setdefault(p.rsplit('/', 1)[0] if '/' in p else '', []).append(nm)
    return any(len(set(_strip_suffix(n) for n in nms)) < len(nms) for nms in per_dir.values())


@predicate('f20_special_file_named_manifest')
def _f20(scenario):
    """a FIFO (or other special file) named like a Manifest: opening it for reading blocks"""
    for p, nm, c in _walk_nodes(scenario['request']['world']):
        if c[0] == 's' and nm.startswith('Manifest'):
            return True
    return False


@predicate('f21_manifest_entry_below_ignored_dir')
def _f21(scenario):
    """some Manifest in use is referenced by a MANIFEST entry although it lies below an IGNOREd path"""
    import io
    import os
    import gemato.manifest as gm
    ignores, manifests = [], []
    for mp, text in _manifest_texts(scenario['request']['world']):
        m = gm.ManifestFile()
        try:
            m.load(io.StringIO(text), verify_openpgp=False)
        except Exception:
            continue
        d = os.path.dirname(mp)
        for e in m.entries:
            if e.tag == 'IGNORE':
                ignores.append(os.path.normpath(os.path.join(d, e.path)))
            elif e.tag == 'MANIFEST':
                manifests.append(os.path.normpath(os.path.join(d, e.path)))
    return any(mp == i or mp.startswith(i + '/') for mp in manifests for i in ignores)


MANIFEST_NAMES = ('Manifest', 'Manifest.gz', 'Manifest.bz2', 'Manifest.lzma', 'Manifest.xz')


@predicate('f27_manifest_file_covered_by_plain_entry')
def _f27(scenario):
    """a file named like a Manifest (and present in the tree) is covered by an IGNORE entry or listed by an entry
    that is not a MANIFEST entry - in some Manifest of the tree, possibly in that very file"""
    import io
    import os
    import gemato.manifest as gm
    world = scenario['request']['world']
    mfiles = set(p for p, nm, c in _walk_nodes(world) if c[0] == 'f' and nm in MANIFEST_NAMES)
    ignores, plain = [], []
    for mp, text in _manifest_texts(world):
        m = gm.ManifestFile()
        try:
            m.load(io.StringIO(text), verify_openpgp=False)
        except Exception:
            continue
        d = os.path.dirname(mp)
        for e in m.entries:
            if e.tag == 'IGNORE':
                ignores.append(os.path.normpath(os.path.join(d, e.path)))
            elif e.tag in ('DATA', 'MISC', 'EBUILD', 'AUX'):
                plain.append(os.path.normpath(os.path.join(d, e.path)))
    return any(mp in plain or any(mp == i or mp.startswith(i + '/') for i in ignores) for mp in mfiles if '/' in mp)
