"""Signatures of the known findings (known_findings.json). A failure is
attributed to a finding only if the scenario satisfies the finding's predicate
AND the failure kind is the finding's kind."""

PREDICATES = {}


def predicate(name):
    def deco(f):
        PREDICATES[name] = f
        return f
    return deco


def matches(finding, prop, kind, scenario):
    if kind not in finding.get('kinds', []):
        return False
    pred = PREDICATES.get(finding['predicate'])
    if pred is None:
        return False
    try:
        return bool(pred(scenario))
    except Exception:
        return False
