"""C17 — reported digests and sizes are those of the whole file content."""
import hashlib
import io
import json
import os
import subprocess

from harness import common
from harness.common import cps

BRIDGE = ('Gemato.Bridge.Hash', 'Gemato.Bridge.SrcHash', 'Gemato.Bridge.SrcVerify')
PROPS = ['Gemato.Props.C17']

MANIFEST_NAMES = ['MD5', 'SHA1', 'SHA256', 'SHA512', 'RMD160', 'WHIRLPOOL', 'BLAKE2B', 'BLAKE2S', 'SHA3_256', 'SHA3_512']
GLEP = {'MD5': 'md5', 'SHA1': 'sha1', 'SHA256': 'sha256', 'SHA512': 'sha512', 'RMD160': 'ripemd160', 'WHIRLPOOL': 'whirlpool',
        'BLAKE2B': 'blake2b', 'BLAKE2S': 'blake2s', 'SHA3_256': 'sha3_256', 'SHA3_512': 'sha3_512'}
COREUTILS = {'md5': 'md5sum', 'sha1': 'sha1sum', 'sha256': 'sha256sum', 'sha512': 'sha512sum', 'blake2b': 'b2sum'}


class Scheduled:
    """file-like object whose read1() returns exactly the scheduled chunks (cut to the requested size)"""
    def __init__(self, chunks):
        self.chunks = [bytes(c) for c in chunks]
        self.seen = []

    def read(self, n=-1):
        assert n in (-1, None), f'read({n})'
        data = b''.join(self.chunks)
        self.chunks = []
        return data

    def read1(self, n):
        if not self.chunks:
            return b''
        c = self.chunks[0]
        if len(c) <= n:
            self.chunks.pop(0)
            self.seen.append(len(c))
            return c
        self.chunks[0] = c[n:]
        self.seen.append(n)
        return c[:n]


class RawSchedule(io.RawIOBase):
    """raw stream delivering short reads; wrapped in a real BufferedReader"""
    def __init__(self, data, sizes):
        self.data = data
        self.pos = 0
        self.sizes = list(sizes)

    def readable(self):
        return True

    def readinto(self, b):
        k = self.sizes.pop(0) if self.sizes else len(b)
        k = max(1, min(k, len(b)))
        chunk = self.data[self.pos:self.pos + k]
        b[:len(chunk)] = chunk
        self.pos += len(chunk)
        return len(chunk)


def runs_content(rng, length):
    """content as a list of [byte, count] runs (small JSON even for MiB sizes)"""
    runs = []
    left = length
    while left > 0:
        k = left if rng.random() < 0.3 else rng.randint(1, max(1, min(left, rng.choice([1, 3, 17, 4096, 70000, left]))))
        runs.append([rng.randrange(256), k])
        left -= k
    return runs


def expand(runs):
    return b''.join(bytes([b]) * n for b, n in runs)


def split_runs(runs, cuts):
    """cut the run list at the given byte offsets -> list of chunks (each a run list)"""
    chunks = []
    cur = []
    pos = 0
    cuts = sorted(set(cuts))
    ci = 0
    for b, n in runs:
        while n > 0:
            nxt = cuts[ci] if ci < len(cuts) else None
            if nxt is not None and nxt <= pos:
                ci += 1
                continue
            take = n if nxt is None else min(n, nxt - pos)
            cur.append([b, take])
            pos += take
            n -= take
            if nxt is not None and pos == nxt:
                chunks.append(cur)
                cur = []
                ci += 1
    if cur:
        chunks.append(cur)
    return chunks


def rle(data):
    out = []
    for b in data:
        if out and out[-1][0] == b:
            out[-1][1] += 1
        else:
            out.append([b, 1])
    return out


def merge_runs(runs):
    out = []
    for b, n in runs:
        if out and out[-1][0] == b:
            out[-1][1] += n
        else:
            out.append([b, n])
    return out


def case(ctx, drv, runs, cuts, hint, names, label, H):
    import gemato.hash as gh
    from gemato.exceptions import UnsupportedHash
    content = expand(runs)
    chunks = split_runs(runs, cuts)
    f = Scheduled([expand(c) for c in chunks])
    scen = {'op': 'hash_schedule', 'hint': hint, 'slurp_max': H['slurp'], 'chunks': chunks, 'names': names}
    ctx.count('stream:' + label)
    ctx.count('branch:' + ('slurp' if hint != 0 and hint < H['slurp'] else 'chunked'))
    try:
        got = gh.hash_file(f, names + ['__size__'], _apparent_size=hint)
    except Exception as e:
        ctx.fail('hash_file-raised', scen, type(e).__name__)
        return
    ctx.case(scen, len(content) > 0, {'len': len(content), 'n_chunks': len(chunks), 'hint': hint, 'names': names[:3]})
    bad = [n for n in names if got[n] != hashlib.new(n, content).hexdigest()]
    if bad or got['__size__'] != len(content):
        ctx.fail('digest-or-size-not-of-whole-content', scen, f'{bad} size={got["__size__"]} len={len(content)}')
    rep = drv.ask(scen)
    fed = expand(rep['fed'])
    # correspondence: the bytes the model feeds are the bytes the implementation hashed
    if rep['size'] != got['__size__'] or any(hashlib.new(n, fed).hexdigest() != got[n] for n in names[:2]):
        ctx.disagree('hash_schedule', scen, {'size': got['__size__']}, {'size': rep['size']})


def buffered_case(ctx, content, sizes, hint, names, label):
    import gemato.hash as gh
    f = io.BufferedReader(RawSchedule(content, sizes), buffer_size=ctx.rng.choice([1, 16, 8192, 65536, 1 << 20]))
    scen = {'op': 'buffered', 'len': len(content), 'sizes': sizes[:20], 'hint': hint, 'names': names,
            'content': list(content[:64])}
    ctx.count('stream:' + label)
    got = gh.hash_file(f, names + ['__size__'], _apparent_size=hint)
    ctx.case(scen, len(content) > 0)
    bad = [n for n in names if got[n] != hashlib.new(n, content).hexdigest()]
    if bad or got['__size__'] != len(content):
        ctx.fail('digest-or-size-not-of-whole-content', scen, f'{bad} size={got["__size__"]} len={len(content)}')


def names_table(ctx, drv, tmp):
    """all ten Manifest names through get_file_metadata / hash_path; unknown and unavailable names"""
    import gemato.hash as gh
    import gemato.verify as gv
    from gemato.exceptions import UnsupportedHash, GematoException
    content = b'The quick brown fox jumps over the lazy dog\n' * 7
    p = os.path.join(tmp, 'f')
    open(p, 'wb').write(content)
    avail = sorted(hashlib.algorithms_available)
    ok = True
    for names in [[n] for n in MANIFEST_NAMES] + [MANIFEST_NAMES, ['FOO'], ['MD5', 'FOO'], ['md5'], ['SHA-1'], [''], ['__size__']]:
        scen = {'op': 'names', 'names': names}
        model = drv.ask({'op': 'resolve_names', 'names': [cps(n) for n in names], 'available': [cps(a) for a in avail]})['model']
        try:
            g = gv.get_file_metadata(p, names)
            vals = list(g)
            impl = {'ok': vals[-1]}
        except UnsupportedHash:
            impl = {'unsupported': True}
        except Exception as e:
            impl = {'exc': type(e).__name__}
        ctx.case(scen, True, {'names': names, 'impl': 'ok' if 'ok' in impl else impl})
        supported = all(n in GLEP and GLEP[n] in hashlib.algorithms_available for n in names)
        if 'exc' in impl:
            ctx.fail('unsupported-name-not-reported-as-such', scen, impl['exc'])
            ok = False
        elif supported:
            if 'ok' not in impl or any(impl['ok'][n] != hashlib.new(GLEP[n], content).hexdigest() for n in names) \
                    or impl['ok'].get('__size__') != len(content):
                ctx.fail('name-denotes-another-algorithm', scen, str(impl)[:200])
                ok = False
        elif 'ok' in impl:
            ctx.fail('unsupported-name-ignored', scen, '')
            ok = False
        if ('ok' in model) != ('ok' in impl):
            ctx.disagree('resolve_names', scen, impl if 'ok' not in impl else 'ok', model)
    # hash_path / every hashlib name with a fixed-length digest
    for a in avail:
        if a.startswith('shake_'):
            ctx.count('skipped:xof(' + a + ')')
            continue
        scen = {'op': 'hashlib-name', 'name': a}
        try:
            got = gh.hash_path(p, [a, '__size__'])
        except Exception as e:
            ctx.fail('hash_path-raised', scen, type(e).__name__)
            continue
        ctx.case(scen, True)
        if got[a] != hashlib.new(a, content).hexdigest() or got['__size__'] != len(content):
            ctx.fail('digest-or-size-not-of-whole-content', scen, '')
        if a in COREUTILS:
            out = subprocess.run([COREUTILS[a], p], capture_output=True, text=True).stdout.split()[0]
            if out != got[a]:
                ctx.fail('differs-from-coreutils', scen, out)
    try:
        gh.hash_path(p, ['no-such-hash'])
        ctx.fail('unsupported-name-ignored', {'op': 'hashlib-name', 'name': 'no-such-hash'}, '')
    except UnsupportedHash:
        pass
    except Exception as e:
        ctx.fail('unsupported-name-not-reported-as-such', {'op': 'hashlib-name', 'name': 'no-such-hash'}, type(e).__name__)
    ctx.tables['hash names: 10 Manifest names, unknown names, every fixed-length hashlib name (vs hashlib one-shot, coreutils)'] = {
        'size': len(avail) + 17, 'exhaustive': True, 'ok': ok}
    os.unlink(p)


def file_cases(ctx, tmp):
    """real files through get_file_metadata (the path verification and update use)"""
    import gemato.verify as gv
    for ln in [0, 1, 300, 65535, 65536, 65537, 1048575, 1048576, 1048577]:
        content = bytes(ctx.rng.randrange(256) for _ in range(min(ln, 4096))) * (ln // 4096 + 1)
        content = content[:ln]
        p = os.path.join(tmp, 'g')
        open(p, 'wb').write(content)
        vals = list(gv.get_file_metadata(p, ['SHA1', 'BLAKE2B']))
        d = vals[-1]
        scen = {'op': 'file', 'len': ln}
        ctx.case(scen, ln > 0)
        if d['__size__'] != ln or d['SHA1'] != hashlib.sha1(content).hexdigest() or d['BLAKE2B'] != hashlib.blake2b(content).hexdigest():
            ctx.fail('digest-or-size-not-of-whole-content', scen, '')
        # the size hint (`st_size`) may be wrong - the file grew or shrank after fstat(), or the file system lies -: whatever
        # the hash set, the empty one included (a size-only entry), the size reported is the number of bytes read
        import types
        for hint in sorted({0, 1, max(ln - 1, 0), ln, ln + 1, 2 * ln + 3, 70000, 2000000}):
            for names in ([], ['SHA1'], ['MD5', 'SHA512']):
                real_os = gv.os

                class FOS(types.ModuleType):
                    def __init__(self):
                        super().__init__('os')
                        self.__dict__.update(real_os.__dict__)
                        self.__dict__['fstat'] = self._fstat

                    def _fstat(self, fd, hint=hint):
                        st = real_os.fstat(fd)
                        vals = {k: getattr(st, k) for k in dir(st) if k.startswith('st_')}
                        vals['st_size'] = hint
                        return types.SimpleNamespace(**vals)
                gv.os = FOS()
                try:
                    d2 = list(gv.get_file_metadata(p, names))[-1]
                except Exception as e:
                    d2 = {'exc': type(e).__name__}
                finally:
                    gv.os = real_os
                scen2 = {'op': 'file-with-size-hint', 'len': ln, 'hint': hint, 'names': names}
                ctx.case(scen2, True)
                if d2.get('__size__') != ln or any(d2.get(nm) != hashlib.new({'SHA1': 'sha1', 'MD5': 'md5', 'SHA512': 'sha512'}[nm], content).hexdigest() for nm in names):
                    ctx.fail('digest-or-size-not-of-whole-content', scen2, str({k: (v if k == '__size__' else '...') for k, v in d2.items()}))
        os.unlink(p)


def run(ctx):
    import gemato.hash as gh
    ctx.rule = ('contents of every length 0..300, around 64 KiB and 1 MiB (+-2), random longer ones; read schedules with arbitrary '
                'short chunks (duck-typed schedule with exact chunk control, and a real BufferedReader over a short-reading raw stream, '
                'and real files); every size hint (0, true, smaller, larger; stale hints at multiples of the read size above the slurp limit '
                'with reads landing exactly on them); all hash names. Oracle: one-shot hashlib, coreutils. '
                'Correspondence: the bytes the Lean model feeds (identity hash) hash to the digests the implementation returned. '
                'non-trivial = distinct non-empty content/schedule/hint')
    ctx.assumptions = ["hashlib's md5 is MD5 etc.: checked against coreutils only", 'streaming law of hashlib objects is a hypothesis of C17_any_schedule',
                       'XOFs (shake_*) have no fixed digest and are outside the property']
    H = {'slurp': gh.MAX_SLURP_SIZE, 'buf': gh.HASH_BUFFER_SIZE}
    tmp = common.scratch_dir()
    drv = common.Driver()
    try:
        names_table(ctx, drv, tmp)
        file_cases(ctx, tmp)
        rng = ctx.rng
        fixed_names = [n for n in ['md5', 'sha1', 'sha512', 'blake2b', 'sha3_256'] if n in hashlib.algorithms_available]
        lengths = list(range(0, 301)) + [H['buf'] + d for d in (-2, -1, 0, 1, 2)] + [H['slurp'] + d for d in (-2, -1, 0, 1, 2)]
        if ctx.tier == 'thorough':
            lengths += [2 * H['buf'] + d for d in (-1, 0, 1)] + [rng.randint(H['slurp'], 3 * H['slurp']) for _ in range(6)]
        else:
            lengths += [rng.randint(H['slurp'], 2 * H['slurp'])]
        reps = 2 if ctx.tier == 'quick' else 12
        for ln in lengths:
            for r in range(reps if ln <= 300 else max(2, reps // 2)):
                runs = runs_content(rng, ln)
                ncut = rng.choice([0, 1, 2, 5, 20]) if ln else 0
                cuts = [rng.randint(1, ln) for _ in range(ncut)] if ln else []
                if ln > H['buf'] and rng.random() < 0.5:
                    cuts += list(range(H['buf'], ln, H['buf']))
                hint = rng.choice([0, ln, max(0, ln - 1), ln + 1, 1, ln // 2, 2 * ln + 7, H['slurp'] - 1, H['slurp'], H['slurp'] + 1])
                names = [rng.choice(fixed_names)] if ln > 300 else rng.sample(fixed_names, 2)
                case(ctx, drv, runs, cuts, hint, names, 'scheduled', H)
        # a stale size hint on the chunked path (the file grew between fstat() and the reads): hints that are whole multiples of
        # the read size at or above the slurp limit, contents longer than the hint, reads landing exactly on the hint
        q = ctx.tier == 'quick'
        for hint in ((H['slurp'], H['slurp'] + H['buf']) if q else (H['slurp'], H['slurp'] + H['buf'], H['slurp'] + 3 * H['buf'])):
            for extra in ((1, H['buf']) if q else (1, 5, H['buf'], H['buf'] + 1, hint)):
                ln = hint + extra
                runs = runs_content(rng, ln)
                for cuts in ([], list(range(H['buf'], ln, H['buf'])), [hint]):
                    case(ctx, drv, runs, cuts, hint, [rng.choice(fixed_names)], 'stale-hint', H)
        for i in range(400 if ctx.tier == 'quick' else 3000):
            ln = rng.choice([0, 1, 7, 300, 5000, H['buf'], H['buf'] + 1, 200000])
            content = bytes(rng.randrange(256) for _ in range(min(ln, 2048))) * (ln // 2048 + 1)
            content = content[:ln]
            sizes = [rng.choice([1, 2, 7, 100, 4096, 70000]) for _ in range(rng.randint(0, 30))]
            hint = rng.choice([0, ln, max(0, ln - 1), ln + 1, 1, ln // 2])
            buffered_case(ctx, content, sizes, hint, [rng.choice(fixed_names)], 'buffered-reader')
    finally:
        drv.close()
        try:
            os.rmdir(tmp)
        except OSError:
            pass


def replay(ctx, path):
    import gemato.hash as gh
    sc = json.load(open(path))['scenario']
    H = {'slurp': gh.MAX_SLURP_SIZE, 'buf': gh.HASH_BUFFER_SIZE}
    drv = common.Driver()
    tmp = common.scratch_dir()
    try:
        if sc['op'] == 'hash_schedule':
            runs = merge_runs([r for c in sc['chunks'] for r in c])
            cuts = []
            pos = 0
            for c in sc['chunks'][:-1]:
                pos += sum(n for _b, n in c)
                cuts.append(pos)
            case(ctx, drv, runs, cuts, sc['hint'], sc['names'], 'replay', H)
        elif sc['op'] == 'buffered':
            print('buffered scenario: rerun the check with the same seed')
        else:
            names_table(ctx, drv, tmp)
    finally:
        drv.close()
        os.rmdir(tmp)
    for f in ctx.failures:
        print(f['kind'], f['detail'][:300])
    if ctx.failures:
        print(f'VIOLATION property={ctx.prop} replay={path}')
        return 1
    return 0
