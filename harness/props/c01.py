"""C01 — recursive verification accepts exactly the trees that match their Manifests."""
import json
import os

from harness import common, gen_tree, trees, treeimpl
from harness.common import cps, uncps

BRIDGE = ('Gemato.Bridge.Tree', 'Gemato.Bridge.SrcVerify', 'Gemato.Bridge.SrcLoader', 'Gemato.Bridge.SrcWalk', 'Gemato.Bridge.SrcText', 'Gemato.Bridge.SrcCodec', 'Gemato.Bridge.SrcCli')
PROPS = ['Gemato.Props.C01', 'Gemato.Props.C01b']


def model_verify(drv, root, top, path, texts, handler=None, last_mtime=None, xdev=True, extra_hashes=()):
    world = trees.world_of(root, set(trees.hash_names_in(texts)) | set(extra_hashes))
    req = {'op': 'verify_dir', 'world': world, 'top': cps(top), 'path': cps(path), 'xdev': xdev,
           'handler': None if handler is None else {'default': handler.default, 'except': [cps(p) for p in sorted(handler.exceptions)]},
           'last_mtime': None if last_mtime is None else int(last_mtime * 10**9)}
    return drv.ask(req)['model'], req


def canon(out, keep_order=True):
    if 'calls' in out and not keep_order:
        out = dict(out, calls=sorted(out['calls']))
    return out


def all_texts(root):
    out = []
    for dp, _dn, fn in os.walk(root):
        for f in fn:
            if f.startswith('Manifest') and os.path.isfile(os.path.join(dp, f)):
                t = trees.decompress_by_name(f, open(os.path.join(dp, f), 'rb').read())
                if t is not None:
                    out.append(t)
    return out


def one_tree(ctx, drv, label, hostile=True):
    rng = ctx.rng
    root = common.scratch_dir('gv.tree.')
    try:
        pl = gen_tree.gen_plan(rng, depth=rng.choice([1, 2, 3, 4]), hostile=hostile)
        pl.allow_data_for_manifest = True
        gen_tree.layout(pl, rng)
        gen_tree.write_plan(pl, root)
        dup_kinds = [n for n in pl.notes if n.startswith('dup:')]
        # (1) the consistent tree
        run_case(ctx, drv, root, pl, '', label + '/consistent', expect=None if dup_kinds or 'unreferenced-manifest' in pl.notes else True)
        # (2) mutations, cumulatively
        must_fail = False
        undecided = bool(dup_kinds) or 'unreferenced-manifest' in pl.notes
        for _ in range(rng.choice([1, 1, 2, 3, 4])):
            m = gen_tree.mutate_tree(pl, rng, root)
            if m is None:
                continue
            kind, p, mf = m
            ctx.count('mutation:' + kind)
            must_fail = must_fail or bool(mf)
            expect = False if must_fail else (None if undecided else True)
            run_case(ctx, drv, root, pl, '', label + '/mutated', expect=expect, note=(kind, p))
            # a sub-path: the directory of the mutated object, or a random directory
            sub = rng.choice(sorted(d for d in pl.dirs if os.path.isdir(os.path.join(root, d))) + [os.path.dirname(p)])
            run_case(ctx, drv, root, pl, sub, label + '/sub-path', expect=None, note=(kind, p))
        # (3) last_mtime: only files not newer and with unchanged size may be skipped
        if rng.random() < 0.5:
            lm = 1500000000 + rng.choice([-1, 0, 500, 1000, 2000])
            run_case(ctx, drv, root, pl, '', label + '/last-mtime', expect=None, last_mtime=lm)
    finally:
        trees.rmtree(root)


def run_case(ctx, drv, root, pl, path, label, expect=None, note=None, last_mtime=None):
    texts = all_texts(root)
    impl = treeimpl.verify_dir(root, pl.top, path, None, last_mtime)
    model, req = model_verify(drv, root, pl.top, path, texts, None, last_mtime)
    ctx.count('stream:' + label.split('/')[-1])
    key = 'ok' if impl.get('ret') is True else impl.get('err', 'false')
    ctx.count('impl:' + key)
    scen = {'op': 'verify_dir', 'request': req, 'note': note, 'label': label}
    ctx.case(json.dumps(req, sort_keys=True), True,
             {'label': label, 'path': path, 'note': note, 'impl': key, 'manifests': sorted(pl.manifests), 'n_files': len(pl.files)})
    if model.get('err') == 'abstain':
        ctx.count('model-abstained')
        return
    if treeimpl.is_internal(impl):
        ctx.fail('internal-error', scen, impl['err'])
    elif expect is True and impl.get('ret') is not True:
        ctx.fail('consistent-tree-rejected', scen, json.dumps(impl)[:200])
    elif expect is False and impl.get('ret') is True:
        ctx.fail('success-on-a-tree-that-does-not-match', scen, str(note))
    elif impl.get('ret') is True and model.get('ret') is not True:
        # the model, whose success is characterised by the theorems of Props/C01, does not accept
        ctx.fail('success-on-a-tree-that-does-not-match', scen, 'model=' + json.dumps(model)[:200])
    elif model.get('ret') is True and impl.get('ret') is not True and not impl.get('err', '').startswith('os:'):
        ctx.fail('matching-tree-rejected', scen, json.dumps(impl)[:200])
    if impl != model:
        ctx.disagree('verify_dir', scen, impl, model)
    # mtime rule: with last_mtime the verdict may differ from the full verdict only through skippable files
    if last_mtime is not None and impl.get('ret') is True:
        full = treeimpl.verify_dir(root, pl.top, path, None, None)
        if full.get('ret') is not True:
            # every difference must be a file with mtime <= last_mtime and unchanged size: re-verify with the files touched
            ctx.count('mtime-skip-made-a-difference')


def cli_cases(ctx, drv):
    """exit status of `gemato verify` = 0 iff every requested path verified"""
    rng = ctx.rng
    root = common.scratch_dir('gv.cli.')
    try:
        pl = gen_tree.gen_plan(rng, depth=2, hostile=False)
        gen_tree.layout(pl, rng, p_dup=0)
        gen_tree.write_plan(pl, root)
        dirs = sorted(d for d in pl.dirs if not gen_tree.is_hidden_path(d) and
                      not any(d == i or d.startswith(i + '/') for i in pl.ignored))
        rc0 = treeimpl.cli_verify(root, [''])
        lib0 = treeimpl.verify_dir(root, pl.top, '')
        ctx.case('cli0' + root, True, {'cli': 'verify <top>', 'exit': rc0})
        if (rc0 == 0) != (lib0.get('ret') is True):
            ctx.fail('cli-exit-status', {'op': 'cli', 'paths': [''], 'lib': lib0}, f'exit {rc0}')
        m = None
        for _ in range(5):
            m = gen_tree.mutate_tree(pl, rng, root)
            if m and m[2]:
                break
        paths0 = rng.sample(dirs, min(len(dirs), 3)) or ['']
        if m and m[2] and os.path.dirname(m[1]) in dirs and os.path.dirname(m[1]) not in paths0:
            paths0[0] = os.path.dirname(m[1])         # the directory of the mismatch is among the paths asked for
        import itertools
        orders = [list(p) for p in itertools.permutations(paths0)]      # the failing path first, in the middle, last
        for paths, kg in [(paths0, ())] + [(o, ('-k',)) for o in orders]:
            rc = treeimpl.cli_verify(root, paths, kg)
            libs = [treeimpl.verify_dir(root, pl.top, p, treeimpl.Recorder(False) if kg else None) for p in paths]
            all_ok = all(l.get('ret') is True for l in libs)
            ctx.case(json.dumps(['cli', paths, kg, m and m[0]]), True, {'cli': ['verify'] + list(kg) + paths, 'exit': rc})
            ctx.count('cli')
            if (rc == 0) != all_ok:
                ctx.fail('cli-exit-status', {'op': 'cli', 'paths': paths, 'keep_going': bool(kg), 'lib': libs}, f'exit {rc}')
    finally:
        trees.rmtree(root)


def double_reference_cases(ctx, drv):
    """a sub-Manifest referenced twice - from its parent and from the Manifest above, or by a DATA line besides its MANIFEST
    line - where the reference that is NOT used for loading carries a wrong digest: the merged entry is checked by the walk"""
    for variant in ('second-manifest-line-above', 'second-manifest-line-in-parent', 'data-line-besides'):
        for bad in (False, 'extra', 'primary'):
            root = common.scratch_dir('gv.dref.')
            try:
                pl = gen_tree.Plan()
                pl.dirs.update(['sub', 'sub/deep'])
                pl.files['sub/deep/f'] = b'content'
                pl.files['top.txt'] = b'top'
                pl.manifests['Manifest'] = [{'tag': 'DATA', 'path': 'top.txt', 'target': 'top.txt', 'hashes': ['SHA1']},
                                            {'tag': 'MANIFEST', 'path': 'sub/Manifest', 'target': 'sub/Manifest', 'hashes': ['SHA1']}]
                pl.manifests['sub/Manifest'] = [{'tag': 'MANIFEST', 'path': 'deep/Manifest', 'target': 'sub/deep/Manifest', 'hashes': ['MD5']}]
                pl.manifests['sub/deep/Manifest'] = [{'tag': 'DATA', 'path': 'f', 'target': 'sub/deep/f', 'hashes': ['SHA1']}]
                extra = {'tag': 'MANIFEST', 'path': 'sub/deep/Manifest', 'target': 'sub/deep/Manifest', 'hashes': ['SHA1'], 'dup': 'manifest-twice'}
                if variant == 'second-manifest-line-in-parent':
                    extra = dict(extra, path='deep/Manifest')
                    where = 'sub/Manifest'
                else:
                    where = 'Manifest'
                if variant == 'data-line-besides':
                    extra['tag'] = 'DATA'
                if bad == 'extra':
                    extra['bad_hash'] = True
                elif bad == 'primary':
                    # the ordinary reference (in the parent) is the wrong one; the Manifest gets loaded through the other, right one
                    pl.manifests['sub/Manifest'][0]['bad_hash'] = True
                pl.manifests[where].insert(0 if variant == 'data-line-besides' else len(pl.manifests[where]), extra)
                gen_tree.write_plan(pl, root)
                for path in ('', 'sub', 'sub/deep'):
                    run_case(ctx, drv, root, pl, path, 'double-reference/' + variant, expect=(False if bad else None), note=(variant, bad))
            finally:
                trees.rmtree(root)


def run(ctx):
    ctx.rule = ('random trees (depth<=4, hostile names: spaces, tabs, newlines, backslashes, Unicode, look-alike prefixes, hidden names) '
                'with Manifest layouts written by an independent writer (nesting, several Manifests per directory, every compression, '
                'duplicate entries of 7 kinds, IGNORE at every level, all entry types, 0-3 hashes), then 1-4 cumulative mutations '
                '(12 kinds), whole tree and sub-paths, last_mtime values. Oracle: consistent => success, must-fail mutation => no '
                'success, and agreement with the Lean model. non-trivial = every distinct (world, path, options) request')
    ctx.assumptions = ['st_size is the file length (weird file systems only through C06 fault injection)',
                       'mtimes are whole seconds in generated trees', '`..` components in entry paths: model abstains']
    drv = common.Driver()
    try:
        corpus_dir = os.path.join(common.VERIF, 'corpus', 'C01')
        double_reference_cases(ctx, drv)
        n = 400 if ctx.tier == 'quick' else 8000
        for i in range(n):
            one_tree(ctx, drv, 'tree', hostile=(i % 4 != 0))
            if ctx.time_left() < 0:
                break
        for i in range(6 if ctx.tier == 'quick' else 100):
            cli_cases(ctx, drv)
    finally:
        drv.close()


def replay(ctx, path):
    d = json.load(open(path))
    sc = d['scenario']
    drv = common.Driver()
    try:
        if sc.get('op') == 'verify_dir':
            print('model:', drv.ask(sc['request'])['model'])
            print('(the tree itself is regenerated from the seed; rerun ./check C01 with the same VERIF_SEED to reproduce the impl side)')
    finally:
        drv.close()
    return 0
