"""C16 — tree walks always terminate and respect file-system boundaries."""
import json
import logging
import os

from harness import common, trees, treeimpl
from harness.common import cps, uncps
from harness import updimpl
from harness.props.c15 import FakeOS

BRIDGE = ('Gemato.Bridge.Tree', 'Gemato.Bridge.SrcWalk', 'Gemato.Bridge.SrcUpdate', 'Gemato.Bridge.SrcVerify', 'Gemato.Bridge.SrcLoader', 'Gemato.Bridge.SrcCli')
PROPS = ['Gemato.Props.C16']


def build(rng, root, n_dirs, consistent):
    """a tree of up to n_dirs directories with files, a set of directory symlinks, a top Manifest"""
    dirs = ['']
    names = ['a', 'b', 'c', 'dd', 'e', 'a b']
    for i in range(n_dirs - 1):
        parent = rng.choice(dirs)
        nm = names[i]
        d = os.path.join(parent, nm) if parent else nm
        dirs.append(d)
        os.makedirs(os.path.join(root, d))
    files = []
    for d in dirs:
        for k in range(rng.randint(0, 2)):
            p = os.path.join(d, 'f%d' % k) if d else 'f%d' % k
            open(os.path.join(root, p), 'wb').write(b'data' + bytes([k]))
            files.append(p)
    links = []
    kinds = ['self', 'parent', 'ancestor', 'sibling', 'mutual', 'chain', 'none', 'none']
    for _ in range(rng.randint(0, 3)):
        k = rng.choice(kinds)
        src = rng.choice(dirs)
        nm = 'ln%d' % len(links)
        lp = os.path.join(src, nm) if src else nm
        if k == 'none':
            continue
        if k == 'self':
            tgt = '.'
        elif k == 'parent':
            tgt = '..' if src else '.'
        elif k == 'ancestor':
            tgt = os.path.relpath(root, os.path.join(root, src)) if src else '.'
        elif k == 'sibling':
            cand = [d for d in dirs if d and not (src == d or src.startswith(d + '/')) and not d.startswith(src + '/' if src else '\0')]
            cand = [d for d in dirs if d != src and not (src.startswith(d + '/') or d == '')]
            if not cand:
                continue
            tgt = os.path.relpath(os.path.join(root, rng.choice(cand)), os.path.join(root, src))
        elif k == 'mutual':
            other = rng.choice(dirs)
            tgt = os.path.relpath(os.path.join(root, other), os.path.join(root, src))
            back = os.path.join(other, 'back%d' % len(links)) if other else 'back%d' % len(links)
            if not os.path.lexists(os.path.join(root, back)):
                os.symlink(os.path.relpath(os.path.join(root, src), os.path.join(root, other)), os.path.join(root, back))
                links.append(back)
        else:
            other = rng.choice(dirs)
            tgt = os.path.relpath(os.path.join(root, other), os.path.join(root, src))
        os.symlink(tgt, os.path.join(root, lp))
        links.append(lp)
    lines = []
    ignored = []
    for l in links:
        r = rng.random()
        if r < 0.2:
            ignored.append(l)
        elif r < 0.3 and os.path.dirname(l):
            ignored.append(os.path.dirname(l))
    for i in sorted(set(ignored)):
        lines.append(trees.entry_line('IGNORE', i))
    if consistent:
        for p in files:
            if not any(p == i or p.startswith(i + '/') for i in ignored):
                data = open(os.path.join(root, p), 'rb').read()
                lines.append(trees.entry_line('DATA', p, len(data), trees.digests_of(data, ['SHA1'])))
    open(os.path.join(root, 'Manifest'), 'w').write(''.join(l + '\n' for l in lines))
    return dirs, links, sorted(set(ignored))


def oracle(root, start, ignored, dev_of=None, want_dev=None):
    """independent statement of the property: walk from `start`, following directory symlinks, skipping hidden names and
    IGNOREd paths; a directory whose (device, inode) equals one of its ancestors' on the way is a loop; anything on
    another device is a boundary crossing. Returns the set of structural problems found ('loop', 'xdev')."""
    found = set()
    ign = set(ignored)

    def rec(path, rel, anc, depth):
        st = os.stat(path)
        ident = (st.st_dev, st.st_ino)
        if ident in anc:
            found.add('loop')
            return
        if depth > 40:
            found.add('runaway')
            return
        if dev_of is not None and dev_of(os.path.realpath(path)) != want_dev:
            found.add('xdev')
            return
        for nm in sorted(os.listdir(path)):
            if nm.startswith('.'):
                continue
            r = os.path.join(rel, nm) if rel else nm
            if r in ign:
                continue
            p = os.path.join(path, nm)
            if os.path.isdir(p):
                rec(p, r, anc + [ident], depth + 1)
            elif dev_of is not None and os.path.exists(p) and dev_of(os.path.realpath(p)) != want_dev and r != 'Manifest':
                found.add('xdev')
    rec(os.path.join(root, start) if start else root, start, [], 0)
    return found


def run_impl(root, op, path, handler, xdev=True, fos=None, last_mtime=None, create=False):
    import gemato.recursiveloader as rl
    import gemato.verify as gv
    from gemato.recursiveloader import ManifestRecursiveLoader
    saved = (rl.os, gv.os)
    if fos is not None:
        rl.os = fos
        gv.os = fos
    try:
        with treeimpl.time_limit(20):
            l = ManifestRecursiveLoader(os.path.join(root, 'Manifest'), hashes=['SHA1'], allow_xdev=xdev,
                                        **({'allow_create': True} if create else {}))
            if op == 'verify':
                kw = {} if handler is None else {'fail_handler': handler}
                if last_mtime is not None:
                    kw['last_mtime'] = last_mtime
                r = l.assert_directory_verifies(path, **kw)
                return {'ret': bool(r)}
            if op == 'scan':
                l.load_unregistered_manifests(path)
                return {'ret': True}
            if op == 'update':
                l.update_entries_for_directory(path, **({} if last_mtime is None else {'last_mtime': last_mtime}))
                return {'ret': True}
    except Exception as e:
        return treeimpl.classify(e)
    finally:
        rl.os, gv.os = saved


def one(ctx, drv):
    rng = ctx.rng
    root = common.scratch_dir('gv.c16.')
    try:
        consistent = rng.random() < 0.4
        dirs, links, ignored = build(rng, root, rng.randint(1, 6), consistent)
        starts = [''] + ([rng.choice(dirs)] if len(dirs) > 1 else [])
        for start in starts:
            if any(start == i or start.startswith(i + '/') for i in ignored):
                continue
            probs = oracle(root, start, ignored)
            for op in ('verify', 'verify-default-handler', 'scan', 'update'):
                h = None if op != 'verify' else treeimpl.Recorder(default=True)
                impl = run_impl(root, op.split('-')[0], start, h)
                scen = {'op': op, 'start': start, 'links': {l: os.readlink(os.path.join(root, l)) for l in links},
                        'ignored': ignored, 'dirs': dirs, 'consistent': consistent}
                ctx.count('op:' + op)
                ctx.count('oracle:' + ('loop' if 'loop' in probs else 'no-loop'))
                ctx.case(scen, bool(links), dict(scen, impl=impl))
                if impl.get('err') == 'internal:HANG' or 'runaway' in probs:
                    ctx.fail('walk-does-not-terminate', scen, str(impl))
                elif treeimpl.is_internal(impl):
                    ctx.fail('internal-error', scen, impl['err'])
                elif 'loop' in probs:
                    ok_classes = ('symlinkloop',)
                    # with the default handler an unrelated mismatch may come first, unless every link leads straight
                    # back to an ancestor of its own location (then no extra path exists before the loop is met)
                    pure = consistent and start == '' and all(
                        (os.path.dirname(l) + '/').startswith(os.path.relpath(os.path.realpath(os.path.join(root, l)), os.path.realpath(root)).replace('.', '', 1).lstrip('/') + '/')
                        or os.path.realpath(os.path.join(root, l)) == os.path.realpath(root) for l in links)
                    if op == 'verify-default-handler' and not pure:
                        ok_classes = ('symlinkloop', 'mismatch')
                    if op == 'update':
                        ok_classes = ('symlinkloop', 'invalidpath')
                    if impl.get('err') not in ok_classes:
                        ctx.fail('loop-not-reported', scen, json.dumps(impl)[:200])
                elif impl.get('err') == 'symlinkloop':
                    ctx.fail('loop-reported-for-a-link-to-a-non-ancestor', scen, '')
                # model (tree-level, cycles unfolded from the real disk) for verification
                if op == 'verify':
                    world = trees.world_of(root, ['SHA1'])
                    req = {'op': 'verify_dir', 'world': world, 'top': cps('Manifest'), 'path': cps(start), 'xdev': True,
                           'handler': {'default': True, 'except': []}, 'last_mtime': None}
                    model = drv.ask(req)['model']
                    m2 = {'ret': model['ret']} if 'ret' in model else model
                    if m2 != impl and model.get('err') != 'abstain':
                        ctx.disagree('verify_dir(symlinks)', dict(scen, request=req), impl, m2)
        # one-file-system mode: a second file system "mounted" at a directory
        if len(dirs) > 1 and rng.random() < 0.6:
            mnt = rng.choice(dirs[1:])
            real_mnt = os.path.realpath(os.path.join(root, mnt))
            base_dev = os.stat(root).st_dev
            fos = FakeOS([(real_mnt, base_dev + 7)])

            def dev_of(real):
                return base_dev + 7 if (real == real_mnt or real.startswith(real_mnt + '/')) else base_dev
            probs = oracle(root, '', ignored, dev_of, base_dev)
            for op in ('verify', 'update'):
                h = treeimpl.Recorder(default=True) if op == 'verify' else None
                impl = run_impl(root, op, '', h, xdev=False, fos=fos)
                scen = {'op': op + '-one-file-system', 'mount': mnt, 'links': {l: os.readlink(os.path.join(root, l)) for l in links},
                        'ignored': ignored, 'dirs': dirs}
                ctx.count('op:' + scen['op'])
                ctx.case(scen, True, dict(scen, impl=impl))
                if impl.get('err') == 'internal:HANG':
                    ctx.fail('walk-does-not-terminate', scen, '')
                elif 'xdev' in probs and 'loop' not in probs and impl.get('err') != 'crossdev':
                    ctx.fail('boundary-crossing-not-reported', scen, json.dumps(impl)[:200])
                elif 'xdev' not in probs and impl.get('err') == 'crossdev':
                    ctx.fail('boundary-crossing-reported-wrongly', scen, '')
            # the same with an unregistered (valid, empty) Manifest met by the scan before anything else: loading it later must
            # not make the loader forget which device it is confined to
            extra_m = os.path.join(root, 'Manifest.gz')
            if not os.path.lexists(extra_m):
                import gzip
                open(extra_m, 'wb').write(gzip.compress(b''))
                try:
                    impl = run_impl(root, 'update', '', None, xdev=False, fos=fos)
                    scen = {'op': 'update-one-file-system/unregistered-manifest-first', 'mount': mnt,
                            'links': {l: os.readlink(os.path.join(root, l)) for l in links}, 'ignored': ignored, 'dirs': dirs}
                    ctx.count('op:' + scen['op'])
                    ctx.case(scen, True, dict(scen, impl=impl))
                    if 'xdev' in probs and 'loop' not in probs and impl.get('err') != 'crossdev':
                        ctx.fail('boundary-crossing-not-reported', scen, json.dumps(impl)[:200])
                finally:
                    os.unlink(extra_m)
            # the same when the tree is being created (no top-level Manifest yet: the device is taken from the directory)
            top_m = os.path.join(root, 'Manifest')
            aside = top_m + '.aside'
            os.rename(top_m, aside)
            try:
                probs_c = oracle(root, '', [], dev_of, base_dev)
                impl = run_impl(root, 'update', '', None, xdev=False, fos=fos, create=True)
                scen = {'op': 'create-one-file-system', 'mount': mnt, 'links': {l: os.readlink(os.path.join(root, l)) for l in links},
                        'dirs': dirs}
                ctx.count('op:' + scen['op'])
                ctx.case(scen, True, dict(scen, impl=impl))
                if impl.get('err') == 'internal:HANG':
                    ctx.fail('walk-does-not-terminate', scen, '')
                elif 'xdev' in probs_c and 'loop' not in probs_c and impl.get('err') != 'crossdev':
                    ctx.fail('boundary-crossing-not-reported', scen, json.dumps(impl)[:200])
                elif 'xdev' not in probs_c and impl.get('err') == 'crossdev':
                    ctx.fail('boundary-crossing-reported-wrongly', scen, '')
            finally:
                if os.path.lexists(top_m):
                    os.unlink(top_m)
                os.rename(aside, top_m)
        # one-file-system mode, a single listed FILE on another file system (a file-level symlink or bind mount), in a plain and
        # in an incremental run where the file looks unchanged: the boundary must be reported before any shortcut applies
        if consistent and not links and rng.random() < 0.7:
            import gemato.manifest as gm
            m = updimpl.read_manifest(os.path.join(root, 'Manifest'))
            listed = [e.path for e in m.entries if e.tag == 'DATA']
            if listed:
                victim = rng.choice(listed)
                real_v = os.path.realpath(os.path.join(root, victim))
                base_dev = os.stat(root).st_dev
                fos = FakeOS([(real_v, base_dev + 9)])
                mt = os.stat(real_v).st_mtime
                for op in ('verify', 'update'):
                    for lm in (None, mt + 100):
                        h = treeimpl.Recorder(default=True) if op == 'verify' else None
                        impl = run_impl(root, op, '', h, xdev=False, fos=fos, last_mtime=lm)
                        scen = {'op': op + '-one-file-system-file', 'victim': victim, 'last_mtime': lm, 'dirs': dirs}
                        ctx.count('op:' + scen['op'] + ('/incremental' if lm is not None else ''))
                        ctx.case(scen, True, dict(scen, impl=impl))
                        if impl.get('err') != 'crossdev':
                            ctx.fail('boundary-crossing-not-reported', scen, json.dumps(impl)[:200])
    finally:
        trees.rmtree(root)


def run(ctx):
    ctx.rule = ('real trees with up to 6 directories and 0-3(+back links) directory symlinks (self, parent, ancestor, sibling, mutual '
                'pairs, chains), IGNORE on a link or on its directory or not at all, whole tree and a sub-directory; verification '
                '(keep-going and default handler), unregistered-Manifest scan, update; one-file-system mode with st_dev overridden '
                'below a directory. 20 s wall-clock bound per call. Oracle: an independent walk (ancestor identities per path) '
                'deciding loop / boundary crossing; and the tree-level Lean model with cycles unfolded from the disk.')
    ctx.assumptions = ['the graph model of C16 (Gr.walk) is tied to the code through the tree-level model runs and Bridge.Tree; '
                       'its kids relation is "after pruning"']
    drv = common.Driver()
    try:
        for i in range(800 if ctx.tier == 'quick' else 6000):
            one(ctx, drv)
    finally:
        drv.close()


def replay(ctx, path):
    print(json.dumps(json.load(open(path))['scenario'], indent=1)[:3000])
    return 0
