"""C11 — incremental update equals full update."""
import datetime
import json
import logging
import os
import subprocess
import time
import types

from harness import common, trees, treeimpl, updimpl
from harness.common import cps, uncps
from harness.props import c03

BRIDGE = ('Gemato.Bridge.Cli', 'Gemato.Bridge.SrcCli', 'Gemato.Bridge.SrcUpdate', 'Gemato.Bridge.SrcVerify', 'Gemato.Bridge.SrcLoader', 'Gemato.Bridge.SrcText')
PROPS = ['Gemato.Props.C11']
ZONES = ['UTC0', 'JST-9', 'EST5', '<+14>-14', '<-11>11',
         # zones with daylight-saving rules (POSIX TZ strings: no tzdata needed), northern and southern
         'CET-1CEST,M3.5.0,M10.5.0/3', 'EST5EDT,M3.2.0,M11.1.0', 'AEST-10AEDT,M10.1.0,M4.1.0/3']
# starting instants: summer and winter (either side of the DST rules), and within the hour around a DST switch
STARTS = [1600000000,        # 2020-09-13T12:26:40Z
          1610712000,        # 2021-01-15T12:00:00Z
          1603585800,        # 2020-10-25T00:30:00Z  (CEST ends 01:00Z)
          1585443540,        # 2020-03-29T00:59:00Z  (CEST begins 01:00Z)
          1604209500,        # 2020-11-01T05:45:00Z  (EDT ends 06:00Z)
          1601740500]        # 2020-10-03T15:55:00Z  (AEDT begins 16:00Z)


class Clock:
    """stands in for the `datetime` module inside gemato.cli: utcnow() is controlled and advances on every call"""
    def __init__(self, now):
        self.now = now
        self.calls = []
        clock = self

        class DT(datetime.datetime):
            @classmethod
            def utcnow(cls):
                t = clock.now
                clock.calls.append(t)
                clock.now += 7.25          # the scan takes time
                return datetime.datetime(1970, 1, 1) + datetime.timedelta(seconds=t)
        self.module = types.SimpleNamespace(datetime=DT, timezone=datetime.timezone, timedelta=datetime.timedelta)


def set_tz(z):
    os.environ['TZ'] = z
    time.tzset()


def cli(args, clock, hook=None):
    import gemato.cli
    import gemato.recursiveloader as rl
    saved = gemato.cli.datetime
    gemato.cli.datetime = clock.module
    saved_u = rl.update_entry_for_path
    if hook is not None:
        def wrapped(path, e, **kw):
            r = saved_u(path, e, **kw)
            hook(path)
            return r
        rl.update_entry_for_path = wrapped
    logging.disable(logging.CRITICAL)
    try:
        with treeimpl.time_limit(60):
            return gemato.cli.main(['gemato'] + args)
    except SystemExit as e:
        return e.code
    except Exception as e:
        return 'exc:' + type(e).__name__
    finally:
        logging.disable(logging.NOTSET)
        gemato.cli.datetime = saved
        rl.update_entry_for_path = saved_u


def manifests_mod_ts(root):
    out = {}
    for dp, dn, fn in os.walk(root):
        for f in fn:
            if f.startswith('Manifest'):
                t = trees.decompress_by_name(f, open(os.path.join(dp, f), 'rb').read())
                out[os.path.relpath(os.path.join(dp, f), root)] = [l for l in (t or '').split('\n') if not l.startswith('TIMESTAMP')]
    return out


def timestamp_of(root):
    t = open(os.path.join(root, 'Manifest')).read()
    for l in t.split('\n'):
        if l.startswith('TIMESTAMP '):
            d = datetime.datetime.strptime(l.split()[1], '%Y-%m-%dT%H:%M:%SZ')
            return int((d - datetime.datetime(1970, 1, 1)).total_seconds())
    return None


def one_history(ctx, drv):
    rng = ctx.rng
    a = common.scratch_dir('gv.c11a.')
    b = a + '.full'
    zone = rng.choice(ZONES)
    T0 = rng.choice(STARTS)
    old_tz = os.environ.get('TZ')
    try:
        set_tz(zone)
        files = {}
        for i in range(rng.randint(2, 6)):
            p = rng.choice(['', 'sub/', 'sub/deep/']) + 'f%d' % i
            files[p] = bytes(rng.randrange(256) for _ in range(rng.randint(1, 40)))
        for p, data in files.items():
            os.makedirs(os.path.dirname(os.path.join(a, p)) or a, exist_ok=True)
            open(os.path.join(a, p), 'wb').write(data)
            os.utime(os.path.join(a, p), ns=((T0 - 5000) * 10**9, (T0 - 5000) * 10**9))
        # the clock does not tick on whole seconds: a scan may start anywhere within a second (a TIMESTAMP rounded UP would
        # lie after the start)
        now = T0 + rng.choice([0, 0.25, 0.5, 0.75, 0.999])
        clk = Clock(now)
        hashes = rng.choice(['SHA1', 'MD5 SHA256'])
        rc = cli(['create', '-t', '-H', hashes, a], clk)
        if rc != 0:
            ctx.fail('create-failed', {'op': 'history', 'zone': zone}, str(rc))
            return
        subprocess.run(['cp', '-a', a, b], check=True)
        history_ok = True
        for rnd in range(rng.randint(1, 6 if ctx.tier == 'thorough' else 4)):
            # now and then an update limited to a sub-directory in between (it has not scanned the rest of the tree: the TIMESTAMP,
            # which the next incremental run relies on as "the whole tree was scanned then", must stay)
            if os.path.isdir(os.path.join(a, 'sub')) and rng.random() < 0.3:
                ts0 = timestamp_of(a)
                now += rng.choice([50, 3000])
                if rng.random() < 0.7:
                    for r in (a, b):
                        open(os.path.join(r, 'sub', 'between-%d' % rnd), 'wb').write(b'x%d' % int(now))
                        os.utime(os.path.join(r, 'sub', 'between-%d' % rnd), ns=(int(now * 10**9), int(now * 10**9)))
                    files['sub/between-%d' % rnd] = b'x%d' % int(now)
                rcs = [cli(['update', '-H', hashes, os.path.join(r, 'sub')], Clock(now)) for r in (a, b)]
                scen_s = {'op': 'sub-directory-update-between', 'zone': zone, 'round': rnd, 'exit': rcs}
                ctx.count('op:sub-directory-update-between-rounds')
                ctx.case(json.dumps([scen_s, sorted(files), now]), True, scen_s)
                if rcs == [0, 0] and timestamp_of(a) != ts0:
                    ctx.fail('sub-directory-update-moved-the-timestamp', scen_s, f'{ts0} -> {timestamp_of(a)}')
                    return
            prev_ts = timestamp_of(a)
            now += rng.choice([100, 4000, 50000])
            ops = []
            files0 = dict(files)
            mtimes = {}
            for _ in range(rng.randint(1, 4)):
                k = rng.choice(['modify-same-size', 'modify-other-size', 'add', 'delete', 'touch'])
                when = rng.choice(['newer', 'newer', 'newer-by-hours', 'equal', 'older', 'newer-within-the-second', 'older-within-the-second'])
                # mtimes in nanoseconds: the TIMESTAMP has one-second resolution, files do not
                mt = {'newer': (prev_ts + rng.randint(1, 90)) * 10**9,
                      'newer-by-hours': (prev_ts + rng.choice([3600, 5 * 3600, 12 * 3600]) + 1) * 10**9,
                      'equal': prev_ts * 10**9, 'older': (prev_ts - rng.randint(1, 100000)) * 10**9,
                      'newer-within-the-second': prev_ts * 10**9 + rng.choice([1000000, 250000000, 999000000]),
                      'older-within-the-second': prev_ts * 10**9 - rng.choice([1000000, 250000000, 999000000])}[when]
                if k in ('modify-same-size', 'modify-other-size', 'touch') and files:
                    p = rng.choice(sorted(files))
                    d = files[p]
                    if k == 'modify-same-size':
                        d = bytes([d[0] ^ 0x5a]) + d[1:] if rng.random() < 0.5 else d[:-1] + bytes([(d[-1] + 1) % 256])
                    elif k == 'modify-other-size':
                        d = d + b'+'
                    files[p] = d
                    mtimes[p] = mt
                    for r in (a, b):
                        open(os.path.join(r, p), 'wb').write(d)
                        os.utime(os.path.join(r, p), ns=(mt, mt))
                elif k == 'add':
                    p = rng.choice(['', 'sub/', 'new/']) + 'n%d' % rng.randint(0, 99)
                    d = bytes(rng.randrange(256) for _ in range(rng.randint(1, 20)))
                    files[p] = d
                    mtimes[p] = mt
                    for r in (a, b):
                        os.makedirs(os.path.dirname(os.path.join(r, p)) or r, exist_ok=True)
                        open(os.path.join(r, p), 'wb').write(d)
                        os.utime(os.path.join(r, p), ns=(mt, mt))
                elif k == 'delete' and len(files) > 1:
                    p = rng.choice(sorted(files))
                    del files[p]
                    for r in (a, b):
                        os.unlink(os.path.join(r, p))
                ops.append((k, when))
            # the property's premise: every file whose content changed keeping its size ends the round with an mtime newer than the
            # previous TIMESTAMP (size changes, additions and removals are detected regardless)
            qualifies = all(mtimes.get(p, 0) > prev_ts * 10**9 for p in files
                            if p in files0 and files0[p] != files[p] and len(files0[p]) == len(files[p]))
            # model request for the incremental run
            world = trees.world_of(a, set(hashes.split()))
            before = updimpl.snapshot(a)
            clk_a, clk_b = Clock(now), Clock(now)
            rc_a = cli(['update', '--incremental', '-H', hashes, a], clk_a)
            rc_b = cli(['update', '-H', hashes, b], clk_b)
            after = updimpl.snapshot(a)
            scen = {'op': 'history', 'zone': zone, 'round': rnd, 'ops': ops, 'prev_timestamp': prev_ts, 'now': now, 'qualifies': qualifies,
                    'hashes': hashes, 'start': T0}
            ctx.count('zone:' + zone)
            ctx.count('start:%d' % T0)
            for o_ in ops:
                ctx.count('op:%s/%s' % o_)
            ctx.case(json.dumps([scen, sorted(files)]), True, dict(scen, exit=[rc_a, rc_b]))
            if rc_a != 0 or rc_b != 0:
                ctx.fail('update-failed', scen, f'{rc_a} {rc_b}')
                return
            history_ok = history_ok and qualifies
            ma, mb = manifests_mod_ts(a), manifests_mod_ts(b)
            if history_ok and ma != mb:
                diff = [p for p in set(ma) | set(mb) if ma.get(p) != mb.get(p)]
                ctx.fail('incremental-differs-from-full', scen, str(diff))
            # TIMESTAMP written is never later than the moment scanning started
            for r, clk in ((a, clk_a), (b, clk_b)):
                ts = timestamp_of(r)
                if ts is not None and clk.calls and ts > clk.calls[0]:
                    ctx.fail('timestamp-later-than-scan-start', scen, f'{ts} > {clk.calls[0]}')
            # correspondence for the incremental run
            start = clk_a.calls[0] if clk_a.calls else now
            d = datetime.datetime(1970, 1, 1) + datetime.timedelta(seconds=int(start))
            o = {'hashes': hashes.split(), 'last_mtime': float(prev_ts)}
            eff = {'hashes': hashes.split(), 'sort': False, 'watermark': None, 'format': 'gz'}
            post = updimpl.post_table(a, hashes.split())
            req = {'op': 'update', 'world': world, 'top': cps('Manifest'), 'path': cps(''), 'create': False, 'xdev': True,
                   'hashes': [cps(h) for h in hashes.split()], 'profile': 'default', 'last_mtime': prev_ts * 10**9,
                   'save': {'force': False, 'sort': False, 'watermark': None, 'format': cps('gz')}, 'post': post, 'do_save': True,
                   'set_ts': [[d.year, d.month, d.day, d.hour, d.minute, d.second], False]}
            model = drv.ask(req)['model']
            if model.get('err') != 'abstain':
                c03.compare_with_disk(ctx, dict(scen, request=req), a, before, after, model, {'ok': True, 'top': 'Manifest'})
        # a modification injected after a file has been hashed during a running update is picked up by the next incremental run
        if files:
            victim = rng.choice(sorted(files))
            now += 1000
            clk = Clock(now)
            new = files[victim][:-1] + bytes([(files[victim][-1] + 7) % 256])
            done = []

            def hook(path, victim=victim, new=new, clk=clk):
                if not done and path.endswith('/' + victim):
                    open(path, 'wb').write(new)
                    mt = int(clk.now)        # while the update is running: after its start
                    os.utime(path, ns=(mt * 10**9, mt * 10**9))
                    done.append(1)
            # make the victim be re-hashed in this run: touch it newer than the TIMESTAMP first
            os.utime(os.path.join(a, victim), ns=(int((now - 1) * 10**9), int((now - 1) * 10**9)))
            open(os.path.join(a, 'trigger'), 'wb').write(b't%d' % int(now))
            rc1 = cli(['update', '--incremental', '-H', hashes, a], clk, hook)
            now += 1000
            rc2 = cli(['update', '--incremental', '-H', hashes, a], Clock(now))
            scen = {'op': 'modified-while-running', 'zone': zone, 'victim': victim}
            ctx.case(json.dumps([scen, now]), True, dict(scen, exit=[rc1, rc2], injected=bool(done)))
            if rc1 == 0 and rc2 == 0 and done:
                problems, _ = updimpl.exact_check(a, 'Manifest', '', hashes.split())
                problems = [p for p in problems if p.split(':', 1)[1].split(':')[0] == victim]
                if problems:
                    ctx.fail('change-during-update-missed-by-next-incremental-run', scen, '; '.join(problems[:3]))
    finally:
        if old_tz is None:
            os.environ.pop('TZ', None)
        else:
            os.environ['TZ'] = old_tz
        time.tzset()
        trees.rmtree(a)
        trees.rmtree(b)


def run(ctx):
    ctx.rule = ('histories of 1-4 (thorough: 1-6) rounds of 1-4 file operations (modify same size / other size, add, delete, touch) '
                'with explicitly set mtimes older than / equal to / newer than (by seconds or hours) the previous TIMESTAMP, replayed on '
                'two replicas (gemato update --incremental vs full) under TZ in {UTC, UTC+9, UTC-5, UTC+14, UTC-11, and three zones with '
                'daylight-saving rules: CET/CEST, EST/EDT, AEST/AEDT}, starting in summer, in winter and minutes before a DST switch; the clock of '
                'gemato.cli is controlled and advances during the scan; a modification injected right after a file was hashed. Oracle: '
                'Manifests equal modulo TIMESTAMP whenever every same-size modification ended newer than the previous TIMESTAMP; '
                'TIMESTAMP <= scan start; the injected change is repaired by the next incremental run; a sub-directory update between '
                'rounds leaves the TIMESTAMP alone; model correspondence.')
    ctx.assumptions = ['kernel timestamp granularity is not modelled; mtimes are set explicitly, at whole seconds and at millisecond offsets inside the second of the TIMESTAMP (float rounding of st_mtime below a microsecond is not exercised)']
    drv = common.Driver()
    try:
        for i in range(200 if ctx.tier == "quick" else 2500):
            one_history(ctx, drv)
    finally:
        drv.close()


def replay(ctx, path):
    print(json.dumps({k: v for k, v in json.load(open(path))['scenario'].items() if k != 'request'}, indent=1)[:3000])
    return 0
