"""C14 — a signed tree stays signed; sub-Manifests are never signed."""
import io
import json
import os

from harness import common, gen_tree, gpgutil, keydata, trees, treeimpl, updimpl
from harness.common import cps, uncps
from harness.props import c03
from harness.props.c01 import all_texts

BRIDGE = ('Gemato.Bridge.Sign', 'Gemato.Bridge.SrcUpdate', 'Gemato.Bridge.SrcPgp', 'Gemato.Bridge.SrcText', 'Gemato.Bridge.SrcLoader', 'Gemato.Bridge.SrcCli')
PROPS = ['Gemato.Props.C14']
PGP_HEAD = '-----BEGIN PGP SIGNED MESSAGE-----'
UNKNOWN_KEY = '0xDEADBEEFDEADBEEF'


def public_env():
    from gemato.openpgp import IsolatedGPGEnvironment
    env = IsolatedGPGEnvironment()
    env.import_key(io.BytesIO(gpgutil.VALID_PUBLIC_KEY))
    return env


def read_manifest(root, p):
    fp = os.path.join(root, p)
    if not os.path.isfile(fp):
        return None
    return trees.decompress_by_name(p, open(fp, 'rb').read())


def store_manifest(root, p, text):
    suffix = os.path.splitext(p)[1] if os.path.splitext(p)[1] in trees.SUFFIXES else ''
    open(os.path.join(root, p), 'wb').write(trees.compress(suffix, text.encode('utf8')))


def refresh_manifest_lines(root, mp):
    """recompute size and digests of the MANIFEST entries of an (unsigned) Manifest from the files as they are now"""
    import hashlib
    from gemato.manifest import ManifestFile
    t = read_manifest(root, mp)
    if t is None or t.startswith(PGP_HEAD):
        return
    m = ManifestFile()
    try:
        m.load(io.StringIO(t), verify_openpgp=False)
    except Exception:
        return
    hit = False
    for e in m.entries:
        if e.tag == 'MANIFEST':
            fp = os.path.join(root, os.path.dirname(mp), e.path)
            if os.path.isfile(fp):
                data = open(fp, 'rb').read()
                e.size = len(data)
                e.checksums = dict(trees.digests_of(data, sorted(e.checksums)))
                hit = True
    if hit:
        store_manifest(root, mp, ''.join(' '.join(e.to_list()) + '\n' for e in m.entries))


def one_case(ctx, drv, env_priv, env_pub, env_locked=None):
    from gemato.recursiveloader import ManifestRecursiveLoader
    rng = ctx.rng
    root = common.scratch_dir('gv.c14.')
    try:
        pl = gen_tree.gen_plan(rng, depth=rng.choice([1, 2, 3]), hostile=rng.random() < 0.5, max_files=4)
        gen_tree.layout(pl, rng, p_dup=0, p_second=0.05)
        gen_tree.write_plan(pl, root)
        # the top-level Manifest: plain or compressed name, signed or not
        top = rng.choice(['Manifest', 'Manifest', 'Manifest.gz', 'Manifest.bz2', 'Manifest.xz'])
        plain = read_manifest(root, 'Manifest')
        orig = rng.choice(['unsigned', 'signed', 'signed'])
        if top != 'Manifest':
            os.unlink(os.path.join(root, 'Manifest'))
            pl.manifests[top] = pl.manifests.pop('Manifest')
            pl.top = top
        store_manifest(root, top, plain)
        # sub-Manifests that carry a valid signature of their own (they must come out unsigned when rewritten):
        # signed deepest first, the MANIFEST entries of the Manifests above brought up to date by the generator
        signed_subs = []
        if rng.random() < 0.4 and not any(m.endswith('Manifest.extra') for m in pl.manifests):
            order = sorted((m for m in pl.manifests if os.path.isfile(os.path.join(root, m))), key=lambda s: (-s.count('/'), s))
            for mp in order:
                refresh_manifest_lines(root, mp)
                if mp != top and rng.random() < 0.6:
                    store_manifest(root, mp, gpgutil.clearsign(env_priv, read_manifest(root, mp)))
                    signed_subs.append(mp)
        if orig == 'signed':
            store_manifest(root, top, gpgutil.clearsign(env_priv, read_manifest(root, top)))
        # something to do for the update
        edits = []
        for _ in range(rng.randint(0, 3)):
            m = gen_tree.mutate_tree(pl, rng, root)
            if m:
                edits.append(m[0])
        opt = rng.choice([None, None, True, False])
        kid = rng.choice([None, None, gpgutil.PRIVATE_KEY_ID, UNKNOWN_KEY])
        have_secret = rng.random() < 0.8
        env = env_priv if have_secret else env_pub
        locked = env_locked is not None and rng.random() < 0.12
        if locked:
            # the secret key is in the keyring but cannot be used (passphrase, no pinentry): gpg emits the start of the
            # message before it fails
            env, have_secret = env_locked, False
            kid = rng.choice([None, UNKNOWN_KEY])
        verify = rng.random() < 0.9
        key_usable = have_secret and kid != UNKNOWN_KEY
        o = {'hashes': rng.choice(c03.HASHSETS), 'profile': 'default'}
        if rng.random() < 0.3:
            o['sort'] = True
        if rng.random() < 0.5:
            o['compress_watermark'] = rng.choice([0, 1, 60, 100000])
            o['compress_format'] = rng.choice(['gz', 'bz2', 'xz'])
        if rng.random() < 0.3:
            o['force'] = True
        texts = all_texts(root)
        world = trees.world_of(root, set(o['hashes']) | set(trees.hash_names_in(texts)))
        before = updimpl.snapshot(root)
        before_text = {p: read_manifest(root, p) for p in before if os.path.basename(p).startswith('Manifest')}
        top_signed = None
        eff = {}
        try:
            with treeimpl.time_limit(30):
                kw = {k: o[k] for k in ('hashes', 'sort', 'compress_watermark', 'compress_format') if k in o}
                l = ManifestRecursiveLoader(os.path.join(root, top), verify_openpgp=verify, openpgp_env=env,
                                            sign_openpgp=opt, openpgp_keyid=kid, **kw)
                top_signed = bool(l.loaded_manifests[top].openpgp_signed)
                eff = {'hashes': l.hashes, 'sort': bool(l.sort), 'watermark': l.compress_watermark, 'format': l.compress_format}
                l.update_entries_for_directory('')
                l.save_manifests(**({'force': True} if o.get('force') else {}))
                impl = {'ok': True, 'top': l.top_level_manifest_filename}
        except Exception as e:
            impl = treeimpl.classify(e)
        after = updimpl.snapshot(root)
        scen = {'op': 'sign', 'orig': orig, 'top': top, 'sign_opt': opt, 'keyid': kid, 'have_secret': have_secret, 'verify': verify,
                'options': o, 'edits': edits, 'manifests': sorted(pl.manifests), 'signed_subs': signed_subs, 'locked_key': locked}
        ctx.count('orig:' + orig)
        if locked:
            ctx.count('key:locked by a passphrase')
        ctx.count('sign_opt:' + str(opt))
        ctx.count('key:' + ('usable' if key_usable else 'unusable'))
        ctx.count('top:' + top)
        ctx.count('signed-sub-manifests:%d' % len(signed_subs))
        ctx.count('impl:' + ('ok' if 'ok' in impl else impl['err']))
        ctx.case(json.dumps(scen, sort_keys=True, default=str) + json.dumps(sorted(pl.files)), True, dict(scen, impl=impl))
        if top_signed is None:
            return
        decision = top_signed if opt is None else opt
        changed = sorted(p for p in set(before) | set(after) if before.get(p) != after.get(p))
        # --- the property ------------------------------------------------------------------------
        if treeimpl.is_internal(impl):
            ctx.fail('internal-error', scen, impl['err'])
            return
        if 'ok' in impl:
            ftop = impl['top']
            ttext = read_manifest(root, ftop)
            rewritten = ftop in changed
            if ftop != top:
                ctx.count('top-level-renamed')
            if rewritten and decision:
                clear = gpgutil.authenticated_cleartext(env_priv, ttext) if ttext and ttext.startswith(PGP_HEAD) else None
                if not (ttext or '').startswith(PGP_HEAD):
                    ctx.fail('top-level-manifest-written-unsigned', scen, f'{ftop}: {(ttext or "")[:60]!r}')
                elif clear is None:
                    ctx.fail('signature-of-written-manifest-does-not-verify', scen, ftop)
                else:
                    # the signed text is exactly the entries a verifying reload yields
                    try:
                        l2 = ManifestRecursiveLoader(os.path.join(root, ftop), verify_openpgp=True, openpgp_env=env_priv)
                        m2 = l2.loaded_manifests[ftop]
                        if not m2.openpgp_signed:
                            ctx.fail('reload-does-not-see-a-signature', scen, ftop)
                        plain = ''.join(' '.join(e.to_list()) + '\n' for e in m2.entries)
                        if plain != clear and not (plain == '' and clear == '\n'):      # gpg renders an empty document as one empty line
                            ctx.fail('signed-cleartext-differs-from-entries', scen, f'{clear[:80]!r} vs {plain[:80]!r}')
                    except Exception as e:
                        ctx.fail('signed-manifest-does-not-reload', scen, repr(e)[:200])
            if rewritten and not decision and PGP_HEAD in (ttext or ''):
                ctx.fail('manifest-signed-although-signing-is-off', scen, ftop)
            if decision and not key_usable and rewritten:
                ctx.fail('signing-failure-not-reported', scen, 'save returned normally')
            for p in changed:
                if p != ftop and os.path.basename(p).startswith('Manifest'):
                    t = read_manifest(root, p)
                    if t is not None and PGP_HEAD in t:
                        ctx.fail('sub-manifest-signed', scen, p)
        elif impl.get('err') == 'gemato:OpenPGPSigningFailure':
            if key_usable:
                ctx.fail('signing-failed-with-a-usable-key', scen, json.dumps(impl))
            if not decision:
                ctx.fail('signing-attempted-although-off', scen, json.dumps(impl))
        # --- correspondence ----------------------------------------------------------------------
        names = set(eff.get('hashes') or [])
        # what gpg made of the top-level Manifest (the watermark is compared with the signed size)
        signed_size = None
        if 'ok' in impl:
            tt = read_manifest(root, impl['top'])
            if tt and tt.startswith(PGP_HEAD):
                signed_size = len(tt.encode('utf8'))
        post = updimpl.post_table(root, sorted(names | set(trees.hash_names_in(all_texts(root)))))
        req = {'op': 'update', 'world': world, 'top': cps(top), 'path': cps(''), 'create': False, 'xdev': True,
               'hashes': [cps(h) for h in (eff.get('hashes') or [])], 'profile': 'default', 'last_mtime': None,
               'save': {'force': bool(o.get('force')), 'sort': bool(eff.get('sort')), 'watermark': eff.get('watermark'),
                        'format': cps(eff.get('format') or 'gz'), 'signed_size': signed_size},
               'post': post, 'do_save': True, 'set_ts': None,
               'sign': {'opt': opt, 'top_signed': top_signed, 'key_usable': key_usable}}
        model = drv.ask(req)['model']
        scen2 = dict(scen, request=req)
        if model.get('err') == 'abstain':
            ctx.count('model-abstained')
            return
        if signed_subs and edits and impl.get('err', '').startswith('gemato:OpenPGP'):
            # an edit hit a signed sub-Manifest: gpg rejects its signature when the file is loaded; what gpg accepts is not
            # part of the tree model (C04/C05 own it) - a diagnosed failure, counted, not compared
            ctx.count('signed-sub-manifest-tampered(model abstains)')
            return
        if 'err' in model or 'err' in impl:
            if model.get('err') != impl.get('err'):
                ctx.disagree('sign(error)', scen2, impl, {k: v for k, v in model.items() if k != 'loaded'})
            return
        final = {}
        for wr in model['writes']:
            final[uncps(wr[1])] = (uncps(wr[2]), wr[3]) if wr[0] == 'w' else None
        for p in changed:
            if p not in final:
                ctx.disagree('sign(writes)', scen2, {'changed': changed}, {'writes': sorted(final)})
                return
        for p, v in final.items():
            real = read_manifest(root, p)
            if v is None:
                if real is not None:
                    ctx.disagree('sign(unlink)', scen2, {'exists': p}, {'unlinked': p})
                continue
            mtext, signed = v
            if real is None:
                ctx.disagree('sign(missing)', scen2, {'missing': p}, {'written': p})
            elif signed:
                clear = gpgutil.authenticated_cleartext(env_priv, real) if real.startswith(PGP_HEAD) else None
                if clear != mtext and not (mtext == '' and clear == '\n'):
                    ctx.disagree('sign(signed text)', dict(scen2, manifest=p), {'cleartext': clear, 'raw': real[:200]}, {'text': mtext})
            elif real != mtext:
                ctx.disagree('sign(plain text)', dict(scen2, manifest=p), {'text': real}, {'text': mtext})
        if uncps(model['top']) != impl.get('top'):
            ctx.disagree('sign(top)', scen2, impl.get('top'), uncps(model['top']))
    finally:
        trees.rmtree(root)


def cli_case(ctx, env_priv):
    """the command line: --sign / --no-sign / neither with -K <secret key file> and -k"""
    import gemato.cli
    import logging
    rng = ctx.rng
    root = common.scratch_dir('gv.c14c.')
    try:
        pl = gen_tree.gen_plan(rng, depth=2, hostile=False, max_files=3)
        gen_tree.layout(pl, rng, p_dup=0, p_second=0)
        gen_tree.write_plan(pl, root)
        orig = rng.choice(['unsigned', 'signed'])
        if orig == 'signed':
            store_manifest(root, 'Manifest', gpgutil.clearsign(env_priv, read_manifest(root, 'Manifest')))
        open(os.path.join(root, 'new-file'), 'wb').write(b'n')
        keyfile = os.path.join(root, '.key.bin')
        secret = rng.random() < 0.7
        open(keyfile, 'wb').write(gpgutil.PRIVATE_KEY if secret else gpgutil.VALID_PUBLIC_KEY)
        flag = rng.choice([[], [], ['--sign'], ['--no-sign']])
        kid = rng.choice([[], ['-k', gpgutil.PRIVATE_KEY_ID], ['-k', UNKNOWN_KEY]])
        args = ['gemato', 'update', '-K', keyfile, '-H', 'SHA1'] + flag + kid + [root]
        logging.disable(logging.CRITICAL)
        try:
            with treeimpl.time_limit(40):
                rc = gemato.cli.main(args)
        except SystemExit as e:
            rc = e.code
        except Exception as e:
            rc = 'exc:' + type(e).__name__
        finally:
            logging.disable(logging.NOTSET)
        decision = (orig == 'signed') if not flag else flag == ['--sign']
        usable = secret and kid != ['-k', UNKNOWN_KEY]
        t = read_manifest(root, 'Manifest') or ''
        scen = {'op': 'cli', 'orig': orig, 'args': args[2:-1], 'secret_key': secret, 'exit': rc}
        ctx.count('cli:' + ('sign' if decision else 'plain') + ('/usable' if usable else '/unusable'))
        ctx.case(json.dumps(scen, default=str) + json.dumps(sorted(pl.files)), True, scen)
        if isinstance(rc, str):
            ctx.fail('internal-error', scen, rc)
        elif decision and usable:
            if rc != 0 or not t.startswith(PGP_HEAD) or gpgutil.authenticated_cleartext(env_priv, t) is None:
                ctx.fail('top-level-manifest-written-unsigned', scen, f'exit {rc}: {t[:60]!r}')
        elif decision and not usable:
            if rc == 0:
                ctx.fail('signing-failure-not-reported', scen, f'exit 0: {t[:60]!r}')
        else:
            if rc != 0 or PGP_HEAD in t:
                ctx.fail('manifest-signed-although-signing-is-off', scen, f'exit {rc}: {t[:60]!r}')
    finally:
        trees.rmtree(root)


def run(ctx):
    ctx.rule = ('generated trees with sub-Manifests (plain and compressed, names needing escapes) whose top-level Manifest is named '
                'Manifest / Manifest.gz / .bz2 / .xz and is unsigned or cleartext-signed by real gpg with the test key; 0-3 edits; '
                'update + save through the library with sign option {unset, on, off} x key id {default, explicit, unknown} x secret key '
                'present/absent/locked by a passphrase (gpg then emits the start of the message before failing) x verification on/off x watermark {none, 0, 1, 60, 100000} x format x sort x force; and through the CLI '
                '(-K keyfile, --sign/--no-sign, -k). Oracle: rewritten top-level Manifest is a cleartext-signed message that real gpg '
                'verifies and whose cleartext equals the entries a verifying reload yields iff the decision says so; plain otherwise; '
                'rewritten sub-Manifests carry no signature; an unusable key gives OpenPGPSigningFailure, never a normal return. '
                'Correspondence: every written Manifest (cleartext for signed ones), the signed flags, renames and the error class '
                'against the Lean model.')
    ctx.assumptions = ['whether the original signature verifies (openpgp_signed) is an input taken from the real loader',
                       'gpg 2.2 in an isolated home with the test-suite key; signature bytes themselves are not modelled']
    drv = common.Driver()
    env_priv = gpgutil.private_env()
    env_pub = public_env()
    env_locked = gpgutil.locked_env()
    try:
        for _ in range(300 if ctx.tier == "quick" else 3000):
            one_case(ctx, drv, env_priv, env_pub, env_locked)
        for _ in range(30 if ctx.tier == "quick" else 300):
            cli_case(ctx, env_priv)
    finally:
        env_priv.close()
        env_pub.close()
        env_locked.close()
        drv.close()


def replay(ctx, path):
    d = json.load(open(path))
    print(json.dumps({k: v for k, v in d['scenario'].items() if k != 'request'}, indent=1, default=str)[:3000])
    print(d.get('kind'), d.get('detail'))
    return 0
