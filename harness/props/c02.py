"""C02 — sub-Manifests are trusted only through an unbroken hash chain from the top."""
import json
import os

from harness import common, gen_tree, trees, treeimpl
from harness.common import cps, uncps
from harness.props.c01 import all_texts

BRIDGE = ('Gemato.Bridge.Tree', 'Gemato.Bridge.SrcVerify', 'Gemato.Bridge.SrcLoader', 'Gemato.Bridge.SrcWalk', 'Gemato.Bridge.SrcText', 'Gemato.Bridge.SrcCodec', 'Gemato.Bridge.SrcHash')
PROPS = ['Gemato.Props.C02', 'Gemato.Props.C02b']
APIS = ['assert_directory_verifies', 'assert_directory_verifies(sub)', 'verify_path', 'assert_path_verifies', 'find_path_entry',
        'find_dist_entry']


def chain_plan(rng, depth, weak=False):
    """a tree with a chain of nested sub-Manifests of the given depth below the top. weak: one link of the chain is a MANIFEST
    entry whose only checksums are under names the interpreter cannot compute (the code must refuse it, not fall back to
    the size); the Manifests are stored plain then, so that a same-size tampering keeps every size"""
    pl = gen_tree.Plan()
    d = ''
    names = ['cat', 'pkg', 'files', 'deep', 'deeper', 'x y', 'é']
    chain = ['Manifest']
    mdirs = {'': 'Manifest'}
    for lvl in range(depth):
        d = os.path.join(d, names[lvl]) if d else names[lvl]
        pl.dirs.add(d)
        nm = 'Manifest' if weak else rng.choice(gen_tree.MANIFEST_NAMES)
        mdirs[d] = nm
        chain.append(os.path.join(d, nm))
        # siblings with their own Manifests and files, to have something beside the chain
        if rng.random() < 0.5:
            sd = os.path.join(os.path.dirname(d), 'side%d' % lvl) if os.path.dirname(d) else 'side%d' % lvl
            pl.dirs.add(sd)
            pl.files[os.path.join(sd, 'f')] = b'side'
    for dd in sorted(pl.dirs):
        for i in range(rng.randint(1, 3)):
            p = os.path.join(dd, 'f%d' % i) if dd else 'f%d' % i
            pl.files[p] = bytes(rng.randrange(256) for _ in range(rng.randint(1, 20)))
    for dd, nm in mdirs.items():
        pl.manifests[os.path.join(dd, nm) if dd else nm] = []
    # the layout of the real Gentoo repository: the top-level Manifest references nothing but a second Manifest of the top
    # directory (Manifest.files[.gz]), which holds everything else - the chain then passes through a same-directory link
    split_top = rng.random() < 0.35
    files_nm = 'Manifest.files' + ('' if weak else rng.choice(['', '.gz', '.xz']))
    if split_top:
        pl.manifests[files_nm] = []
        chain.insert(1, files_nm)
    # a second Manifest in one directory of the chain, referenced from its sibling
    extra_dir = rng.choice(sorted(mdirs)) if rng.random() < 0.4 else None
    if extra_dir is not None:
        pl.manifests[os.path.join(extra_dir, 'Manifest.extra') if extra_dir else 'Manifest.extra'] = []

    def governing(p):
        dd = os.path.dirname(p)
        while dd not in mdirs:
            dd = os.path.dirname(dd)
        return dd
    for p in sorted(pl.files):
        g = governing(p)
        mp = os.path.join(g, mdirs[g]) if g else mdirs[g]
        if split_top and g == '':
            mp = files_nm
        if g == extra_dir and rng.random() < 0.5:
            mp = os.path.join(g, 'Manifest.extra') if g else 'Manifest.extra'
        pl.manifests[mp].append({'tag': 'DATA', 'path': gen_tree.rel(p, g), 'target': p, 'hashes': rng.choice(gen_tree.HASHSETS[1:])})
    for mp in sorted(pl.manifests, key=lambda s: -s.count('/')):
        if mp == 'Manifest':
            continue
        dd = os.path.dirname(mp)
        if split_top and mp == files_nm:
            pl.manifests['Manifest'].append({'tag': 'MANIFEST', 'path': files_nm, 'target': files_nm, 'hashes': rng.choice(gen_tree.HASHSETS[1:])})
            continue
        if os.path.basename(mp) == 'Manifest.extra':
            parent = os.path.join(dd, mdirs[dd]) if dd else mdirs[dd]
            gdir = dd
        else:
            gdir = governing(dd) if dd else ''
            gdir = os.path.dirname(dd)
            while gdir not in mdirs:
                gdir = os.path.dirname(gdir)
            parent = os.path.join(gdir, mdirs[gdir]) if gdir else mdirs[gdir]
        if split_top and parent == 'Manifest':
            parent = files_nm
        pl.manifests[parent].append({'tag': 'MANIFEST', 'path': gen_tree.rel(mp, gdir), 'target': mp,
                                     'hashes': rng.choice(gen_tree.HASHSETS[1:])})
    deepest = chain[-1]
    pl.manifests[deepest].append({'tag': 'DIST', 'path': 'dist-1.tar.gz', 'size': 3, 'cks': {'MD5': 'aa'}})
    pl.weak_link = None
    if weak:
        link = rng.choice(chain[1:])
        for es in pl.manifests.values():
            for e in es:
                if e['tag'] == 'MANIFEST' and e['target'] == link:
                    e['hashes'] = []
                    e['fake_cks'] = rng.choice([{'WHIRLPOOL': 'ab' * 64}, {'FOO': 'aa'}, {'WHIRLPOOL': 'cd' * 64, 'SHA3_999': '00'}])
                    pl.weak_link = link
    return pl, chain, d


def run_apis(ctx, drv, root, pl, victim, vdir, chain, k, kind):
    """all five entry points on fresh loaders; every one must report the first broken link chain[k]"""
    texts = all_texts(root)
    world = trees.world_of(root, trees.hash_names_in(texts))
    broken = chain[k]
    for api in APIS:
        # on a fresh loader, or - as `gemato verify` does - after find_timestamp() on the same loader
        pre = ctx.rng.random() < 0.4
        if api.startswith('assert_directory_verifies'):
            path = vdir if api.endswith('(sub)') else ''
            impl = treeimpl.verify_dir(root, 'Manifest', path, pre_find_timestamp=pre)
            req = {'op': 'verify_dir', 'world': world, 'top': cps('Manifest'), 'path': cps(path), 'xdev': True, 'handler': None,
                   'last_mtime': None, 'pre_find_timestamp': pre}
        elif api == 'find_dist_entry':
            impl = treeimpl.lookup(root, 'Manifest', api, vdir, 'dist-1.tar.gz', pre_find_timestamp=pre)
            req = {'op': 'lookup', 'world': world, 'top': cps('Manifest'), 'api': api, 'path': cps(vdir), 'filename': cps('dist-1.tar.gz'),
                   'pre_find_timestamp': pre}
        else:
            impl = treeimpl.lookup(root, 'Manifest', api, victim, pre_find_timestamp=pre)
            req = {'op': 'lookup', 'world': world, 'top': cps('Manifest'), 'api': api, 'path': cps(victim), 'pre_find_timestamp': pre}
        ctx.count('loader:' + ('after-find_timestamp' if pre else 'fresh'))
        model = drv.ask(req)['model']
        scen = {'op': 'tamper', 'api': api, 'k': k, 'kind': kind, 'chain': chain, 'victim': victim, 'request': req}
        ctx.count('api:' + api)
        ctx.count('level:%d/%d' % (k, len(chain) - 1))
        ctx.case(json.dumps(req, sort_keys=True), True,
                 {'api': api, 'chain': chain, 'tampered': kind, 'recomputed_from_level': k, 'impl': impl if 'err' in impl else 'result'})
        want = {'err': 'mismatch', 'path': cps(broken)}
        if getattr(pl, 'weak_link', None) and impl.get('err') == 'unsupportedhash':
            ctx.count('refused:unsupported-hash-on-the-chain')      # the refusal the weak link calls for
        elif k == 0:
            # nothing restored: the attacker recomputed everything incl. the top: nothing can be detected (control)
            if 'err' in impl and kind != 'none':
                pass
        elif impl != want:
            if 'err' in impl and impl['err'] == 'mismatch':
                ctx.fail('wrong-link-reported', scen, uncps(impl['path']))
            else:
                ctx.fail('tampering-below-an-untouched-manifest-not-detected', scen, json.dumps(impl)[:200])
        if impl != model and model.get('err') != 'abstain':
            ctx.disagree(api, scen, impl, model)


def one_case(ctx, drv):
    rng = ctx.rng
    root = common.scratch_dir('gv.c02.')
    try:
        depth = rng.randint(1, 5)
        weak = rng.random() < 0.2
        pl, chain, deep = chain_plan(rng, depth, weak)
        gen_tree.write_plan(pl, root)
        ok = treeimpl.verify_dir(root, 'Manifest', '')
        if weak and ok.get('err') == 'unsupportedhash':
            pass
        elif ok.get('ret') is not True:
            ctx.fail('consistent-tree-rejected', {'op': 'tamper', 'chain': chain}, json.dumps(ok)[:200])
            return
        old = {mp: open(os.path.join(root, mp), 'rb').read() for mp in pl.manifests}
        # the tampering, below the deepest Manifest of the chain
        kind = 'changed-same-size' if weak else rng.choice(['changed', 'changed-same-size', 'added', 'removed', 'dist-changed'])
        vdir = deep
        victims = sorted(p for p in pl.files if os.path.dirname(p) == deep)
        victim = rng.choice(victims)
        gm = chain[-1]
        if kind == 'changed':
            pl.files[victim] = pl.files[victim] + b'!'
        elif kind == 'changed-same-size':
            pl.files[victim] = bytes([pl.files[victim][0] ^ 0x41]) + pl.files[victim][1:]
        elif kind == 'added':
            victim = os.path.join(deep, 'evil')
            pl.files[victim] = b'evil'
            pl.manifests[gm].append({'tag': 'DATA', 'path': 'evil', 'target': victim, 'hashes': ['SHA256']})
        elif kind == 'removed':
            del pl.files[victim]
            os.unlink(os.path.join(root, victim))
            for mp in pl.manifests:
                pl.manifests[mp] = [e for e in pl.manifests[mp] if e.get('target') != victim]
        else:
            for e in pl.manifests[gm]:
                if e['tag'] == 'DIST':
                    e['cks'] = {'MD5': 'bb'}
        st_old = {mp: os.stat(os.path.join(root, mp)) for mp in pl.manifests if os.path.isfile(os.path.join(root, mp))}
        gen_tree.write_plan(pl, root)          # the attacker recomputes every Manifest consistently ...
        # ... in place, and puts the old modification time back wherever the size did not change (nothing but the content tells)
        for mp, st in st_old.items():
            fp = os.path.join(root, mp)
            if os.path.isfile(fp) and os.stat(fp).st_size == st.st_size:
                os.utime(fp, ns=(st.st_atime_ns, st.st_mtime_ns))
        k = rng.randint(1, len(chain) - 1)
        for mp in chain[:k]:                    # ... but levels above k stay untouched
            open(os.path.join(root, mp), 'wb').write(old[mp])
        # Manifests beside the chain that were rewritten identically keep verifying
        run_apis(ctx, drv, root, pl, victim, vdir, chain, k, kind)
    finally:
        trees.rmtree(root)


def run(ctx):
    ctx.rule = ('Manifest trees with a chain of nested sub-Manifests of depth 1..5 (any mix of plain/gz/bz2/lzma/xz, a second Manifest '
                'in one directory; in a fifth of the cases one link whose only checksums are under names hashlib cannot compute, all sizes '
                'kept by the tampering), a tampered file below the deepest one (changed / same size / added / removed / DIST entry changed), all '
                'Manifests recomputed consistently with an independent writer from the file up to level k while levels above k are '
                'left untouched; six entry points on fresh loaders. Oracle: each must raise the mismatch for the level-k Manifest (or refuse '
                'the uncomputable link with UnsupportedHash). '
                'non-trivial = every distinct request')
    ctx.assumptions = ['the parent entry lists at least one checksum (an entry with no checksum and an unchanged size detects nothing)',
                       'fresh loader per call (a loader that first ran an update keeps unverified Manifests by design)',
                       'no hash collisions']
    drv = common.Driver()
    try:
        for i in range(300 if ctx.tier == 'quick' else 4000):
            one_case(ctx, drv)
    finally:
        drv.close()


def replay(ctx, path):
    d = json.load(open(path))
    drv = common.Driver()
    try:
        print('model:', drv.ask(d['scenario']['request'])['model'])
        print('chain:', d['scenario']['chain'], 'k =', d['scenario']['k'], 'api =', d['scenario']['api'])
    finally:
        drv.close()
    return 0
