"""C09 — malformed Manifest text is always rejected with a syntax error."""
import json
import os

from harness import common, gen_text, textimpl
from harness.common import cps

BRIDGE = ('Gemato.Bridge.Text', 'Gemato.Bridge.SrcText', 'Gemato.Bridge.SrcCodec')
def compare_load(ctx, drv, text, mode, label, expect=None):
    """run impl and model on one text; record disagreements / property failures"""
    if mode == 'file':
        try:
            text.encode('utf8')
        except UnicodeEncodeError:
            mode = 'stringio'
    impl = textimpl.impl_load_file(text, tmpdir=ctx.tmp) if mode == 'file' else textimpl.impl_load_stringio(text)
    scen = {'op': 'load_text', 'mode': mode, 'text': cps(text)}
    ctx.count('stream:' + label)
    if textimpl.model_abstains(text):
        ctx.count('model-abstained(non-ascii-digit)')
        # still subject to the class-only oracle
        if 'err' in impl and impl['err'] not in ('syntax', 'unsigned'):
            ctx.fail('internal-error', scen, impl['err'])
        ctx.case()
        return impl, None
    model = drv.ask(scen)['model']
    key = 'err:' + impl['err'] if 'err' in impl else ('ok-signed' if impl['signed'] is not None else 'ok')
    ctx.count('impl:' + key)
    nontrivial = 'err' in impl or len(impl.get('entries', [])) > 0
    ctx.case(scen if nontrivial else None, nontrivial,
             {'text': text[:200], 'mode': mode, 'impl': key})
    # oracle (the property itself): never anything but entries / syntax / unsigned
    if 'err' in impl and impl['err'] not in ('syntax', 'unsigned'):
        ctx.fail('internal-error', scen, impl['err'])
    elif 'err' in model and 'err' not in impl:
        # the model (whose rejections are the theorems of Props/C09) rejects, the code accepts
        ctx.fail('malformed-accepted', scen, f'model={model["err"]} impl=entries')
    elif expect == 'bad' and 'err' not in impl:
        ctx.fail('malformed-accepted', scen, 'constructed-malformed text accepted')
    if impl != model:
        ctx.disagree('load_text', scen, impl, model)
    return impl, model


def escape_table(ctx, drv):
    """T2: every \\xHH (256), every \\uHHHH (65536), \\UHHHHHHHH on boundaries and case variants"""
    import gemato.manifest as gm
    from gemato.exceptions import ManifestSyntaxError
    fields = []
    for v in range(256):
        fields.append('\\x%02X' % v)
        fields.append('\\x%02x' % v)
    step = 1 if ctx.tier == 'thorough' else 1
    for v in range(0, 65536, step):
        fields.append('\\u%04X' % v)
    for v in [0, 1, 0x2F, 0x7F, 0xFFFF, 0x10000, 0x10FFFF, 0x110000, 0x7FFFFFFF, 0x80000000, 0xFFFFFFFF, 0xD800, 0xDFFF,
              0x00110000, 0x0FFFFFFF]:
        fields.append('\\U%08X' % v)
        fields.append('\\U%08x' % v)
    fields += ['\\', '\\x', '\\x1', '\\xG0', '\\u12', '\\u12G4', '\\U1234567', '\\U1234567G', '\\X41', '\\a', '\\\\',
               '\\x41\\x', 'a\\x41b', '\\x4', '\\u004', '\\U0000004']
    bad = 0
    reqs = [{'op': 'decode', 'field': cps('q' + f)} for f in fields]
    reps = drv.ask_many(reqs)
    for f, rep in zip(fields, reps):
        try:
            r = gm.ManifestPathEntry.process_path(['DATA', 'q' + f])
            impl = cps(r)
        except ManifestSyntaxError:
            impl = 'syntax'
        except Exception as e:
            impl = 'exc:' + type(e).__name__
        model = rep['model']
        if model in ('invalid', 'range'):
            model = 'syntax'
        scen = {'op': 'load_text', 'mode': 'stringio', 'text': cps('DATA q' + f + ' 0\n')}
        if isinstance(impl, str) and impl.startswith('exc:'):
            ctx.fail('internal-error', scen, impl)
            bad += 1
        elif impl != model:
            if model == 'syntax':
                ctx.fail('malformed-accepted', scen, 'escape')
            ctx.disagree('decode', scen, impl, model)
            bad += 1
        ctx.evaluations += 1
    ctx.tables['escape-forms(\\x all, \\u all, \\U boundaries)'] = {'size': len(fields), 'exhaustive': True, 'ok': bad == 0}


def run(ctx):
    ctx.rule = ('texts from: grammar of lines with each field independently valid/invalid; all token sequences up to a '
                'length bound over an 18-token alphabet; mutations of valid Manifests; full escape-form table; sampled sequences of the '
                'line classes of the cleartext-signature framework (dash-escaped armor lines inside the body, junk after them); byte '
                'sequences that are not UTF-8 inserted into valid Manifests stored plain and under every codec. '
                'non-trivial = distinct text on which the parser produced at least one entry or an error')
    ctx.assumptions = ['numeric fields containing non-ASCII decimal digits: model abstains, only the exception-class oracle applies']
    ctx.tmp = common.scratch_dir()
    drv = common.Driver()
    try:
        corpus_dir = os.path.join(common.VERIF, 'corpus', 'C09')
        if os.path.isdir(corpus_dir):
            for fn in sorted(os.listdir(corpus_dir)):
                sc = json.load(open(os.path.join(corpus_dir, fn)))['scenario']
                compare_load(ctx, drv, common.uncps(sc['text']), sc['mode'], 'corpus')
        escape_table(ctx, drv)
        n_gram = 3000 if ctx.tier == 'quick' else 60000
        for i in range(n_gram):
            text, expect = gen_text.grammar_text(ctx.rng)
            mode = ctx.rng.choice(['stringio', 'file'])
            if mode == 'stringio' and '\r' in text:
                expect = None     # "\r" is a field separator there, lines merge
            compare_load(ctx, drv, text, mode, 'grammar', expect)
        maxlen = 3 if ctx.tier == 'quick' else 4
        n = 0
        for text in gen_text.token_texts(maxlen):
            compare_load(ctx, drv, text + '\n', 'stringio', 'tokens')
            n += 1
        ctx.tables[f'token-sequences(len<={maxlen})'] = {'size': n, 'exhaustive': True, 'ok': True}
        # the cleartext-signature framework around the entries: sampled sequences of its line classes (armor lines, dash-escaped
        # armor lines inside the body, junk after them, ...): whatever the model rejects must be rejected
        for i in range(3000 if ctx.tier == 'quick' else 60000):
            combo, text = gen_text.framework_text(ctx.rng, 3, 12)
            mode = ctx.rng.choice(['stringio', 'file'])
            compare_load(ctx, drv, text, mode, 'framework')
        # bytes that are not UTF-8, in plain and in compressed Manifests (every codec): rejected as a syntax error, whatever the
        # storage format
        from gemato.compression import open_potentially_compressed_path
        import gemato.manifest as gm
        for i in range(200 if ctx.tier == 'quick' else 4000):
            es = gen_text.rand_entries(ctx.rng) or [gen_text.rand_entry(ctx.rng)]
            base = textimpl.impl_dump(es)
            if 'err' in base:
                continue
            raw = bytearray(common.uncps(base['text']).encode('utf8', 'surrogatepass'))
            try:
                bytes(raw).decode('utf8')
            except UnicodeDecodeError:
                continue
            pos = ctx.rng.randrange(len(raw) + 1)
            raw[pos:pos] = ctx.rng.choice([b'\xff', b'\xc0\xaf', b'\xe2\x82', b'\x80', b'\xf8\x88\x80\x80\x80'])
            suffix = ctx.rng.choice(['', '.gz', '.bz2', '.lzma', '.xz'])
            pth = os.path.join(ctx.tmp, 'Manifest' + suffix)
            with open_potentially_compressed_path(pth, 'wb') as f:
                f.write(bytes(raw))
            m = gm.ManifestFile()
            try:
                with open_potentially_compressed_path(pth, 'r', encoding='utf8') as f:
                    m.load(f, verify_openpgp=False)
                out = {'entries': len(m.entries)}
            except Exception as e:
                out = {'err': textimpl.classify_exc(e)}
            finally:
                os.unlink(pth)
            scen = {'op': 'load_bytes', 'suffix': suffix, 'bytes': list(raw)}
            ctx.count('stream:invalid-utf8' + suffix)
            ctx.case(json.dumps(scen)[:20000], True, {'suffix': suffix, 'outcome': out})
            if out.get('err') != 'syntax':
                ctx.fail('malformed-accepted' if 'err' not in out else 'internal-error', scen, json.dumps(out))
        n_mut = 2000 if ctx.tier == 'quick' else 40000
        for i in range(n_mut):
            es = gen_text.rand_entries(ctx.rng)
            base = textimpl.impl_dump(es)
            if 'err' in base:
                continue
            t = common.uncps(base['text'])
            for _ in range(ctx.rng.randint(1, 3)):
                t = gen_text.mutate(ctx.rng, t)
            compare_load(ctx, drv, t, ctx.rng.choice(['stringio', 'file']), 'mutation')
    finally:
        drv.close()
        os.rmdir(ctx.tmp)


def replay(ctx, path):
    sc = json.load(open(path))['scenario']
    ctx.tmp = common.scratch_dir()
    drv = common.Driver()
    try:
        impl, model = compare_load(ctx, drv, common.uncps(sc['text']), sc['mode'], 'replay')
        print('impl :', impl)
        print('model:', model)
    finally:
        drv.close()
        os.rmdir(ctx.tmp)
    if ctx.failures:
        print(f'VIOLATION property={ctx.prop} replay={path}')
        return 1
    return 0
