"""C19 — profiles place Manifests and type entries as documented; output verifies."""
import gzip
import itertools
import json
import logging
import os

from harness import common, trees, treeimpl, updimpl
from harness.common import cps, uncps

BRIDGE = ('Gemato.Bridge.Profile', 'Gemato.Bridge.SrcUpdate', 'Gemato.Bridge.SrcLoader', 'Gemato.Bridge.SrcText', 'Gemato.Bridge.SrcProfile', 'Gemato.Bridge.SrcCli')
PROPS = ['Gemato.Props.C19']
PROFILES = ['default', 'ebuild', 'old-ebuild']
ALPHA = ['', 'eclass', 'licenses', 'metadata', 'profiles', 'dtd', 'glsa', 'md5-cache', 'news', 'xml-schema', 'cat', 'pkg', 'files',
         'eclas', 'metadata2', 'timestamp']
FILESETS = [[], ['metadata.xml'], ['a.ebuild'], ['a.ebuild.bak', 'x'], ['x', 'metadata.xml.bak'], ['.ebuild'], ['skel.ebuild', 'y']]


def profile_obj(name):
    from gemato.profile import get_profile_by_name
    return get_profile_by_name(name)


def tables(ctx, drv):
    ok = True
    rels = []
    for d in range(1, 4):
        for combo in itertools.product(ALPHA[1:], repeat=d):
            rels.append('/'.join(combo))
    rels = [''] + rels + ['metadata/md5-cache/cat/pkg', 'a/b/c/d', 'cat//pkg', 'cat/pkg/']
    for pn in PROFILES:
        P = profile_obj(pn)
        # want_manifest_in_directory
        items = []
        for r in rels:
            for dn in ([], ['sub']):
                for fs in FILESETS:
                    items.append((r, dn, fs))
        impl = [bool(P.want_manifest_in_directory(r, list(dn), list(fs))) for r, dn, fs in items]
        model = []
        for i in range(0, len(items), 4000):
            model += drv.ask({'op': 'profile_fn', 'profile': pn, 'fn': 'want_manifest',
                              'items': [[cps(r), [cps(x) for x in dn], [cps(x) for x in fs]] for r, dn, fs in items[i:i + 4000]]})['model']
        bad = [it for it, a, b in zip(items, impl, model) if a != b]
        ctx.evaluations += len(items)
        for it in bad[:3]:
            # the model's policy is proved to be the documented one (C19_want_manifest_iff_documented): a difference on a
            # concrete directory IS the implementation deviating from the documented policy
            ctx.fail('policy-differs-from-documented', {'op': 'want_manifest_in_directory', 'profile': pn, 'relpath': it[0],
                                                         'dirnames': it[1], 'filenames': it[2]},
                     f'want_manifest_in_directory{it!r}: implementation {impl[items.index(it)]}, documented {model[items.index(it)]}')
        ok = ok and not bad
        # get_entry_type_for_path
        paths = [r + '/' + f if r else f for r in rels for f in ['x.ebuild', 'metadata.xml', 'files', 'Manifest', 'y', 'files/p.patch']]
        impl = [P.get_entry_type_for_path(p) for p in paths]
        model = []
        for i in range(0, len(paths), 5000):
            model += drv.ask({'op': 'profile_fn', 'profile': pn, 'fn': 'entry_type', 'items': [cps(p) for p in paths[i:i + 5000]]})['model']
        bad = [it for it, a, b in zip(paths, impl, model) if a != b]
        ctx.evaluations += len(paths)
        for it in bad[:3]:
            ctx.fail('policy-differs-from-documented', {'op': 'get_entry_type_for_path', 'profile': pn, 'path': it},
                     f'get_entry_type_for_path({it!r}): implementation {impl[paths.index(it)]}, documented {model[paths.index(it)]}')
        ok = ok and not bad
        # get_ignore_paths_for_new_manifest
        impl = [[cps(x) for x in P.get_ignore_paths_for_new_manifest(r)] for r in rels]
        model = drv.ask({'op': 'profile_fn', 'profile': pn, 'fn': 'ignore_paths', 'items': [cps(r) for r in rels]})['model']
        bad = [it for it, a, b in zip(rels, impl, model) if a != b]
        ctx.evaluations += len(rels)
        for it in bad[:3]:
            ctx.fail('policy-differs-from-documented', {'op': 'get_ignore_paths_for_new_manifest', 'profile': pn, 'relpath': it},
                     f'get_ignore_paths_for_new_manifest({it!r})')
        ok = ok and not bad
        # want_compressed_manifest
        import gemato.manifest as gm
        items = []
        for nm in ['Manifest', 'Manifest.gz', 'cat/Manifest', 'cat/pkg/Manifest', 'Manifest.files']:
            for he in (False, True):
                for wm in (0, 1, 128, 4096):
                    for sz in (max(wm - 1, 0), wm, wm + 1):
                        items.append((nm, he, sz, wm))
        impl = []
        for nm, he, sz, wm in items:
            m = gm.ManifestFile()
            m.entries = [gm.ManifestEntryDATA('x', 0, {})] + ([gm.ManifestEntryEBUILD('a.ebuild', 0, {})] if he else [])
            impl.append(bool(P.want_compressed_manifest(nm, m, sz, wm)))
        model = drv.ask({'op': 'profile_fn', 'profile': pn, 'fn': 'want_compressed',
                         'items': [[cps(nm), he, sz, wm] for nm, he, sz, wm in items]})['model']
        bad = [it for it, a, b in zip(items, impl, model) if a != b]
        ctx.evaluations += len(items)
        for it in bad[:3]:
            ctx.fail('policy-differs-from-documented', {'op': 'want_compressed_manifest', 'profile': pn, 'item': list(it)},
                     f'want_compressed_manifest{it!r}')
        ok = ok and not bad
        # loader defaults

        class L:
            hashes = sort = compress_watermark = compress_format = None
        lo = L()
        P.set_loader_options(lo)
        impl = [None if lo.hashes is None else [cps(h) for h in lo.hashes], lo.sort, lo.compress_watermark,
                None if lo.compress_format is None else cps(lo.compress_format)]
        model = drv.ask({'op': 'profile_fn', 'profile': pn, 'fn': 'loader_options'})['model']
        if impl != model:
            ctx.disagree('profile_fn.loader_options', {'profile': pn}, impl, model)
            ok = False
        # ... and only the defaults: whatever the caller set explicitly - a watermark of 0 ("compress everything") and
        # sort=False included - stays (every combination)
        for hs, so, wm, fm in itertools.product([None, ['SHA1']], [None, True, False], [None, 0, 1, 128, 4096], [None, 'xz']):
            lo = L()
            lo.hashes, lo.sort, lo.compress_watermark, lo.compress_format = hs, so, wm, fm
            P.set_loader_options(lo)
            got = [lo.hashes, lo.sort, lo.compress_watermark, lo.compress_format]
            ctx.evaluations += 1
            for given, have, dflt, what in zip([hs, so, wm, fm], got, model, ['hashes', 'sort', 'compress_watermark', 'compress_format']):
                want = given if given is not None else (dflt if not isinstance(dflt, list) or what != 'hashes' else [uncps(h) for h in dflt])
                if what == 'compress_format' and given is None and dflt is not None:
                    want = uncps(dflt)
                if have != want:
                    ctx.fail('explicit-loader-option-overridden', {'op': 'set_loader_options', 'profile': pn, 'given': [hs, so, wm, fm]},
                             f'{what}: given {given!r}, default {dflt!r}, loader ends with {have!r}')
                    ok = False
    ctx.tables['policy functions of the three profiles on all directory shapes to depth 3 over a 15-name alphabet'] = {
        'size': ctx.evaluations, 'exhaustive': True, 'ok': ok}


# ---- generated repositories ---------------------------------------------------------

def gen_repo(rng, root, odd=False):
    def w(p, data=b'x'):
        fp = os.path.join(root, p)
        os.makedirs(os.path.dirname(fp), exist_ok=True)
        open(fp, 'wb').write(data)
    cats = rng.sample(['app-misc', 'dev-lang', 'sys-apps', 'virtual'], rng.randint(0, 3))
    for c in cats:
        if rng.random() < 0.7:
            w(f'{c}/metadata.xml', b'<catmetadata/>')
        for pkg in rng.sample(['foo', 'bar', 'baz-qux'], rng.randint(0, 3)):
            for v in range(rng.randint(0, 2)):
                w(f'{c}/{pkg}/{pkg}-{v}.ebuild', b'EAPI=7\n' * rng.randint(1, 30))
            if rng.random() < 0.8:
                w(f'{c}/{pkg}/metadata.xml', b'<pkgmetadata/>')
            if rng.random() < 0.6:
                w(f'{c}/{pkg}/files/fix.patch', b'--- a\n+++ b\n')
                if rng.random() < 0.5:
                    w(f'{c}/{pkg}/files/sub/deep.patch', b'deep')
            if odd and rng.random() < 0.3:
                w(f'{c}/{pkg}/files', b'a regular file named files') if not os.path.exists(os.path.join(root, c, pkg, 'files')) else None
            if rng.random() < 0.3:
                w(f'{c}/{pkg}/ChangeLog', b'log' * rng.randint(1, 50))
        if rng.random() < 0.6:
            w(f'metadata/md5-cache/{c}/foo-1', b'DEFINED_PHASES=-\n')
    if rng.random() < 0.8:
        w('eclass/foo.eclass', b'# eclass\n' * rng.randint(1, 20))
    if rng.random() < 0.6:
        w('licenses/GPL-2', b'license text')
    if rng.random() < 0.8:
        w('profiles/categories', ''.join(c + '\n' for c in cats).encode())
        if rng.random() < 0.5:
            w('profiles/arch/amd64/make.defaults', b'ARCH=amd64\n')
    if rng.random() < 0.7:
        for sub in rng.sample(['dtd', 'glsa', 'news', 'xml-schema'], rng.randint(0, 4)):
            w(f'metadata/{sub}/file.xml', b'<x/>' * rng.randint(1, 40))
            if rng.random() < 0.5:
                w(f'metadata/{sub}/timestamp.chk', b'ts')
        if rng.random() < 0.5:
            w('metadata/timestamp.chk', b'ts')
            w('metadata/timestamp', b'ts')
        if rng.random() < 0.5:
            w('metadata/layout.conf', b'masters =\n')
    for ign in ('distfiles', 'local', 'packages'):
        if rng.random() < 0.3:
            w(f'{ign}/something', b'ignored content')
    if rng.random() < 0.3:
        w('header.txt', b'header')
    if rng.random() < 0.2:
        w('.git/config', b'[core]')
    return cats


def gemato_cli(args):
    import gemato.cli
    logging.disable(logging.CRITICAL)
    try:
        with treeimpl.time_limit(60):
            return gemato.cli.main(['gemato'] + args)
    except SystemExit as e:
        return e.code
    except Exception as e:
        return 'exc:' + type(e).__name__
    finally:
        logging.disable(logging.NOTSET)


def read_manifest(path):
    import gemato.manifest as gm
    from gemato.compression import open_potentially_compressed_path
    m = gm.ManifestFile()
    with open_potentially_compressed_path(path, 'r', encoding='utf8') as f:
        m.load(f, verify_openpgp=False)
    return m


def check_repo(ctx, drv, root, pn, scen, wm=128, hashes=('BLAKE2B', 'SHA512'), prior_dirs=(), sort_expected=True):
    """placement / typing / IGNOREs / hashes / sorting / compression against the Lean policy functions; then verify"""
    found = {}
    for dp, dn, fn in os.walk(root):
        rel = os.path.relpath(dp, root)
        rel = '' if rel == '.' else rel
        ms = [f for f in fn if f in ('Manifest', 'Manifest.gz')]
        if ms:
            found[rel] = ms
    # expected placement: walk as the updater does (hidden and IGNOREd directories are not entered)
    ignored = set()
    for rel, ms in found.items():
        for mname in ms:
            for e in read_manifest(os.path.join(root, rel, mname)).entries:
                if e.tag == 'IGNORE':
                    ignored.add(os.path.join(rel, e.path) if rel else e.path)
    items = []
    for dp, dn, fn in os.walk(root):
        rel = os.path.relpath(dp, root)
        rel = '' if rel == '.' else rel
        for d in list(dn):
            full = os.path.join(rel, d) if rel else d
            if d.startswith('.') or full in ignored:
                pass
        items.append((rel, sorted(dn), sorted(fn)))
        dn[:] = [d for d in dn if not d.startswith('.') and (os.path.join(rel, d) if rel else d) not in ignored]
    want = drv.ask({'op': 'profile_fn', 'profile': pn, 'fn': 'want_manifest',
                    'items': [[cps(r), [cps(x) for x in dn], [cps(x) for x in fs if not x.startswith('Manifest')]] for r, dn, fs in items]})['model']
    expected_dirs = {''} | {r for (r, _dn, _fs), wnt in zip(items, want) if wnt}
    # an update keeps Manifests that existed before (the policy is consulted for directories without one)
    if set(found) - set(prior_dirs) != expected_dirs - set(prior_dirs) or not expected_dirs <= set(found):
        ctx.fail('manifest-placement', scen, f'extra={sorted(set(found) - expected_dirs)} missing={sorted(expected_dirs - set(found))}')
    # default IGNOREs of new Manifests
    ig = drv.ask({'op': 'profile_fn', 'profile': pn, 'fn': 'ignore_paths', 'items': [cps(r) for r in sorted(found)]})['model']
    for rel, exp in zip(sorted(found), ig):
        m = read_manifest(os.path.join(root, rel, found[rel][0]))
        have = [cps(e.path) for e in m.entries if e.tag == 'IGNORE']
        if sorted(have) != sorted(exp):
            ctx.fail('default-ignores', scen, f'{rel}: {sorted(uncps(x) for x in have)} expected {sorted(uncps(x) for x in exp)}')
    # typing, hashes, sorting, compression
    for rel in sorted(found):
        if len(found[rel]) != 1:
            ctx.fail('two-files-for-one-manifest', scen, rel)
        mname = found[rel][0]
        m = read_manifest(os.path.join(root, rel, mname))
        fe = [e for e in m.entries if e.tag in ('DATA', 'MISC', 'EBUILD', 'AUX')]
        full = [(os.path.join(rel, e.path) if rel else e.path) for e in fe]
        types = drv.ask({'op': 'profile_fn', 'profile': pn, 'fn': 'entry_type', 'items': [cps(p) for p in full]})['model']
        for e, p, t in zip(fe, full, types):
            # AUX denotes a file below files/ of the Manifest's own directory; anywhere else such a file is plain DATA
            within = e.aux_path if e.tag == 'AUX' else e.path
            if t == 'AUX' and e.tag != 'AUX' and not e.path.startswith('files/'):
                t = 'DATA'
            if e.tag != t:
                ctx.fail('entry-type', scen, f'{p}: {e.tag} expected {t}')
            if sorted(e.checksums) != sorted(hashes):
                ctx.fail('hash-set', scen, f'{p}: {sorted(e.checksums)}')
        if pn != 'default' and sort_expected:
            keys = [(e.tag, e.path) for e in m.entries if e.tag != 'TIMESTAMP']
            if keys != sorted(keys):
                ctx.fail('not-sorted', scen, rel)
        if rel != '' or mname != 'Manifest':
            import io
            buf = io.StringIO()
            m.dump(buf)
            size = len(buf.getvalue().encode('utf8'))
            he = any(e.tag == 'EBUILD' for e in m.entries)
            wc = drv.ask({'op': 'profile_fn', 'profile': pn, 'fn': 'want_compressed',
                          'items': [[cps(os.path.join(rel, 'Manifest') if rel else 'Manifest'), he, size, wm]]})['model'][0]
            if wc != (mname == 'Manifest.gz'):
                ctx.fail('compression-policy', scen, f'{rel}/{mname}: size {size} watermark {wm} hasEbuild {he}')
        elif mname != 'Manifest':
            ctx.fail('top-level-compressed', scen, mname)
    # the result verifies with a plain loader, whatever profile wrote it
    v = treeimpl.verify_dir(root, 'Manifest', '')
    if v.get('ret') is not True:
        ctx.fail('created-tree-does-not-verify', scen, json.dumps(v)[:200])
    return set(found)


def run_tool(root, cmd, pn, hashes, wm, api_sort):
    """create / update through the command line, or (api_sort is not 'cli') through the library with the profile's sorting
    overridden by the caller - ManifestRecursiveLoader(..., sort=...) - which the command line cannot express"""
    if api_sort == 'cli':
        args = [cmd, '-p', pn]
        if hashes is not None:
            args += ['-H', ' '.join(hashes)]
        if wm is not None:
            args += ['-c', str(wm)]
        return gemato_cli(args + [root]), args
    o = {'create': cmd == 'create', 'profile': pn, 'sort': api_sort}
    if hashes is not None:
        o['hashes'] = list(hashes)
    if wm is not None:
        o['compress_watermark'] = wm
    out, _eff = updimpl.run_update(root, 'Manifest', '', o)
    return (0 if 'ok' in out else ('exc:' + out['err'] if treeimpl.is_internal(out) else 1)), [cmd, '-p', pn, 'api', json.dumps(o, sort_keys=True)]


def one_repo(ctx, drv, odd):
    rng = ctx.rng
    root = common.scratch_dir('gv.c19.')
    try:
        cats = gen_repo(rng, root, odd)
        pn = rng.choice(['ebuild', 'old-ebuild', 'ebuild', 'old-ebuild', 'default'])
        hashes_opt = None
        hashes = ('BLAKE2B', 'SHA512')
        wm_opt = None
        wm = 128
        if pn == 'default' or rng.random() < 0.2:
            hashes = hashes_opt = rng.choice([('SHA256',), ('MD5', 'SHA1'), ('BLAKE2B', 'SHA512')])
        if pn != 'default' and rng.random() < 0.3:
            wm = wm_opt = rng.choice([0, 1, 64, 200, 100000])
        api_sort = 'cli' if pn == 'default' or rng.random() < 0.65 else rng.choice([False, False, True, None])
        listing = sorted(os.path.relpath(os.path.join(dp, f), root) for dp, _d, fs in os.walk(root) for f in fs)
        rc, args = run_tool(root, 'create', pn, hashes_opt, wm_opt, api_sort)
        scen = {'op': 'create', 'args': args, 'categories': cats, 'odd': odd, 'seed': ctx.seed}
        ctx.count('profile:' + pn)
        ctx.count('through:' + ('command line' if api_sort == 'cli' else 'library, sort=%s' % api_sort))
        ctx.case(json.dumps([args, listing]), True, {'args': args, 'files': listing[:12], 'exit': rc})
        scen['files'] = listing
        if rc != 0:
            if isinstance(rc, str):
                ctx.fail('internal-error', scen, rc)
            else:
                ctx.fail('create-failed', scen, str(rc))
            return
        if pn == 'default':
            v = treeimpl.verify_dir(root, 'Manifest', '')
            if v.get('ret') is not True:
                ctx.fail('created-tree-does-not-verify', scen, json.dumps(v)[:200])
            return
        sort_expected = api_sort is not False
        prior = check_repo(ctx, drv, root, pn, scen, wm, hashes, sort_expected=sort_expected)
        # edits, then update with the same profile: still as documented, still verifies
        files = [p for p in listing if not p.startswith(('distfiles/', 'local/', 'packages/', '.git/'))]
        for rnd in range(rng.choice([1, 1, 2])):
            edits = []
            for _ in range(rng.randint(1, 3)):
                k = rng.choice(['change', 'add', 'delete', 'add-package', 'add-ebuild'])
                edits.append(k)
                if k == 'change' and files:
                    open(os.path.join(root, rng.choice(files)), 'ab').write(b'more')
                elif k == 'add' and files:
                    open(os.path.join(root, os.path.dirname(rng.choice(files)), 'added-%d' % rng.randint(0, 9)), 'wb').write(b'new')
                elif k == 'delete' and files:
                    p = files.pop(rng.randrange(len(files)))
                    os.unlink(os.path.join(root, p))
                elif k == 'add-package' and cats:
                    c = rng.choice(cats)
                    os.makedirs(os.path.join(root, c, 'newpkg', 'files'), exist_ok=True)
                    open(os.path.join(root, c, 'newpkg', 'newpkg-1.ebuild'), 'wb').write(b'EAPI=8\n')
                    open(os.path.join(root, c, 'newpkg', 'files', 'p.patch'), 'wb').write(b'p')
                elif k == 'add-ebuild' and cats:
                    # a first (or another) ebuild in an existing package directory: the Manifest there may hold MISC/AUX only so far
                    pkgs = sorted(os.path.join(c, d) for c in cats if os.path.isdir(os.path.join(root, c))
                                  for d in os.listdir(os.path.join(root, c)) if os.path.isdir(os.path.join(root, c, d)))
                    if pkgs:
                        pk = rng.choice(pkgs)
                        open(os.path.join(root, pk, '%s-%d.ebuild' % (os.path.basename(pk), rng.randint(3, 9))), 'wb').write(b'EAPI=8\n')
            rc, uargs = run_tool(root, 'update', pn, hashes_opt, wm_opt, api_sort)
            scen2 = dict(scen, op='create+edit+update', update_args=uargs, edits=edits, round=rnd)
            ctx.case(json.dumps([uargs, listing, 'u', rnd, edits]), True)
            if rc != 0:
                ctx.fail('internal-error' if isinstance(rc, str) else 'update-failed', scen2, str(rc))
                return
            prior = check_repo(ctx, drv, root, pn, scen2, wm, hashes, prior_dirs=prior, sort_expected=sort_expected)
    finally:
        trees.rmtree(root)


def corpus_case(ctx, drv, sc):
    root = common.scratch_dir('gv.c19c.')
    try:
        for p in sc['files']:
            fp = os.path.join(root, p)
            os.makedirs(os.path.dirname(fp), exist_ok=True)
            open(fp, 'wb').write(b'x')
        rc = gemato_cli(sc['args'] + [root])
        ctx.case(json.dumps(sc), True, {'corpus': sc['args'], 'exit': rc})
        if rc != 0:
            ctx.fail('internal-error' if isinstance(rc, str) else 'create-failed', dict(sc, op='create'), str(rc))
        else:
            check_repo(ctx, drv, root, sc['args'][2], dict(sc, op='create'))
    finally:
        trees.rmtree(root)


def run(ctx):
    ctx.rule = ('T2: the five policy functions of the three profiles on all directory shapes to depth 3 over a 15-name alphabet '
                '(standard names and look-alikes) x sub-directories x file sets, all path/file-name combinations for typing, sizes '
                'around the watermark; T3: generated repositories (0-3 categories x 0-3 packages, nested files/, eclass, licenses, '
                'profiles, metadata with cache dirs and timestamp files, ignored distfiles/local/packages, hidden dirs) x profile x '
                'overrides of hashes/watermark: gemato create, then edits and gemato update. Oracle: the Lean policy functions applied to '
                'the on-disk tree (placement, typing, default IGNOREs, hash set, sorting, compression) and verification by a plain loader.')
    ctx.assumptions = ['Manifests are read back with the parser covered by C08/C09']
    drv = common.Driver()
    try:
        tables(ctx, drv)
        corpus_dir = os.path.join(common.VERIF, 'corpus', 'C19')
        if os.path.isdir(corpus_dir):
            for fn in sorted(os.listdir(corpus_dir)):
                corpus_case(ctx, drv, json.load(open(os.path.join(corpus_dir, fn)))['scenario'])
        n = 150 if ctx.tier == 'quick' else 1500
        for i in range(n):
            one_repo(ctx, drv, odd=(i % 5 == 4))
    finally:
        drv.close()


def replay(ctx, path):
    print(json.dumps(json.load(open(path))['scenario'], indent=1)[:3000])
    return 0
