"""C12 — update is idempotent and, with sorting, canonical."""
import json
import os
import shutil

from harness import common, gen_tree, trees, treeimpl, updimpl
from harness.common import cps, uncps
from harness.props import c03

BRIDGE = ('Gemato.Bridge.Tree', 'Gemato.Bridge.FindTop', 'Gemato.Bridge.SrcUpdate', 'Gemato.Bridge.SrcText', 'Gemato.Bridge.SrcLoader', 'Gemato.Bridge.SrcVerify', 'Gemato.Bridge.SrcCodec', 'Gemato.Bridge.SrcProfile', 'Gemato.Bridge.SrcCli')
PROPS = ['Gemato.Props.C12']


def manifest_state(root):
    out = {}
    for dp, dn, fn in os.walk(root):
        for f in fn:
            if f.startswith('Manifest') and os.path.isfile(os.path.join(dp, f)):
                p = os.path.join(dp, f)
                st = os.stat(p)
                out[os.path.relpath(p, root)] = (open(p, 'rb').read(), st.st_mtime_ns)
    return out


def covered_by_ignore(root, top, sub, o):
    """update_entries_for_directory's contract (as update_entry_for_path's): the path must not be covered by IGNORE"""
    if any(c.startswith('.') for c in sub.split('/')):
        return True                 # hidden directories are ignored implicitly
    try:
        l = updimpl.make_loader(root, top, o)
        e = l.find_path_entry(sub)
        if e is not None and e.tag == 'IGNORE':
            return True
        l.load_manifests_for_path(sub)
        for mpath, relpath, m in l._iter_manifests_for_path(sub):
            for e in m.entries:
                if e.tag == 'IGNORE' and updimpl.starts_with(sub, os.path.normpath(os.path.join(relpath, e.path))):
                    return True
    except Exception:
        return True
    return False


class shuffled_scandir:
    """os.scandir returning names in an order drawn from the PRNG (os.walk uses it)"""
    def __init__(self, rng):
        self.rng = rng

    def __enter__(self):
        real = os.scandir
        self.real = real
        rng = self.rng

        class It:
            def __init__(self, p):
                with real(p) as it:
                    self.items = list(it)
                rng.shuffle(self.items)

            def __iter__(self):
                return self

            def __next__(self):
                if not self.items:
                    raise StopIteration
                return self.items.pop(0)

            def __enter__(self):
                return self

            def __exit__(self, *a):
                return False

            def close(self):
                pass

        def scandir(p='.'):
            return It(p)
        os.scandir = scandir

    def __exit__(self, *a):
        os.scandir = self.real
        return False


def one_case(ctx, drv):
    rng = ctx.rng
    root = common.scratch_dir('gv.c12.')
    copy = root + '.b'
    n_fail0 = len(ctx.failures)
    try:
        pl = gen_tree.gen_plan(rng, depth=rng.choice([1, 2, 3]), hostile=rng.random() < 0.4, max_files=4)
        pl.no_conflicts = True
        pl.p_dup_manifest = 0.0       # two entries with one (tag, path) key have no canonical order: outside the property's premise
        lookalike = rng.random() < 0.3
        if lookalike:
            # sibling directories whose names merely extend one another, the shortest with a sub-Manifest of its own, and
            # files that no Manifest lists yet: which Manifest a new entry lands in must not depend on the walk order
            base = rng.choice(['lib', 'eclass', 'a'])
            up = rng.choice(['', 'cat'])
            pl = gen_tree.Plan()
            pl.no_conflicts = True
            pl.ignored = set()
            for d in [base] + [base + x for x in rng.sample(['-extra', '2', '.d', 'x'], rng.randint(1, 3))]:
                dd = os.path.join(up, d)
                pl.dirs.add(dd)
                if up:
                    pl.dirs.add(up)
                for i in range(rng.randint(1, 2)):
                    pl.files[os.path.join(dd, 'f%d' % i)] = bytes(rng.randrange(256) for _ in range(rng.randint(0, 30)))
            sub = os.path.join(up, base, 'Manifest')
            pl.manifests['Manifest'] = [{'tag': 'MANIFEST', 'path': sub, 'target': sub, 'hashes': ['SHA1']}]
            pl.manifests[sub] = []
            pl.notes.append('lookalike-siblings')
        else:
            gen_tree.layout(pl, rng, p_dup=0.0, p_second=0.0, p_ignore=0.1)
        gen_tree.write_plan(pl, root)
        for _ in range(rng.randint(0, 3)):
            gen_tree.mutate_tree(pl, rng, root)
        ctx.count('layout:' + ('lookalike-siblings' if lookalike else 'generated'))
        if any(sum(1 for f in fn if f.startswith('Manifest')) > 1 for _dp, _dn, fn in os.walk(root)):
            # several Manifest files in one directory (a stray file named Manifest next to Manifest.gz): outside the premise of
            # the canonical-form claim, and the territory of finding F8 (rename collisions); owned by C03 / C13
            ctx.count('outside-premise:two-manifest-files-in-a-directory')
            return
        o = {'hashes': rng.choice(c03.HASHSETS), 'sort': True}
        if rng.random() < 0.5:
            o['compress_watermark'] = rng.choice([0, 60, 300, 100000])
            o['compress_format'] = rng.choice(['gz', 'bz2', 'xz'])
        if rng.random() < 0.3:
            o['profile'] = 'ebuild'
        scen = {'op': 'update-twice', 'options': o, 'manifests': sorted(pl.manifests)}
        # replica B: same tree, prior Manifests with their entries in another order; walk order shuffled
        import subprocess
        subprocess.run(['cp', '-a', root, copy], check=True)
        if os.environ.get('VERIF_KEEP'):
            subprocess.run(['cp', '-a', root, root + '.init'], check=True)
        for dp, dn, fn in os.walk(copy):
            for f in fn:
                if f.startswith('Manifest') and os.path.isfile(os.path.join(dp, f)) and not os.path.islink(os.path.join(dp, f)):
                    p = os.path.join(dp, f)
                    t = trees.decompress_by_name(f, open(p, 'rb').read())
                    if t:
                        lines = [l for l in t.split('\n') if l]
                        rng.shuffle(lines)
                        suffix = os.path.splitext(f)[1] if os.path.splitext(f)[1] in trees.SUFFIXES else ''
                        open(p, 'wb').write(trees.compress(suffix, ''.join(l + '\n' for l in lines).encode('utf8')))
        # the shuffled Manifests changed: the parents' MANIFEST entries in B are stale (as after any edit) - fine, update repairs
        a0, b0 = manifest_state(root), manifest_state(copy)
        outA, effA = updimpl.run_update(root, pl.top, '', o)
        with shuffled_scandir(rng):
            outB, effB = updimpl.run_update(copy, pl.top, '', o)
        if 'ok' in outA and 'ok' in outB:
            # a Manifest that BOTH replicas wrote in this very update, over byte-equal sub-Manifests, has canonical bytes at once
            a1, b1 = manifest_state(root), manifest_state(copy)
            for mp in sorted(set(a1) & set(b1)):
                if a1[mp][0] == a0.get(mp, (None,))[0] or b1[mp][0] == b0.get(mp, (None,))[0]:
                    continue
                try:
                    ents = updimpl.read_manifest(os.path.join(root, mp)).entries
                except Exception:
                    continue
                subs = [os.path.normpath(os.path.join(os.path.dirname(mp), e.path)) for e in ents if e.tag == 'MANIFEST']
                if all(a1.get(sp, (1,))[0] == b1.get(sp, (2,))[0] for sp in subs) and a1[mp][0] != b1[mp][0]:
                    ctx.fail('manifest-bytes-depend-on-order', dict(scen, manifest=mp, stage='first update'), mp)
                    break
        ctx.count('first:' + ('ok' if 'ok' in outA else outA['err']))
        ctx.case(json.dumps([scen, sorted(pl.files)]), True, dict(scen, outcome=outA if 'err' in outA else 'ok'))
        if 'ok' not in outA or 'ok' not in outB:
            if ('ok' in outA) != ('ok' in outB):
                ctx.count('replicas-differ-in-failing')
            return
        # (canonical) the bytes of every written Manifest are a function of tree content and options alone
        a, b = manifest_state(root), manifest_state(copy)
        # B's first update has to rewrite everything it shuffled; A may leave untouched Manifests as they were:
        # compare after a forced rewrite of both
        o2 = dict(o, force=True)
        updimpl.run_update(root, outA['top'], '', o2)
        with shuffled_scandir(rng):
            updimpl.run_update(copy, outB['top'], '', o2)
        a, b = manifest_state(root), manifest_state(copy)
        if sorted(a) != sorted(b):
            ctx.fail('different-manifest-files-across-orders', scen, f'{sorted(a)} vs {sorted(b)}')
        else:
            for mp in a:
                if a[mp][0] != b[mp][0]:
                    ctx.fail('manifest-bytes-depend-on-order', dict(scen, manifest=mp), '')
                    break
        # (idempotent) a second update of the unchanged tree rewrites nothing: bytes and mtime of every Manifest stay
        for rr, top in ((root, outA['top']), (copy, outB['top'])):
            before = manifest_state(rr)
            snap = updimpl.snapshot(rr)
            out2, eff2 = updimpl.run_update(rr, top, '', o)
            after = manifest_state(rr)
            if 'ok' not in out2:
                ctx.fail('second-update-fails', scen, json.dumps(out2))
            elif before != after:
                ch = sorted(p for p in set(before) | set(after) if before.get(p) != after.get(p))
                ctx.fail('second-update-rewrites', dict(scen, rewritten=ch), str(ch))
            # model: a second update queues nothing
            world = trees.world_of(rr, set(eff2['hashes']))
            model, req = c03.model_update(drv, rr, top, '', o, eff2, world)
            if 'writes' in model and model['writes']:
                ctx.disagree('update(idempotent)', dict(scen, request=req), {'writes': []}, {'writes': [w[:2] for w in model['writes']]})
            # ... and so does an update limited to a sub-directory (the Manifests above it are refreshed only when they changed)
            dirs = sorted(os.path.relpath(dp, rr) for dp, dn, fn in os.walk(rr) if dp != rr)
            for sub in rng.sample(dirs, min(len(dirs), 2)):
                if covered_by_ignore(rr, top, sub, o):
                    ctx.count('sub-directory-rerun:skipped (the path is covered by IGNORE or hidden: outside the API contract)')
                    continue
                before = manifest_state(rr)
                out3, eff3 = updimpl.run_update(rr, top, sub, o)
                after = manifest_state(rr)
                ctx.count('sub-directory-rerun:' + ('ok' if 'ok' in out3 else out3['err']))
                if 'ok' in out3 and before != after:
                    ch = sorted(p for p in set(before) | set(after) if before.get(p) != after.get(p))
                    ctx.fail('second-update-rewrites', dict(scen, rewritten=ch, path=sub), f'update of {sub!r}: {ch}')
                if 'ok' in out3:
                    model, req = c03.model_update(drv, rr, top, sub, o, eff3, trees.world_of(rr, set(eff3['hashes'])))
                    if 'writes' in model and model['writes']:
                        ctx.disagree('update(idempotent, sub-directory)', dict(scen, request=req, path=sub), {'writes': []},
                                     {'writes': [w[:2] for w in model['writes']]})
    finally:
        keep = os.environ.get('VERIF_KEEP')
        if keep and len(ctx.failures) > n_fail0:
            shutil.copytree(root, os.path.join(keep, os.path.basename(root)), symlinks=True)
            shutil.copytree(root + '.init', os.path.join(keep, os.path.basename(root) + '.init'), symlinks=True)
            if os.path.isdir(copy):
                shutil.copytree(copy, os.path.join(keep, os.path.basename(copy)), symlinks=True)
        trees.rmtree(root)
        trees.rmtree(copy)
        trees.rmtree(root + '.init')


def run(ctx):
    ctx.rule = ('generated trees with at most one Manifest per directory, edits, profiles default/ebuild, hash sets, watermarks and '
                'formats; replica B has the entries of every prior Manifest shuffled and runs with os.scandir shuffled. Oracle: after '
                'update (and a forced rewrite) the bytes of every Manifest are equal across replicas; a second update of the '
                'unchanged tree - the whole tree, then up to two sub-directories - leaves bytes and st_mtime_ns of every Manifest; the '
                'model queues no write for those updates.')
    ctx.assumptions = ['byte-determinism of the codecs is exercised, not proved']
    drv = common.Driver()
    try:
        for i in range(400 if ctx.tier == 'quick' else 3000):
            one_case(ctx, drv)
    finally:
        drv.close()


def replay(ctx, path):
    print(json.dumps({k: v for k, v in json.load(open(path))['scenario'].items() if k != 'request'}, indent=1)[:3000])
    return 0
