"""C05 — a signature is accepted only if good, valid, trusted, unexpired and unrevoked."""
import hashlib
import io
import itertools
import json
import logging
import os
import shutil
import subprocess

from harness import common, gpgutil, keydata
from harness.common import cps, uncps

BRIDGE = ('Gemato.Bridge.Pgp', 'Gemato.Bridge.SrcPgp', 'Gemato.Bridge.SrcText', 'Gemato.Bridge.SrcCli')
PROPS = ['Gemato.Props.C05']

FPR = gpgutil.KEY_FPR
GOOD = b'[GNUPG:] GOODSIG 136880E72A7B1384 gemato test key'
VALID = (b'[GNUPG:] VALIDSIG ' + FPR.encode() + b' 2017-11-08 1510133606 0 4 0 1 8 01 ' + FPR.encode())
VOCAB = {
    'NEWSIG': b'[GNUPG:] NEWSIG',
    'GOODSIG': GOOD,
    'BADSIG': b'[GNUPG:] BADSIG 136880E72A7B1384 gemato test key',
    'ERRSIG': b'[GNUPG:] ERRSIG 136880E72A7B1384 1 8 01 1510133606 9 -',
    'EXPSIG': b'[GNUPG:] EXPSIG 136880E72A7B1384 gemato test key',
    'EXPKEYSIG': b'[GNUPG:] EXPKEYSIG 136880E72A7B1384 gemato test key',
    'REVKEYSIG': b'[GNUPG:] REVKEYSIG 136880E72A7B1384 gemato test key',
    'VALIDSIG': VALID,
    'VALIDSIG-short': b'[GNUPG:] VALIDSIG ' + FPR.encode() + b' 2017-11-08 1510133606',
    'TRUST_UNDEFINED': b'[GNUPG:] TRUST_UNDEFINED 0 direct',
    'TRUST_NEVER': b'[GNUPG:] TRUST_NEVER 0 direct',
    'TRUST_MARGINAL': b'[GNUPG:] TRUST_MARGINAL 0 direct',
    'TRUST_FULLY': b'[GNUPG:] TRUST_FULLY 0 direct',
    'TRUST_ULTIMATE': b'[GNUPG:] TRUST_ULTIMATE 0 direct',
    'KEY_CONSIDERED': b'[GNUPG:] KEY_CONSIDERED ' + FPR.encode() + b' 0',
    'junk': b'gpg: Signature made Wed Nov  8 09:33:26 2017 UTC',
}
ACCEPTED_LEVELS = ('TRUST_MARGINAL', 'TRUST_FULLY', 'TRUST_ULTIMATE')


def spec_accepts(exit_status, names):
    """the property's acceptance rule, on the kinds gpg printed"""
    return (exit_status == 0 and 'GOODSIG' in names and 'VALIDSIG' in names and 'VALIDSIG-short' not in names
            and any(n in ACCEPTED_LEVELS for n in names)
            and 'EXPKEYSIG' not in names and 'REVKEYSIG' not in names)


class FakePopen:
    """stands in for subprocess.Popen inside gemato.openpgp"""
    script = (0, b'', b'')
    calls = []

    def __init__(self, argv, stdin=None, stdout=None, stderr=None, env=None):
        FakePopen.calls.append((list(argv), dict(env) if env is not None else None))

    def communicate(self, data=None):
        return FakePopen.script[1], FakePopen.script[2]

    def wait(self):
        return FakePopen.script[0]


def impl_verify_status(exit_status, lines, sep=b'\n'):
    import gemato.openpgp as go
    from gemato.exceptions import GematoException
    env = go.SystemGPGEnvironment()
    FakePopen.script = (exit_status, sep.join(lines) + (sep if lines else b''), b'stderr text')
    orig = go.subprocess.Popen
    go.subprocess.Popen = FakePopen
    try:
        d = env.verify_file(io.StringIO('signed text'))
        return {'ok': [cps(d.fingerprint), cps(d.primary_key_fingerprint)]}
    except GematoException as e:
        return {'err': type(e).__name__}
    except Exception as e:
        return {'err': 'exc:' + type(e).__name__}
    finally:
        go.subprocess.Popen = orig


def model_verify_status(drv, exit_status, lines):
    rep = drv.ask({'op': 'verify_status', 'exit': exit_status, 'lines': [list(l) for l in lines]})['model']
    if 'ok' in rep:
        return {'ok': [rep['ok'][0], rep['ok'][3]]}
    if rep['err'] == 'AssertionError':
        return {'err': 'exc:AssertionError'}
    return rep


def status_case(ctx, drv, exit_status, names, label, lines=None):
    lines = lines if lines is not None else [VOCAB[n] for n in names]
    impl = impl_verify_status(exit_status, lines)
    model = model_verify_status(drv, exit_status, lines)
    scen = {'op': 'verify_status', 'exit': exit_status, 'names': list(names), 'lines': [list(l) for l in lines]}
    ctx.count('stream:' + label)
    ctx.count('impl:' + ('accepted' if 'ok' in impl else impl['err']))
    ctx.case(scen, True, {'exit': exit_status, 'status': list(names), 'impl': impl if 'err' in impl else 'accepted'})
    sa = spec_accepts(exit_status, names)
    if 'ok' in impl and not sa:
        ctx.fail('accepted-without-meeting-the-rule', scen, '')
    elif 'ok' not in impl and sa:
        ctx.fail('rejected-although-good-valid-trusted', scen, impl['err'])
    elif 'err' in impl and impl['err'].startswith('exc:') and 'VALIDSIG-short' not in names:
        ctx.fail('internal-error', scen, impl['err'])
    if impl != model:
        ctx.disagree('verify_status', scen, impl, model)


# ---- real gpg ---------------------------------------------------------------------

def test_constants():
    """string constants of the suite's OpenPGP tests (signed manifests, composed keys)"""
    import ast
    src = open(os.path.join(common.REPO, 'tests', 'test_openpgp.py'), encoding='utf8').read()
    ns = {k: getattr(keydata, k) for k in dir(keydata) if k.isupper()}
    for node in ast.parse(src).body:
        if isinstance(node, ast.Assign) and isinstance(node.targets[0], ast.Name) and node.targets[0].id.isupper():
            try:
                ns[node.targets[0].id] = eval(compile(ast.Expression(node.value), 'x', 'eval'), {}, ns)
            except Exception:
                pass
    return ns


class RecEnv:
    """IsolatedGPGEnvironment recording every spawn (argv, env handed to gpg, exit, stdout)"""
    def __new__(cls):
        import gemato.openpgp as go

        class _E(go.IsolatedGPGEnvironment):
            __slots__ = ['log']
        e = _E()
        e.log = []
        return e


def with_recording(fn):
    """run fn() with subprocess.Popen (as seen by gemato.openpgp) recording env and outputs"""
    import gemato.openpgp as go
    rec = []
    real = subprocess.Popen

    class P(real):
        def __init__(self, argv, **kw):
            self._rec = {'argv': list(argv), 'env': dict(kw.get('env') or {})}
            rec.append(self._rec)
            super().__init__(argv, **kw)

        def communicate(self, *a, **kw):
            out, err = super().communicate(*a, **kw)
            self._rec['out'] = out
            self._rec['exit'] = self.returncode
            return out, err
    go.subprocess.Popen = P
    try:
        try:
            r = fn()
            return ('ok', r), rec
        except Exception as e:
            return ('err', e), rec
    finally:
        go.subprocess.Popen = real


def key_env(keybytes, ownertrust):
    """isolated environment holding `keybytes` with the given owner-trust (None = as import_key does it)"""
    import gemato.openpgp as go
    env = go.IsolatedGPGEnvironment()
    if ownertrust is None:
        env.import_key(io.BytesIO(keybytes))
    else:
        env.import_key(io.BytesIO(keybytes), trust=False)
        if ownertrust != 'none':
            env._spawn_gpg([go.GNUPG, '--batch', '--import-ownertrust'], f'{FPR}:{ownertrust}:\n'.encode())
    return env


def gpg_verify_case(ctx, drv, env, signed_text, label, expect_reject=False):
    from gemato.exceptions import GematoException
    (st, val), rec = with_recording(lambda: env.verify_file(io.StringIO(signed_text)))
    vrec = [r for r in rec if '--verify' in r['argv']]
    scen = {'op': 'gpg_verify', 'label': label}
    ctx.count('gpg:' + label.split('/')[0])
    ctx.traces += 1
    if not vrec:
        ctx.fail('no-gpg-verify-spawned', scen, '')
        return None
    r = vrec[-1]
    lines = (r.get('out') or b'').splitlines()
    names = []
    for l in lines:
        nm = 'junk'
        for k, v in VOCAB.items():
            key = v.split(b' ')[1] if v.startswith(b'[GNUPG:]') else None
            if key and l.startswith(b'[GNUPG:] ' + key + b' ') or l == b'[GNUPG:] ' + (key or b'\0'):
                nm = k.replace('-short', '')
                if nm == 'VALIDSIG' and len(l.split(b' ')) < 12:
                    nm = 'VALIDSIG-short'
                break
        names.append(nm)
    if st == 'ok':
        impl = {'ok': [cps(val.fingerprint), cps(val.primary_key_fingerprint)]}
    elif isinstance(val, GematoException):
        impl = {'err': type(val).__name__}
    else:
        impl = {'err': 'exc:' + type(val).__name__}
    model = model_verify_status(drv, r['exit'], lines)
    scen.update({'exit': r['exit'], 'status': names, 'lines': [list(l) for l in lines]})
    ctx.case(json.dumps([label, names, r['exit']]), True, {'label': label, 'gpg_exit': r['exit'], 'gpg_status': names,
                                                           'impl': 'accepted' if 'ok' in impl else impl['err']})
    sa = spec_accepts(r['exit'], names)
    if 'ok' in impl and not sa:
        ctx.fail('accepted-without-meeting-the-rule', scen, '')
    elif 'ok' not in impl and sa:
        ctx.fail('rejected-although-good-valid-trusted', scen, impl['err'])
    if expect_reject and 'ok' in impl:
        ctx.fail('accepted-' + label.split('/')[0], scen, '')
    if impl != model:
        ctx.disagree('verify_status(real gpg output)', scen, impl, model)
    # isolation: the environment handed to every gpg start names the private home
    for rr in rec:
        if rr['env'].get('GNUPGHOME') != env._home:
            ctx.fail('gpg-started-outside-the-isolated-home', scen, str(rr['argv']))
    return impl


def real_gpg(ctx, drv):
    K = test_constants()
    signed = K['SIGNED_MANIFEST']
    states = [
        ('valid-key/import_key-default', K['VALID_PUBLIC_KEY'], None, False),
        ('expired-key', K['EXPIRED_PUBLIC_KEY'], None, True),
        ('revoked-key', K['REVOKED_PUBLIC_KEY'], None, True),
        ('unknown-signer(other key only)', K['OTHER_VALID_PUBLIC_KEY'] if 'OTHER_VALID_PUBLIC_KEY' in K
         else keydata.OTHER_PUBLIC_KEY + keydata.OTHER_PUBLIC_KEY_UID + keydata.OTHER_PUBLIC_KEY_SIG, None, True),
        ('no-key-at-all', None, None, True),
    ]
    for lvl, rej in (('none', True), (2, True), (3, True), (4, False), (5, False), (6, False)):
        states.append((f'ownertrust/{lvl}', K['VALID_PUBLIC_KEY'], lvl, rej))
    verdicts = {}
    for label, key, ot, expect_reject in states:
        import gemato.openpgp as go
        env = None
        try:
            if key is None:
                env = go.IsolatedGPGEnvironment()
            else:
                env = key_env(key, ot)
            impl = gpg_verify_case(ctx, drv, env, signed, label, expect_reject)
            verdicts[label] = impl is not None and 'ok' in impl
            if label.startswith('valid-key') and ctx.tier:
                byte_mutations(ctx, drv, env, signed)
        finally:
            if env is not None:
                env.close()
    # monotone in validity: undefined/never < marginal < full < ultimate
    order = ['ownertrust/2', 'ownertrust/3', 'ownertrust/4', 'ownertrust/5', 'ownertrust/6']
    ranks = [0, 0, 1, 2, 3]
    for i, a in enumerate(order):
        for j, b in enumerate(order):
            if ranks[i] <= ranks[j] and verdicts.get(a) and not verdicts.get(b):
                ctx.fail('acceptance-not-monotone-in-validity', {'op': 'gpg_verify', 'label': f'{a} accepted, {b} rejected'}, '')
    if 'SUBKEY_SIGNED_MANIFEST' in K:
        for label, key, rej in (('subkey-with-binding', K.get('VALID_KEY_SUBKEY'), False),
                                ('subkey-without-binding', K.get('VALID_PUBLIC_KEY'), True)):
            if key is None:
                continue
            env = key_env(key, None)
            try:
                gpg_verify_case(ctx, drv, env, K['SUBKEY_SIGNED_MANIFEST'], label, rej)
            finally:
                env.close()
    return K


def byte_mutations(ctx, drv, env, signed):
    """changing any signed byte (other than trailing whitespace) must cause rejection"""
    lines = signed.split('\n')
    b = lines.index('-----BEGIN PGP SIGNED MESSAGE-----')
    e = lines.index('-----BEGIN PGP SIGNATURE-----')
    body_start = lines.index('', b) + 1
    offs = []
    pos = 0
    for i, ln in enumerate(lines):
        if body_start <= i < e:
            offs += [pos + k for k in range(len(ln))]
        pos += len(ln) + 1
    n = 100 if ctx.tier == 'quick' else len(offs)
    pick = offs if n >= len(offs) else ctx.rng.sample(offs, n)
    for o in pick:
        ch = signed[o]
        new = ctx.rng.choice([c for c in 'aZ09_x' if c != ch])
        if ch == ' ':
            new = '_'
        t = signed[:o] + new + signed[o + 1:]
        gpg_verify_case(ctx, drv, env, t, 'byte-mutation', True)
    ctx.tables['single-byte mutations of the signed cleartext (real gpg)'] = {
        'size': len(pick), 'exhaustive': len(pick) == len(offs), 'ok': True}


def snapshot_dir(d):
    out = {}
    for root, _ds, fs in os.walk(d):
        for f in fs:
            if f.startswith('S.') or f.endswith('.lock') or f == 'random_seed':
                continue
            p = os.path.join(root, f)
            try:
                out[os.path.relpath(p, d)] = hashlib.sha1(open(p, 'rb').read()).hexdigest()
            except OSError:
                pass
    return out


def isolation(ctx, drv, K):
    """the user's own keyring must neither count nor be touched while an isolated environment is in use"""
    import gemato.openpgp as go
    from gemato.exceptions import GematoException
    signed = K['SIGNED_MANIFEST']
    for content in ('empty', 'signer-at-ultimate', 'other-keys'):
        user_home = common.scratch_dir('gv.userhome.')
        os.chmod(user_home, 0o700)
        old = os.environ.get('GNUPGHOME')
        try:
            uenv = dict(os.environ, GNUPGHOME=user_home)
            if content == 'signer-at-ultimate':
                subprocess.run([go.GNUPG, '--batch', '--import'], input=K['VALID_PUBLIC_KEY'], env=uenv, capture_output=True)
                subprocess.run([go.GNUPG, '--batch', '--import-ownertrust'], input=f'{FPR}:6:\n'.encode(), env=uenv, capture_output=True)
            elif content == 'other-keys':
                subprocess.run([go.GNUPG, '--batch', '--import'],
                               input=keydata.OTHER_PUBLIC_KEY + keydata.OTHER_PUBLIC_KEY_UID + keydata.OTHER_PUBLIC_KEY_SIG,
                               env=uenv, capture_output=True)
            subprocess.run([go.GNUPGCONF, '--kill', 'all'], env=uenv, capture_output=True)
            before = snapshot_dir(user_home)
            os.environ['GNUPGHOME'] = user_home
            # (1) isolated env without the signer's key: the user's key must not count
            for proxy in (None, 'http://127.0.0.1:9'):
                # (a proxy setting only adds to the environment of the gpg processes: the private home stays in force)
                env = go.IsolatedGPGEnvironment(proxy=proxy)
                try:
                    impl = gpg_verify_case(ctx, drv, env, signed, f'isolated-empty/user-home={content}/proxy={proxy}', True)
                finally:
                    env.close()
            # (2) isolated env with the signer's key: accepted whatever the user's home holds
            env = key_env(K['VALID_PUBLIC_KEY'], None)
            try:
                impl = gpg_verify_case(ctx, drv, env, signed, f'isolated-with-key/user-home={content}', False)
                if impl is None or 'ok' not in impl:
                    ctx.fail('isolated-key-not-accepted', {'op': 'isolation', 'content': content}, str(impl))
                # model of the environment composition
                caller = [[cps(k), cps(v)] for k, v in os.environ.items() if all(ord(c) < 0x110000 for c in k + v)]
                rep = drv.ask({'op': 'spawn_env', 'caller': caller, 'home': cps(env._home), 'proxy': None})
                if uncps(rep['GNUPGHOME']) != env._home or uncps(rep['TZ']) != 'UTC':
                    ctx.disagree('spawn_env', {'content': content}, env._home, rep)
            finally:
                env.close()
            after = snapshot_dir(user_home)
            if before != after:
                ctx.fail('user-keyring-modified', {'op': 'isolation', 'content': content},
                         str(sorted(set(before.items()) ^ set(after.items()))[:4]))
            ctx.case('isolation/' + content, True, {'user_home': content, 'keyring_files': sorted(before)})
        finally:
            if old is None:
                os.environ.pop('GNUPGHOME', None)
            else:
                os.environ['GNUPGHOME'] = old
            subprocess.run([go.GNUPGCONF, '--kill', 'all'], env=dict(os.environ, GNUPGHOME=user_home), capture_output=True)
            shutil.rmtree(user_home, ignore_errors=True)


def cli_flags(ctx, K):
    """-s / -P / -K combinations through gemato.cli.main"""
    import gemato.cli
    top = common.scratch_dir('gv.cli.')
    logging.disable(logging.CRITICAL)
    try:
        keyfile = os.path.join(top, 'key.bin')
        open(keyfile, 'wb').write(K['VALID_PUBLIC_KEY'])
        otherkey = os.path.join(top, 'other.bin')
        open(otherkey, 'wb').write(keydata.OTHER_PUBLIC_KEY + keydata.OTHER_PUBLIC_KEY_UID + keydata.OTHER_PUBLIC_KEY_SIG)
        signed_ok = '\n'.join(l for l in K['SIGNED_MANIFEST'].split('\n')
                              if not l.startswith(('MANIFEST', 'DATA', 'MISC', '- MANIFEST')))   # placeholder, replaced below
        # a tree whose signed Manifest lists nothing local: sign our own
        env = gpgutil.private_env()
        try:
            good = gpgutil.clearsign(env, 'TIMESTAMP 2017-10-22T18:06:41Z\nIGNORE key.bin\nIGNORE other.bin\nDIST x 0\n')
        finally:
            env.close()
        tampered = good.replace('DIST x 0', 'DIST y 0')
        unsigned = 'IGNORE key.bin\nIGNORE other.bin\nDIST x 0\n'
        combos = []
        for kind, text in (('signed', good), ('tampered', tampered), ('unsigned', unsigned)):
            for s in (False, True):
                for P in (False, True):
                    for K_ in ('signer', 'other'):
                        combos.append((kind, text, s, P, K_))
        for kind, text, s, P, K_ in combos:
            d = os.path.join(top, 'tree')
            os.makedirs(d, exist_ok=True)
            shutil.copy(keyfile, os.path.join(d, 'key.bin'))
            shutil.copy(otherkey, os.path.join(d, 'other.bin'))
            open(os.path.join(d, 'Manifest'), 'w').write(text)
            argv = ['gemato', 'verify', '-R', '-K', keyfile if K_ == 'signer' else otherkey]
            if s:
                argv.append('-s')
            if P:
                argv.append('-P')
            argv.append(d)
            try:
                rc = gemato.cli.main(argv)
            except SystemExit as e:
                rc = e.code
            except Exception as e:
                rc = 'exc:' + type(e).__name__
            # expectation from the property
            sig_accepted = (kind == 'signed' and not P and K_ == 'signer')
            if kind == 'unsigned':
                exp = 1 if s else 0
            elif P:
                exp = 1 if s else 0          # not verified => not reported as signed
            else:
                exp = 0 if sig_accepted else 1
            scen = {'op': 'cli', 'manifest': kind, 'require_signed': s, 'no_verify': P, 'keyfile': K_}
            ctx.count('cli')
            ctx.case(scen, True, dict(scen, exit=rc))
            if rc != exp:
                ctx.fail('cli-exit-status', scen, f'exit {rc}, expected {exp}')
            shutil.rmtree(d)
    finally:
        logging.disable(logging.NOTSET)
        shutil.rmtree(top, ignore_errors=True)


def run(ctx):
    ctx.rule = ('status sequences: all sequences up to a length bound over gpg\'s status vocabulary x exit {0,1,2} through a fake '
                'Popen (the real _spawn_gpg logic runs); real gpg 2.2.40: key states (valid, expired, revoked, unknown signer, no key, '
                'owner-trust none/2..6, subkey with/without binding), single-byte mutations of the signed cleartext, user GNUPGHOME '
                'contents while an isolated environment is in use, CLI -s/-P/-K combinations; one ManifestFile object loaded several times '
                '(a rejected signature after an accepted one). non-trivial = every distinct scenario')
    ctx.assumptions = ['gpg: that it exits non-zero / omits GOODSIG on a changed signed byte, and maps owner-trust to validity under '
                       'trust-model direct, is exercised with the installed gpg, not proved']
    drv = common.Driver()
    try:
        corpus_dir = os.path.join(common.VERIF, 'corpus', 'C05')
        if os.path.isdir(corpus_dir):
            for fn in sorted(os.listdir(corpus_dir)):
                sc = json.load(open(os.path.join(corpus_dir, fn)))['scenario']
                if sc['op'] == 'verify_status':
                    status_case(ctx, drv, sc['exit'], sc['names'], 'corpus')
        names = list(VOCAB)
        maxlen = 3 if ctx.tier == 'quick' else 4
        n = 0
        for k in range(0, maxlen + 1):
            for combo in itertools.product(names, repeat=k):
                for ex in (0, 1, 2):
                    status_case(ctx, drv, ex, combo, 'exhaustive')
                    n += 1
        ctx.tables[f'status sequences (len<={maxlen}, {len(names)} line kinds, exit 0/1/2)'] = {'size': n, 'exhaustive': True, 'ok': True}
        # a rejected signature must not leave the object "signed" from an earlier, accepted load (one ManifestFile object reused)
        from harness.props import c04
        for i in range(300 if ctx.tier == 'quick' else 5000):
            c04.reuse_case(ctx)
        for i in range(3000 if ctx.tier == 'quick' else 100000):
            k = ctx.rng.randint(maxlen + 1, 9)
            base = ['NEWSIG', 'KEY_CONSIDERED', 'GOODSIG', 'VALIDSIG', ctx.rng.choice(names[9:14])]
            combo = base + [ctx.rng.choice(names) for _ in range(k - 5)] if ctx.rng.random() < 0.7 else \
                [ctx.rng.choice(names) for _ in range(k)]
            ctx.rng.shuffle(combo)
            status_case(ctx, drv, ctx.rng.choice([0, 0, 0, 1, 2]), combo, 'random-long')
        # line-splitting of gpg's output and odd lines
        for sep in (b'\n', b'\r\n'):
            lines = [VOCAB['GOODSIG'], VOCAB['VALIDSIG'], VOCAB['TRUST_ULTIMATE']]
            impl = impl_verify_status(0, lines, sep)
            if 'ok' not in impl:
                ctx.fail('rejected-although-good-valid-trusted', {'op': 'verify_status', 'sep': list(sep)}, str(impl))
            ctx.case('sep' + repr(sep), True)
        K = real_gpg(ctx, drv)
        isolation(ctx, drv, K)
        cli_flags(ctx, K)
    finally:
        drv.close()


def replay(ctx, path):
    sc = json.load(open(path))['scenario']
    drv = common.Driver()
    try:
        if sc['op'] == 'verify_status':
            status_case(ctx, drv, sc['exit'], sc['names'], 'replay', [bytes(l) for l in sc['lines']])
        elif sc['op'] == 'gpg_verify':
            K = real_gpg(ctx, drv)
        elif sc['op'] == 'isolation':
            isolation(ctx, drv, test_constants())
        else:
            cli_flags(ctx, test_constants())
    finally:
        drv.close()
    for f in ctx.failures:
        print(f['kind'], json.dumps(f['scenario'])[:300], f['detail'][:200])
    if ctx.failures:
        print(f'VIOLATION property={ctx.prop} replay={path}')
        return 1
    return 0
