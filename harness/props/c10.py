"""C10 — update never touches what it does not own."""
import json
import os

from harness import common, gen_tree, trees, treeimpl, updimpl
from harness.common import cps, uncps
from harness.props.c01 import all_texts
from harness.props import c03

BRIDGE = ('Gemato.Bridge.Tree', 'Gemato.Bridge.SrcUpdate', 'Gemato.Bridge.SrcVerify', 'Gemato.Bridge.SrcLoader', 'Gemato.Bridge.SrcText', 'Gemato.Bridge.SrcCodec', 'Gemato.Bridge.SrcProfile', 'Gemato.Bridge.SrcCli')
PROPS = ['Gemato.Props.C10', 'Gemato.Props.C10b', 'Gemato.Props.C10c']


def manifest_lines(root):
    """per Manifest file: multiset of DIST / TIMESTAMP lines, full paths IGNOREd, (full path -> tags) of file entries,
    and (full path, line) of every file entry"""
    out = {}
    for dp, dn, fn in os.walk(root):
        for f in fn:
            if not f.startswith('Manifest'):
                continue
            p = os.path.join(dp, f)
            rel = os.path.relpath(p, root)
            try:
                m = updimpl.read_manifest(p)
            except Exception:
                continue
            d = os.path.dirname(rel)
            keep = sorted(' '.join(e.to_list()) for e in m.entries if e.tag in ('DIST', 'TIMESTAMP'))
            ign = sorted(os.path.normpath(os.path.join(d, e.path)) for e in m.entries if e.tag == 'IGNORE')
            tags = {}
            lines = []
            for e in m.entries:
                if e.tag in ('DATA', 'MISC', 'EBUILD', 'AUX', 'MANIFEST'):
                    full = os.path.normpath(os.path.join(d, e.path))
                    tags.setdefault(full, set()).add(e.tag)
                    lines.append((full, e.tag, ' '.join(e.to_list())))
            out[rel] = (keep, tags, lines, ign)
    return out


def check_preserved(ctx, scen, root, lines_before, path):
    lines_after = manifest_lines(root)
    ign_before = set(i for v in lines_before.values() for i in v[3])
    ign_after = set(i for v in lines_after.values() for i in v[3])
    if not ign_before <= ign_after:
        ctx.fail('ignore-entries-lost', scen, str(sorted(ign_before - ign_after)))
    for mp, (keep, tags, lines, _ign) in lines_before.items():
        if mp not in lines_after:
            continue
        keep2, tags2, lines2, _ign2 = lines_after[mp]
        if keep != keep2:
            ctx.fail('dist-timestamp-entries-changed', dict(scen, manifest=mp), f'{keep} -> {keep2}')
        for fp, tg in tags.items():
            if fp in tags2 and not (tags2[fp] <= tg) and os.path.isfile(os.path.join(root, fp)):
                ctx.fail('entry-type-changed', dict(scen, manifest=mp), f'{fp}: {tg} -> {tags2[fp]}')
        # entries for paths outside the updated directory stay as they are (MANIFEST entries on the chain excepted)
        if path:
            after_lines = set(l for _f, _t, l in lines2)
            for full, tag, ln in lines:
                if tag != 'MANIFEST' and not updimpl.starts_with(full, path) and ln not in after_lines:
                    ctx.fail('out-of-scope-entry-changed', dict(scen, manifest=mp), ln[:200])


def twin_case(ctx, drv):
    """entries the update does not own that share a name with something it does own: a DIST entry named like a listed
    local file (a stray copy of a distfile that was manifested once), an IGNOREd name next to a look-alike, in the top-level
    Manifest and in a sub-Manifest; the local file is kept, changed or deleted; whole-tree and sub-directory update"""
    rng = ctx.rng
    root = common.scratch_dir('gv.c10t.')
    try:
        from harness.trees import entry_line, digests_of
        names = rng.sample(['foo-1.0.tar.gz', 'x', 'data.txt', 'a.b'], 2)
        files = {}
        sub = rng.choice(['cat/pkg', 'sub'])
        for d in ('', sub):
            for nm in names:
                files[os.path.join(d, nm) if d else nm] = os.urandom(rng.randint(1, 9))
            files[os.path.join(d, 'keep.ebuild') if d else 'keep.ebuild'] = b'EAPI=8'
        for p, data in files.items():
            os.makedirs(os.path.dirname(os.path.join(root, p)) or root, exist_ok=True)
            open(os.path.join(root, p), 'wb').write(data)
        os.makedirs(os.path.join(root, 'ignored-dir'), exist_ok=True)
        open(os.path.join(root, 'ignored-dir', 'f'), 'wb').write(b'i')
        open(os.path.join(root, 'ignored-dir2'), 'wb').write(b'lookalike')

        def lines_for(d):
            out = []
            for nm in names:
                data = files[os.path.join(d, nm) if d else nm]
                out.append(entry_line(rng.choice(['DATA', 'MISC']), nm, len(data), digests_of(data, ['SHA1'])))
                out.append(entry_line('DIST', nm, rng.randint(1, 99), {'SHA1': 'ab' * 20}))
            data = files[os.path.join(d, 'keep.ebuild') if d else 'keep.ebuild']
            out.append(entry_line('EBUILD', 'keep.ebuild', len(data), digests_of(data, ['SHA1'])))
            out.append(entry_line('DIST', 'never-local.tar', 5, {'SHA1': 'cd' * 20}))
            rng.shuffle(out)
            return out
        subtext = ''.join(l + '\n' for l in lines_for(sub))
        open(os.path.join(root, sub, 'Manifest'), 'w').write(subtext)
        top = lines_for('') + [entry_line('IGNORE', 'ignored-dir'), 'TIMESTAMP 2020-01-01T00:00:00Z',
                               entry_line('DATA', 'ignored-dir2', 9, digests_of(b'lookalike', ['SHA1'])),
                               entry_line('MANIFEST', sub + '/Manifest', len(subtext), digests_of(subtext.encode(), ['SHA1']))]
        rng.shuffle(top)
        open(os.path.join(root, 'Manifest'), 'w').write(''.join(l + '\n' for l in top))
        # what happens to the local copies
        for p in sorted(files):
            k = rng.choice(['keep', 'keep', 'change', 'delete'])
            if os.path.basename(p) in names and k != 'keep':
                if k == 'change':
                    open(os.path.join(root, p), 'ab').write(b'+')
                else:
                    os.unlink(os.path.join(root, p))
        path = rng.choice(['', sub, sub.split('/')[0]])
        hashes = rng.choice([['SHA1'], ['MD5', 'SHA256']])
        before = updimpl.snapshot(root)
        lines_before = manifest_lines(root)
        world = trees.world_of(root, set(hashes) | {'SHA1'})
        o = {'hashes': hashes, 'sort': rng.random() < 0.5}
        out, eff = updimpl.run_update(root, 'Manifest', path, o)
        after = updimpl.snapshot(root)
        model, req = c03.model_update(drv, root, 'Manifest', path, o, eff, world)
        scen = {'op': 'update-save-twins', 'request': req, 'path': path, 'hashes': hashes}
        ctx.count('op:twins')
        ctx.case(json.dumps(req, sort_keys=True)[:100000], True, {'op': 'twins', 'path': path, 'names': names, 'outcome': out})
        if model.get('err') != 'abstain':
            c03.compare_with_disk(ctx, scen, root, before, after, model, out)
        foreign = [p for p in set(before) | set(after) if before.get(p) != after.get(p) and not os.path.basename(p).startswith('Manifest')]
        if foreign:
            ctx.fail('non-manifest-file-touched', scen, str(foreign))
        if 'ok' in out:
            check_preserved(ctx, scen, root, lines_before, path)
    finally:
        trees.rmtree(root)


def one_case(ctx, drv):
    rng = ctx.rng
    root = common.scratch_dir('gv.c10.')
    try:
        pl = gen_tree.gen_plan(rng, depth=rng.choice([1, 2, 3]), hostile=rng.random() < 0.4, max_files=4)
        pl.no_conflicts = True
        gen_tree.layout(pl, rng, p_dup=0.05, p_second=0.0)
        gen_tree.write_plan(pl, root)
        for _ in range(rng.randint(0, 3)):
            gen_tree.mutate_tree(pl, rng, root)
        dirs = sorted(d for d in pl.dirs if os.path.isdir(os.path.join(root, d)) and not gen_tree.is_hidden_path(d))
        hashes = rng.choice(c03.HASHSETS)
        # a sequence of operations on one loader / fresh loaders; the tree is snapshotted around each
        for step in range(rng.randint(2, 5)):
            op = rng.choice(['verify', 'lookup', 'update-no-save', 'update-save', 'update-save-sub', 'update-failing'])
            before = updimpl.snapshot(root)
            lines_before = manifest_lines(root)
            path = ''
            scen = {'op': op, 'step': step, 'hashes': hashes}
            out = None
            if op == 'verify':
                out = treeimpl.verify_dir(root, pl.top, '', treeimpl.Recorder(True))
            elif op == 'lookup':
                files = sorted(pl.files) or ['x']
                out = treeimpl.lookup(root, pl.top, rng.choice(['find_path_entry', 'verify_path', 'assert_path_verifies']), rng.choice(files))
            elif op == 'update-no-save':
                out, eff = updimpl.run_update(root, pl.top, '', {'hashes': hashes}, do_save=False)
            elif op == 'update-failing':
                # a FIFO in place of a listed file makes the scan fail part-way; nothing may have been written
                lf = [p for p in gen_tree.listed_files(pl) if os.path.isfile(os.path.join(root, p)) and not os.path.basename(p).startswith('Manifest')]
                if not lf:
                    continue
                victim = rng.choice(lf)
                data = open(os.path.join(root, victim), 'rb').read()
                os.unlink(os.path.join(root, victim))
                os.mkfifo(os.path.join(root, victim))
                before = updimpl.snapshot(root)
                out, eff = updimpl.run_update(root, pl.top, '', {'hashes': hashes})
                after_fail = updimpl.snapshot(root)
                os.unlink(os.path.join(root, victim))
                open(os.path.join(root, victim), 'wb').write(data)
                if 'ok' in out:
                    ctx.count('failing-update-did-not-fail')
                elif before != after_fail:
                    ctx.fail('failed-update-wrote-something', dict(scen, victim=victim),
                             str(sorted(p for p in set(before) | set(after_fail) if before.get(p) != after_fail.get(p))))
                ctx.case(json.dumps([scen, victim]), True, dict(scen, outcome=out))
                continue
            else:
                path = '' if op == 'update-save' or not dirs else rng.choice(dirs)
                texts = all_texts(root)
                world = trees.world_of(root, set(hashes) | set(trees.hash_names_in(texts)))
                o = {'hashes': hashes}
                out, eff = updimpl.run_update(root, pl.top, path, o)
                after = updimpl.snapshot(root)
                model, req = c03.model_update(drv, root, pl.top, path, o, eff, world)
                scen['request'] = req
                if model.get('err') != 'abstain':
                    c03.compare_with_disk(ctx, scen, root, before, after, model, out)
            after = updimpl.snapshot(root)
            changed = sorted(p for p in set(before) | set(after) if before.get(p) != after.get(p))
            ctx.count('op:' + op)
            ctx.case(json.dumps([scen.get('op'), step, changed, sorted(before)])[:5000], True,
                     {'op': op, 'path': path, 'changed_files': changed, 'outcome': out if 'err' in (out or {}) else 'ok'})
            if treeimpl.is_internal(out or {}):
                ctx.count('internal-error(out of scope here, see C18)')
            # (1) nothing but Manifest files is ever modified, created or deleted
            foreign = [p for p in changed if not os.path.basename(p).startswith('Manifest')]
            if foreign:
                ctx.fail('non-manifest-file-touched', scen, str(foreign))
            # (2) nothing at all is written before the save step, nor by verification / lookups
            if op in ('verify', 'lookup', 'update-no-save') and changed:
                ctx.fail('written-without-save', scen, str(changed))
            # (3) preserved entries
            if op.startswith('update-save') and out and 'ok' in out:
                check_preserved(ctx, scen, root, lines_before, path)
    finally:
        trees.rmtree(root)


def same_loader_case(ctx, drv):
    """verification and lookups first, then an update of a sub-directory and save - all on ONE loader object (what a
    long-running caller does): reading must not have changed any entry object, so what the save writes for paths outside the
    updated directory is what was there"""
    rng = ctx.rng
    root = common.scratch_dir('gv.c10s.')
    try:
        pl = gen_tree.gen_plan(rng, depth=rng.choice([2, 3]), hostile=rng.random() < 0.3, max_files=4)
        pl.no_conflicts = True
        gen_tree.layout(pl, rng, p_dup=0.5, p_second=0.0, p_sub=0.5)
        gen_tree.write_plan(pl, root)
        dirs = sorted(d for d in pl.dirs if d and os.path.isdir(os.path.join(root, d)) and not gen_tree.is_hidden_path(d)
                      and not any(d == i or d.startswith(i + '/') for i in pl.ignored))
        if not dirs:
            return
        sub = rng.choice(dirs)
        # something to do below `sub`, so that Manifests get rewritten
        open(os.path.join(root, sub, 'added-%d' % rng.randint(0, 9)), 'wb').write(b'new file')
        hashes = rng.choice(c03.HASHSETS)
        before = updimpl.snapshot(root)
        lines_before = manifest_lines(root)
        reads = []
        try:
            with treeimpl.time_limit(20):
                l = updimpl.make_loader(root, pl.top, {'hashes': hashes})
                for _ in range(rng.randint(1, 3)):
                    what = rng.choice(['verify', 'verify', 'entry-dict', 'find'])
                    reads.append(what)
                    try:
                        if what == 'verify':
                            l.assert_directory_verifies(rng.choice(['', sub]), fail_handler=lambda e: True)
                        elif what == 'entry-dict':
                            l.get_file_entry_dict(rng.choice(['', sub]))
                        else:
                            l.find_path_entry(rng.choice(sorted(pl.files) or ['x']))
                    except Exception:
                        pass
                l.update_entries_for_directory(sub)
                l.save_manifests()
                out = {'ok': True}
        except Exception as e:
            out = treeimpl.classify(e)
        after = updimpl.snapshot(root)
        scen = {'op': 'read-then-update-on-one-loader', 'reads': reads, 'path': sub, 'hashes': hashes, 'manifests': sorted(pl.manifests)}
        ctx.count('op:read-then-update-on-one-loader')
        changed = sorted(p for p in set(before) | set(after) if before.get(p) != after.get(p))
        ctx.case(json.dumps([scen, sorted(before)])[:5000], True, dict(scen, changed_files=changed, outcome=out if 'err' in out else 'ok'))
        foreign = [p for p in changed if not os.path.basename(p).startswith('Manifest')]
        if foreign:
            ctx.fail('non-manifest-file-touched', scen, str(foreign))
        if 'ok' in out:
            check_preserved(ctx, scen, root, lines_before, sub)
    finally:
        trees.rmtree(root)


def cli_subdir_case(ctx):
    """`gemato update <root>/<dir>` through the command line, for ordinary and for dot-directories: whatever lies outside the
    directory asked for - the TIMESTAMP included - stays as it is"""
    import logging
    import gemato.cli
    rng = ctx.rng
    root = common.scratch_dir('gv.c10cli.')
    try:
        sub = rng.choice(['.config', '.x', 'conf', 'sub dir', '..data', '.'])
        names = ['other', 'zz']
        for d in names + ([sub] if sub != '.' else []):
            os.makedirs(os.path.join(root, d), exist_ok=True)
        open(os.path.join(root, 'a'), 'wb').write(b'a')
        open(os.path.join(root, 'other', 'changed'), 'wb').write(b'one')
        open(os.path.join(root, 'other', 'gone'), 'wb').write(b'gone')
        open(os.path.join(root, 'zz', 'same'), 'wb').write(b'same')
        if sub != '.':
            open(os.path.join(root, sub, 'inside'), 'wb').write(b'inside')

        def main(argv):
            logging.disable(logging.CRITICAL)
            try:
                with treeimpl.time_limit(30):
                    return gemato.cli.main(['gemato'] + argv)
            except SystemExit as e:
                return e.code
            except Exception as e:
                return 'exc:' + type(e).__name__
            finally:
                logging.disable(logging.NOTSET)
        rc0 = main(['create', '-t', '-H', 'SHA1', root])
        if rc0 != 0:
            ctx.count('cli-subdir:create-failed')
            return
        # the rest of the tree goes stale meanwhile
        open(os.path.join(root, 'other', 'changed'), 'wb').write(b'two!')
        os.unlink(os.path.join(root, 'other', 'gone'))
        open(os.path.join(root, 'other', 'new'), 'wb').write(b'new')
        if sub != '.':
            open(os.path.join(root, sub, 'inside'), 'ab').write(b'+')
        before = updimpl.snapshot(root)
        lines_before = manifest_lines(root)
        rc = main(['update', '-H', 'SHA1', os.path.join(root, sub)])
        after = updimpl.snapshot(root)
        scen = {'op': 'cli-update-of-a-sub-directory', 'directory': sub, 'exit': rc}
        ctx.count('op:cli-update-of-a-sub-directory')
        changed = sorted(p for p in set(before) | set(after) if before.get(p) != after.get(p))
        ctx.case(json.dumps([scen]), True, dict(scen, changed_files=changed))
        foreign = [p for p in changed if not os.path.basename(p).startswith('Manifest')]
        if foreign:
            ctx.fail('non-manifest-file-touched', scen, str(foreign))
        if rc == 0 and sub != '.':
            check_preserved(ctx, scen, root, lines_before, os.path.normpath(sub))
    finally:
        trees.rmtree(root)


def path_case(ctx, drv, judge_internal=False, label='update-entry-for-path'):
    """ManifestRecursiveLoader.update_entry_for_path(path, new_entry_type, hashes) + save_manifests: the single-path update of
    the library API, on a path listed once, several times (in one Manifest and across Manifests), listed but gone, or not
    listed yet; DIST / IGNORE / TIMESTAMP lines and entries of other paths all around the duplicates"""
    rng = ctx.rng
    root = common.scratch_dir('gv.c10p.')
    try:
        pl = gen_tree.gen_plan(rng, depth=rng.choice([1, 2, 3]), hostile=rng.random() < 0.3, max_files=4)
        pl.no_conflicts = True
        gen_tree.layout(pl, rng, p_dup=0.3, p_second=0.0, p_ignore=0.05)
        cands = [(mp, e) for mp, es in sorted(pl.manifests.items()) for e in es
                 if e['tag'] in ('DATA', 'MISC', 'EBUILD') and not e.get('dup') and not gen_tree.is_hidden_path(e['target'])]
        kind = rng.choice(['listed', 'listed', 'listed-many', 'listed-many', 'listed-many-gone', 'listed-gone', 'unlisted', 'unlisted-gone'])
        if not cands and kind.startswith('listed'):
            kind = 'unlisted'
        target = None
        if kind.startswith('listed'):
            mp, e = rng.choice(cands)
            target = e['target']
            if 'many' in kind:
                for _ in range(rng.randint(1, 3)):
                    e2 = dict(e, dup=rng.choice(['same', 'same', 'other-hashes']))
                    if e2['dup'] == 'other-hashes':
                        e2['hashes'] = rng.choice(gen_tree.HASHSETS)
                    pl.manifests[mp].insert(rng.randint(0, len(pl.manifests[mp])), e2)
            # lines that are not the path's all around (what an off-by-one in the removal would hit)
            for _ in range(rng.randint(0, 3)):
                pl.manifests[mp].insert(rng.randint(0, len(pl.manifests[mp])),
                                        {'tag': 'DIST', 'path': 'd%d.tar' % rng.randint(0, 99), 'size': rng.randint(0, 9), 'cks': {'MD5': 'aa'}})
        gen_tree.write_plan(pl, root)
        if kind.startswith('unlisted'):
            dirs = sorted(d for d in pl.dirs | {''} if os.path.isdir(os.path.join(root, d)) and not gen_tree.is_hidden_path(d)
                          and not any(d == i or d.startswith(i + '/') for i in pl.ignored))
            d = rng.choice(dirs)
            target = os.path.join(d, 'fresh-%d' % rng.randint(0, 9)) if d else 'fresh-%d' % rng.randint(0, 9)
            if kind == 'unlisted' and not os.path.lexists(os.path.join(root, target)):
                open(os.path.join(root, target), 'wb').write(b'fresh content')
        elif kind.endswith('gone'):
            if os.path.isfile(os.path.join(root, target)):
                os.unlink(os.path.join(root, target))
        elif rng.random() < 0.7 and os.path.isfile(os.path.join(root, target)):
            open(os.path.join(root, target), 'ab').write(b'+edited')
        if any(target == i or target.startswith(i + '/') for i in pl.ignored):
            ctx.count(label + ':skipped (the path is covered by IGNORE: outside the API contract)')
            return
        lhashes = rng.choice(c03.HASHSETS)
        ehashes = rng.choice([None, None, ['SHA1'], ['MD5', 'SHA256']])
        new_type = rng.choice(['DATA', 'DATA', 'MISC', 'EBUILD'])
        o = {'hashes': lhashes}
        texts = all_texts(root)
        eff_h = ehashes if ehashes is not None else lhashes
        world = trees.world_of(root, set(lhashes) | set(eff_h) | set(trees.hash_names_in(texts)))
        before = updimpl.snapshot(root)
        lines_before = manifest_lines(root)
        eff = {}
        try:
            with treeimpl.time_limit(10):
                l = updimpl.make_loader(root, pl.top, o)
                eff = {'hashes': l.hashes, 'sort': bool(l.sort), 'watermark': l.compress_watermark, 'format': l.compress_format}
                l.update_entry_for_path(target, new_entry_type=new_type, hashes=ehashes)
                l.save_manifests()
                impl = {'ok': True, 'top': l.top_level_manifest_filename}
        except Exception as e:
            impl = treeimpl.classify(e)
        after = updimpl.snapshot(root)
        names = set(lhashes) | set(eff_h)
        post = updimpl.post_table(root, sorted(names | set(trees.hash_names_in(all_texts(root)))))
        req = {'op': 'update_path', 'world': world, 'top': cps(pl.top), 'path': cps(target), 'create': False, 'xdev': True,
               'hashes': [cps(h) for h in lhashes], 'profile': 'default', 'last_mtime': None,
               'save': {'force': False, 'sort': False, 'watermark': None, 'format': cps('gz')}, 'post': post, 'do_save': True,
               'new_type': new_type, 'entry_hashes': [cps(h) for h in eff_h]}
        model = drv.ask(req)['model']
        scen = {'op': 'update_entry_for_path', 'request': req, 'path': target, 'kind': kind, 'new_type': new_type,
                'entry_hashes': ehashes, 'loader_hashes': lhashes}
        ctx.count('stream:' + label)
        ctx.count(label + ':' + kind)
        ctx.count(label + ':impl:' + ('ok' if 'ok' in impl else impl['err']))
        ctx.case(json.dumps(req, sort_keys=True)[:100000], True, {'path': target, 'kind': kind, 'impl': impl})
        if model.get('err') != 'abstain':
            c03.compare_with_disk(ctx, scen, root, before, after, model, impl)
        if treeimpl.is_internal(impl):
            if judge_internal:
                ctx.fail('internal-error', scen, impl['err'])
            else:
                ctx.count('internal-error(out of scope here, see C18)')
        if judge_internal:
            return                      # C18 asks only how the call ends; what it may touch is C10's question
        changed = sorted(p for p in set(before) | set(after) if before.get(p) != after.get(p))
        foreign = [p for p in changed if not os.path.basename(p).startswith('Manifest')]
        if foreign:
            ctx.fail('non-manifest-file-touched', scen, str(foreign))
        if 'ok' not in impl:
            if changed and not treeimpl.is_internal(impl):
                ctx.fail('failed-update-wrote-something', scen, str(changed))
            return
        # preserved: DIST / TIMESTAMP / IGNORE lines, and every entry of every OTHER path, line for line (MANIFEST entries on
        # the chain above the path excepted)
        lines_after = manifest_lines(root)
        for mp, (keep, tags, lines, ign) in lines_before.items():
            if mp not in lines_after:
                ctx.fail('manifest-file-removed', dict(scen, manifest=mp), mp)
                continue
            keep2, tags2, lines2, ign2 = lines_after[mp]
            if keep != keep2:
                ctx.fail('dist-timestamp-entries-changed', dict(scen, manifest=mp), f'{keep} -> {keep2}')
            if ign != ign2:
                ctx.fail('ignore-entries-lost', dict(scen, manifest=mp), f'{ign} -> {ign2}')
            other = sorted(ln for full, tag, ln in lines if full != os.path.normpath(target) and tag != 'MANIFEST')
            other2 = sorted(ln for full, tag, ln in lines2 if full != os.path.normpath(target) and tag != 'MANIFEST')
            if other != other2:
                ctx.fail('out-of-scope-entry-changed', dict(scen, manifest=mp), str(sorted(set(other) ^ set(other2)))[:300])
        # the path itself: one exact entry when the file is there, none when it is gone (C03's statement for one path)
        problems, _ = updimpl.exact_check(root, impl['top'], os.path.dirname(target), eff_h)
        mine = [q for q in problems if q.split(':', 1)[1].split(':')[0].split(' in ')[0] == target]
        if mine:
            ctx.fail('path-not-exact-after-update', scen, '; '.join(mine[:4]))
    finally:
        trees.rmtree(root)


def run(ctx):
    ctx.rule = ('sequences of 2-5 operations (verify, lookups, update without save, update+save whole tree / sub-directory, update '
                'failing part-way on a FIFO) on generated trees with prior Manifest states; around every operation a content+mtime '
                'snapshot of every file. Oracle: only Manifest files change, nothing changes without a save or when the update fails, '
                'DIST/IGNORE/TIMESTAMP entries, entry types and out-of-scope entries are preserved; correspondence with the model '
                'for update+save (every written byte). Reads (verification, entry dicts, lookups) followed by a sub-directory update + save on ONE loader object. Single-path updates (update_entry_for_path + save) on paths listed once / '
                'several times / listed but gone / not listed: same oracle, every line of every other path kept, the path itself exact.')
    ctx.assumptions = ['"nothing else on disk changes" is observed through snapshots of the scratch tree']
    drv = common.Driver()
    try:
        for i in range(600 if ctx.tier == 'quick' else 5000):
            one_case(ctx, drv)
        for i in range(300 if ctx.tier == 'quick' else 3000):
            twin_case(ctx, drv)
        for i in range(500 if ctx.tier == 'quick' else 5000):
            path_case(ctx, drv)
        for i in range(300 if ctx.tier == 'quick' else 3000):
            same_loader_case(ctx, drv)
        for i in range(40 if ctx.tier == 'quick' else 400):
            cli_subdir_case(ctx)
    finally:
        drv.close()


def replay(ctx, path):
    print(json.dumps({k: v for k, v in json.load(open(path))['scenario'].items() if k != 'request'}, indent=1)[:3000])
    return 0
