"""C18 — bad input produces a diagnosed failure, not an internal error.

Everything goes through `gemato.cli.main`, in-process: verify / update (whole tree and sub-directories) / create,
with every profile, on the trees and Manifest texts of the generators of C01, C03, C09 and C19 and their odd
streams. Oracle: the way `main` ends is an exit status, or an OSError of an object that really cannot be accessed;
any other escaping exception is the violation. Correspondence: the ending vs the Lean model's `Cli.Exit`
(`verifyMain`, `updateMain`), whose verify half is proved never to be a traceback (Props/C18)."""
import errno
import json
import logging
import os
import sys

from harness import common, gen_tree, gen_text, trees, treeimpl, updimpl
from harness.common import cps, uncps
from harness.props.c01 import all_texts
from harness.props import c03, c10, c19

BRIDGE = ('Gemato.Bridge.Cli', 'Gemato.Bridge.SrcCli', 'Gemato.Bridge.SrcText', 'Gemato.Bridge.SrcVerify', 'Gemato.Bridge.SrcLoader', 'Gemato.Bridge.SrcWalk', 'Gemato.Bridge.SrcUpdate', 'Gemato.Bridge.SrcCodec', 'Gemato.Bridge.SrcProfile', 'Gemato.Bridge.SrcFindTop', 'Gemato.Bridge.SrcHash')
PROPS = ['Gemato.Props.C18', 'Gemato.Props.C18b']
PROFILES = ['default', 'ebuild', 'old-ebuild']
ERRNO_NAMES = {errno.ENOENT: 'ENOENT', errno.ENOTDIR: 'ENOTDIR', errno.EISDIR: 'EISDIR'}


# ---------------------------------------------------------------------------
# running the command-line tool
# ---------------------------------------------------------------------------

def run_main(argv, limit=20):
    """how `gemato.cli.main(argv)` ends: {'status': n} | {'oserror': name, 'filename': …} | {'traceback': class}"""
    import gemato.cli
    logging.disable(logging.CRITICAL)
    devnull = open(os.devnull, 'w')
    old_err = sys.stderr
    sys.stderr = devnull
    try:
        with treeimpl.time_limit(limit):
            rc = gemato.cli.main(['gemato'] + list(argv))
            return {'status': 0 if rc is None else int(rc)}
    except SystemExit as e:
        return {'status': e.code if isinstance(e.code, int) else 2, 'systemexit': True}
    except treeimpl.Hang:
        return {'traceback': 'HANG'}
    except OSError as e:
        if e.errno is None:
            return {'traceback': type(e).__name__ + '(errno=None)'}
        return {'oserror': ERRNO_NAMES.get(e.errno, 'code:%d' % e.errno), 'filename': e.filename, 'cls': type(e).__name__}
    except BaseException as e:       # noqa: B902 - everything that escapes is the point
        return {'traceback': type(e).__name__, 'msg': str(e)[:200]}
    finally:
        sys.stderr = old_err
        devnull.close()
        logging.disable(logging.NOTSET)


def canon_end(end):
    if 'status' in end:
        return {'status': end['status']}
    if 'oserror' in end:
        return {'oserror': end['oserror']}
    return {'traceback': end['traceback']}


def oserror_is_genuine(root, end):
    """an escaping OSError must name an object below the tree that really cannot be accessed"""
    fn = end.get('filename')
    if fn is None:
        return True                      # scandir/stat errors without a name: counted, not judged
    if isinstance(fn, bytes):
        fn = os.fsdecode(fn)
    try:
        st = os.stat(fn)
        import stat as _stat
        if not (_stat.S_ISREG(st.st_mode) or _stat.S_ISDIR(st.st_mode)):
            return True                  # a special file: not to be opened (a FIFO would block)
        with open(fn, 'rb'):
            pass
    except IsADirectoryError:
        return end['oserror'] == 'EISDIR'
    except OSError:
        return True
    except ValueError:
        return True                      # a name no file can have
    return False


def judge(ctx, root, scen, end, label):
    """the oracle of the property"""
    ctx.count('end:' + (('status:%d' % end['status']) if 'status' in end else
                        ('oserror:' + end['oserror']) if 'oserror' in end else 'traceback:' + end['traceback']))
    if 'traceback' in end:
        kind = 'call-hangs' if end['traceback'] == 'HANG' else 'internal-error:' + end['traceback']
        return ctx.fail(kind, scen, f"{label}: {end['traceback']}: {end.get('msg', '')}")
    if 'oserror' in end and not oserror_is_genuine(root, end):
        return ctx.fail('oserror-for-an-accessible-object', scen, f"{label}: {end}")
    if 'status' in end and end['status'] not in (0, 1) and not end.get('systemexit'):
        return ctx.fail('unexpected-exit-status', scen, f"{label}: {end}")
    return None


# ---------------------------------------------------------------------------
# model side
# ---------------------------------------------------------------------------

def find_top(root, p):
    """the real top-level discovery (its own property is C15); returns the Manifest path relative to root, or an ending"""
    from gemato.find_top_level import find_top_level_manifest
    try:
        with treeimpl.time_limit(10):
            tlm = find_top_level_manifest(os.path.join(root, p) if p else root)
    except Exception as e:
        return None, treeimpl.classify(e)
    if tlm is None:
        return None, None
    rel = os.path.relpath(tlm, root)
    if rel.startswith('..'):
        return None, None
    return rel, None


def model_verify_main(drv, root, top, relpath, keep_going, xdev, texts):
    # the loader's root directory is the directory of the top-level Manifest: the model's world is rooted there
    lroot = os.path.dirname(os.path.join(root, top))
    world = trees.world_of(lroot, set(trees.hash_names_in(texts)))
    req = {'op': 'verify_main', 'world': world, 'top': cps(os.path.basename(top)), 'path': cps(relpath), 'keep_going': keep_going, 'xdev': xdev}
    rep = drv.ask(req)
    return rep['model'], rep.get('detail'), req


def verify_case(ctx, drv, root, p, keep_going, label, scen_extra=None):
    """`gemato verify [-k] <root>/<p>` against the oracle and against the model"""
    texts = all_texts(root)
    argv = ['verify', '-P'] + (['-k'] if keep_going else []) + [os.path.join(root, p) if p else root]
    top, ftend = find_top(root, p)
    end = run_main(argv)
    scen = {'op': 'cli', 'argv': argv[:-1] + ['<root>/' + p], 'label': label}
    if scen_extra:
        scen.update(scen_extra)
    model = None
    if top is not None:
        relpath = os.path.relpath(os.path.join(root, p) if p else root, os.path.dirname(os.path.join(root, top)))
        relpath = '' if relpath == '.' else relpath
        model, detail, req = model_verify_main(drv, root, top, relpath, keep_going, True, texts)
        scen['request'] = req
    ctx.count('stream:' + label)
    ctx.case(json.dumps(scen, sort_keys=True, default=str)[:100000], True,
             {'label': label, 'argv': scen['argv'], 'end': canon_end(end)})
    judge(ctx, root, scen, end, label)
    if model is not None and 'abstain' not in model:
        if canon_end(end) != model and not ('oserror' in end and 'oserror' in model):
            ctx.disagree('verify_main', scen, canon_end(end), {'model': model, 'detail': detail})
    elif model is not None:
        ctx.count('model-abstained')
    return end


def update_case(ctx, drv, root, cmd, p, o, label, pl_top='Manifest', scen_extra=None):
    """`gemato update|create …` against the oracle and (library-level options known) against the model"""
    argv = [cmd]
    if o.get('hashes') is not None:
        argv += ['-H', ' '.join(o['hashes'])]
    if o.get('profile'):
        argv += ['-p', o['profile']]
    if o.get('compress_watermark') is not None:
        argv += ['-c', str(o['compress_watermark'])]
    if o.get('compress_format') is not None:
        argv += ['-C', o['compress_format']]
    if o.get('force'):
        argv += ['-f']
    if o.get('sign') is False:
        argv += ['-S']
    target = os.path.join(root, p) if p else root
    top, ftend = (pl_top, None) if cmd == 'create' else find_top(root, p)
    texts = all_texts(root)
    names = set(o.get('hashes') or []) | set(trees.hash_names_in(texts)) | {'BLAKE2B', 'SHA512'}
    lroot = os.path.dirname(os.path.join(root, top)) if top is not None else root
    world = trees.world_of(lroot, names)
    # the effective loader options (profile defaults), from a loader built the way the command builds it
    eff = None
    if top is not None:
        try:
            with treeimpl.time_limit(10):
                lo = dict(o, create=(cmd == 'create'))
                l = updimpl.make_loader(lroot, os.path.basename(top), lo)
                eff = {'hashes': l.hashes, 'sort': bool(l.sort), 'watermark': l.compress_watermark, 'format': l.compress_format}
        except Exception:
            eff = None
    before = updimpl.snapshot(root)
    end = run_main(argv + [target])
    scen = {'op': 'cli', 'argv': argv + ['<root>/' + p], 'label': label, 'options': o}
    if scen_extra:
        scen.update(scen_extra)
    ctx.count('stream:' + label)
    model = None
    scen['request'] = {'world': world}
    if top is not None and eff is not None and eff['hashes'] is not None:
        relpath = '' if cmd == 'create' else os.path.relpath(target, os.path.dirname(os.path.join(root, top)))
        relpath = '' if relpath == '.' else relpath
        post = updimpl.post_table(lroot, sorted(names))
        req = {'op': 'update', 'world': world, 'top': cps(os.path.basename(top)), 'path': cps(relpath), 'create': cmd == 'create',
               'xdev': True, 'hashes': [cps(h) for h in eff['hashes']], 'profile': o.get('profile') or 'default',
               'last_mtime': None,
               'save': {'force': bool(o.get('force')), 'sort': bool(eff['sort']), 'watermark': eff['watermark'],
                        'format': cps(eff['format'] or 'gz')},
               'post': post, 'do_save': True}
        rep = drv.ask(req)
        model = rep['exit']
        scen['request'] = req
    judge(ctx, root, scen, end, label)
    ctx.case(json.dumps(scen, sort_keys=True, default=str)[:100000], True,
             {'label': label, 'argv': scen['argv'], 'end': canon_end(end)})
    if False:
        pass
    elif model is not None and 'abstain' not in model:
        if canon_end(end) != model and not ('oserror' in end and 'oserror' in model):
            ctx.disagree('update_main', scen, canon_end(end), {'model': model, 'detail': {k: v for k, v in rep['model'].items() if k in ('err', 'path')}})
    elif model is not None:
        ctx.count('model-abstained')
    return end


# ---------------------------------------------------------------------------
# streams
# ---------------------------------------------------------------------------

def stream_c01(ctx, drv):
    """C01's trees: consistent layouts with duplicates / IGNOREs / all entry types, then mutations; verify with and without -k"""
    rng = ctx.rng
    root = common.scratch_dir('gv.c18a.')
    try:
        pl = gen_tree.gen_plan(rng, depth=rng.choice([1, 2, 3]), hostile=rng.random() < 0.6, max_files=4)
        gen_tree.layout(pl, rng, p_dup=0.25, p_ignore=0.2)
        gen_tree.write_plan(pl, root)
        for step in range(rng.choice([1, 2, 3])):
            dirs = sorted(d for d in pl.dirs if os.path.isdir(os.path.join(root, d)))
            p = '' if rng.random() < 0.5 else rng.choice(dirs)
            verify_case(ctx, drv, root, p, rng.random() < 0.5, 'c01-trees/verify', {'notes': pl.notes})
            gen_tree.mutate_tree(pl, rng, root)
    finally:
        trees.rmtree(root)


def stream_c03(ctx, drv):
    """C03's prior states (stale, duplicate, unregistered, garbage, deleted sub-Manifests …) through update and create"""
    rng = ctx.rng
    root = common.scratch_dir('gv.c18b.')
    try:
        pl = gen_tree.gen_plan(rng, depth=rng.choice([1, 2, 3]), hostile=rng.random() < 0.5, max_files=4)
        gen_tree.layout(pl, rng, p_dup=0.15, p_second=0.05)
        gen_tree.write_plan(pl, root)
        kinds = c03.perturb(pl, rng, root)
        for rnd in range(rng.choice([1, 2])):
            dirs = sorted(d for d in pl.dirs if os.path.isdir(os.path.join(root, d)) and not gen_tree.is_hidden_path(d))
            p = '' if rng.random() < 0.6 or not dirs else rng.choice(dirs)
            o = {'hashes': rng.choice(c03.HASHSETS + [['SHA1', 'FOO'], ['WHIRLPOOL']]), 'profile': rng.choice(PROFILES + ['default'])}
            if rng.random() < 0.3:
                o['compress_watermark'] = rng.choice([0, 1, 50, 200, 100000])
                o['compress_format'] = rng.choice(['gz', 'bz2', 'xz', 'lzma'])
            if rng.random() < 0.15:
                o['force'] = True
            cmd = 'update' if rng.random() < 0.85 else 'create'
            end = update_case(ctx, drv, root, cmd, p if cmd == 'update' else '', o, 'c03-prior-states/' + cmd, pl.top)
            for k in kinds:
                ctx.count('prior:' + k)
            if 'status' in end and end['status'] == 0:
                verify_case(ctx, drv, root, p if cmd == 'update' else '', rng.random() < 0.5, 'c03-prior-states/verify-after')
            gen_tree.mutate_tree(pl, rng, root)
    finally:
        trees.rmtree(root)


ODD_LINES = [
    'IGNORE foo', 'IGNORE foo', 'IGNORE sub', 'IGNORE sub/x',
    'DATA a 1 FOO 00', 'DATA a 1 SHA1 zz FOO 00', 'DATA a 1 WHIRLPOOL 00', 'DATA a 1 SHA3_512 00',
    'DATA q\\UFFFFFFFF 0', 'DATA q\\U00110000 0', 'DATA q\\uD800 0', 'DATA q\\x00z 0', 'IGNORE q\\x00', 'DATA \\x2Fetc/passwd 0',
    'DATA sub 0', 'DATA sub 3 SHA1 00', 'MISC sub 0', 'DATA a/x 0', 'DATA a/x/y 3', 'MANIFEST sub/Manifest 0', 'MANIFEST a 1',
    'MANIFEST sub 0', 'AUX x 0', 'AUX ../a 1', 'EBUILD a 1', 'DATA ../outside 0', 'DATA ./a 1', 'DATA sub//f 1', 'DATA sub/ 0',
    'DATA a 1', 'DATA a 2', 'DATA a 1 SHA1 3f786850e387550fdab836ed7e6dc881de23001b', 'DIST a 1', 'DIST d.tar 3 MD5 aa',
    'MANIFEST q\\x00 0', 'MANIFEST q\\uD800 0', 'IGNORE q\\uDC80', 'DATA sub/f\\uDFFF 1',
    'TIMESTAMP 2020-01-01T00:00:00Z', 'TIMESTAMP 0999-01-01T00:00:00Z', 'DATA Manifest 0', 'IGNORE Manifest', 'IGNORE .', 'IGNORE ..',
    'DATA sub/Manifest 0', 'IGNORE sub/deep', 'MANIFEST sub/deep/Manifest 0', 'DATA sub/deep/g 1', 'DATA é 2', 'DATA a\\x20b 0',
    # lines of white space only (skipped like empty ones), and white space around an entry
    '', ' ', '\t', '\x0c', '  \t ', '\u00a0', ' DATA a 1', 'DATA a 1 \t', 'DATA\ta\t1',
]


def stream_odd(ctx, drv):
    """the legal-but-unusual inputs the property names, as lines of a top-level (and a sub-) Manifest over one small tree"""
    rng = ctx.rng
    root = common.scratch_dir('gv.c18c.')
    try:
        spec = ('d', {'a': ('f', b'a', 1500000000), 'sub': ('d', {'f': ('f', b'f', 1500000000), 'deep': ('d', {'g': ('f', b'g', 1500000000)})}),
                      'foo': ('f', b'foo', 1500000000), 'é': ('f', b'xx', 1500000000)})
        trees.materialise(spec, root)
        n = rng.choice([1, 2, 2, 3, 4, 6])
        lines = [rng.choice(ODD_LINES) for _ in range(n)]
        if rng.random() < 0.3:
            lines += gen_text_lines(rng)
        text = ''.join(l + '\n' for l in lines)
        if rng.random() < 0.1:
            text = text[:-1]                     # no newline at the end of the file
        open(os.path.join(root, 'Manifest'), 'w', encoding='utf8', errors='surrogatepass').write(text)
        sub_lines = None
        if rng.random() < 0.5:
            sub_lines = [rng.choice(ODD_LINES) for _ in range(rng.choice([0, 1, 2, 3]))]
            where = rng.choice(['sub/Manifest', 'sub/deep/Manifest'])
            open(os.path.join(root, where), 'w', encoding='utf8').write(''.join(l + '\n' for l in sub_lines))
        extra = {'lines': lines, 'sub_lines': sub_lines}
        what = rng.choice(['verify', 'verify', 'update', 'update', 'update-sub', 'create'])
        if what == 'verify':
            verify_case(ctx, drv, root, rng.choice(['', '', 'sub', 'sub/deep']), rng.random() < 0.5, 'odd-lines/verify', extra)
        elif what == 'create':
            os.unlink(os.path.join(root, 'Manifest'))
            update_case(ctx, drv, root, 'create', '', {'hashes': ['SHA1'], 'profile': rng.choice(PROFILES)}, 'odd-lines/create', scen_extra=extra)
        else:
            p = '' if what == 'update' else rng.choice(['sub', 'sub/deep'])
            o = {'hashes': rng.choice([['SHA1'], ['SHA1', 'FOO'], ['MD5', 'SHA256']]), 'profile': rng.choice(PROFILES)}
            end = update_case(ctx, drv, root, 'update', p, o, 'odd-lines/' + what, scen_extra=extra)
            if end.get('status') == 0:
                verify_case(ctx, drv, root, p, False, 'odd-lines/verify-after', extra)
    finally:
        trees.rmtree(root)


def gen_text_lines(rng):
    """a few lines from C09's grammar (every field independently valid or invalid)"""
    out = []
    for _ in range(rng.choice([1, 2])):
        line, _expect = gen_text.grammar_line(rng)
        line = line.strip('\r\n')
        # numeric fields with non-ASCII decimal digits: int() and strptime accept them, the model abstains (as in C09)
        if '\n' not in line and '\r' not in line and not any(ord(c) > 127 and c.isdigit() for c in line):
            out.append(line)
    return out


def stream_repo(ctx, drv):
    """C19's repositories: create with one profile, edit, update with another (the profile switch), sub-directory updates"""
    rng = ctx.rng
    root = common.scratch_dir('gv.c18d.')
    try:
        c19.gen_repo(rng, root, odd=rng.random() < 0.5)
        if rng.random() < 0.4:
            for nm in rng.sample(['timestamp', 'timestamp.chk', 'timestamp.commit', 'timestamp.x'], 2):
                os.makedirs(os.path.join(root, 'metadata'), exist_ok=True)
                open(os.path.join(root, 'metadata', nm), 'w').write('t')
            for sub in ('dtd', 'glsa', 'news'):
                if os.path.isdir(os.path.join(root, 'metadata', sub)) and rng.random() < 0.5:
                    open(os.path.join(root, 'metadata', sub, 'timestamp.chk'), 'w').write('t')
        p1 = rng.choice(PROFILES)
        o1 = {'profile': p1, 'hashes': ['SHA1'] if p1 == 'default' or rng.random() < 0.3 else None}
        end = update_case(ctx, drv, root, 'create', '', o1, 'repo/create-' + p1)
        if end.get('status') != 0:
            return
        for rnd in range(rng.choice([1, 2])):
            # edits
            files = [os.path.join(dp, f) for dp, dn, fn in os.walk(root) for f in fn if not f.startswith('Manifest')]
            for _ in range(rng.randint(0, 3)):
                k = rng.choice(['change', 'add', 'delete'])
                if k == 'add':
                    dirs = [dp for dp, dn, fn in os.walk(root)]
                    open(os.path.join(rng.choice(dirs), 'new-%d' % rng.randint(0, 9)), 'w').write('new')
                elif files:
                    f = rng.choice(files)
                    if os.path.isfile(f):
                        if k == 'change':
                            open(f, 'ab').write(b'+')
                        else:
                            os.unlink(f)
            p2 = rng.choice(PROFILES)
            o2 = {'profile': p2, 'hashes': ['SHA1'] if p2 == 'default' or rng.random() < 0.3 else None}
            dirs = sorted(os.path.relpath(dp, root) for dp, dn, fn in os.walk(root) if dp != root and '/.' not in dp)
            p = '' if rng.random() < 0.6 or not dirs else rng.choice(dirs)
            end = update_case(ctx, drv, root, 'update', p, o2, f'repo/update-{p1}-to-{p2}')
            if end.get('status') == 0:
                verify_case(ctx, drv, root, p, rng.random() < 0.5, 'repo/verify-after')
    finally:
        trees.rmtree(root)


def corpus(ctx, drv):
    """minimised scenarios of the repaired findings F26, F12a-c, F25, F10, F15, F6: they run first and must pass"""
    def tree(lines, sub_lines=None, where='sub/Manifest'):
        root = common.scratch_dir('gv.c18k.')
        spec = ('d', {'a': ('f', b'a', 1500000000), 'sub': ('d', {'f': ('f', b'f', 1500000000), 'deep': ('d', {'g': ('f', b'g', 1500000000)})})})
        trees.materialise(spec, root)
        open(os.path.join(root, 'Manifest'), 'w', encoding='utf8').write(''.join(l + '\n' for l in lines))
        if sub_lines is not None:
            open(os.path.join(root, where), 'w', encoding='utf8').write(''.join(l + '\n' for l in sub_lines))
        return root
    cases = [
        (['DATA q\\uD800 0', 'DATA z\\x00 0'], None), (['MANIFEST q\\x00 0'], None), (['MANIFEST q\\uD800 0', 'DATA a 1'], None),
        (['IGNORE foo', 'IGNORE foo'], None), (['DATA a 1 FOO 00'], None), (['DATA q\\UFFFFFFFF 0'], None),
        (['DATA a 1', 'DATA q\\uD800 0'], []), (['DATA sub 0', 'DATA a/x 0'], None),
    ]
    for lines, sub_lines in cases:
        for what, p in (('verify', ''), ('verify', 'sub'), ('update', ''), ('update', 'sub/deep')):
            root = tree(lines, sub_lines)
            try:
                extra = {'lines': lines, 'sub_lines': sub_lines}
                if what == 'verify':
                    verify_case(ctx, drv, root, p, True, 'corpus/verify', extra)
                else:
                    update_case(ctx, drv, root, 'update', p, {'hashes': ['SHA1'], 'profile': 'default'}, 'corpus/update', scen_extra=extra)
            finally:
                trees.rmtree(root)
    # F14 and relatives: a package directory whose `files` is a regular file, or whose files/ holds a Manifest, under every profile
    for prof in PROFILES:
        for variant in ('files-is-a-file', 'manifest-inside-files', 'files-without-package-manifest'):
            root = common.scratch_dir('gv.c18k.')
            try:
                pkg = {'bar-1.ebuild': ('f', b'EAPI=8', None), 'metadata.xml': ('f', b'<pkgmetadata/>', None)}
                if variant == 'files-is-a-file':
                    pkg['files'] = ('f', b'not a directory', None)
                elif variant == 'manifest-inside-files':
                    pkg['files'] = ('d', {'fix.patch': ('f', b'--- a', None), 'Manifest': ('f', b'', None)})
                else:
                    pkg = {'files': ('d', {'fix.patch': ('f', b'--- a', None)})}
                trees.materialise(('d', {'dev-foo': ('d', {'bar': ('d', pkg)}), 'profiles': ('d', {'categories': ('f', b'dev-foo\n', None)})}), root)
                end = update_case(ctx, drv, root, 'create', '', {'hashes': ['SHA1'], 'profile': prof}, f'corpus/create-{prof}/{variant}')
                if end.get('status') == 0:
                    update_case(ctx, drv, root, 'update', 'dev-foo/bar', {'hashes': ['SHA1'], 'profile': prof}, f'corpus/update-sub-{prof}/{variant}')
                    verify_case(ctx, drv, root, '', False, 'corpus/verify-after')
            finally:
                trees.rmtree(root)
    # several TIMESTAMP lines (legal, like duplicate IGNOREs) in a Manifest that a sorting profile rewrites and refreshes
    for prof in PROFILES:
        for lines in (['TIMESTAMP 2020-01-01T00:00:00Z', 'TIMESTAMP 2019-06-01T00:00:00Z', 'DATA a 1'],
                      ['DATA a 1', 'TIMESTAMP 2019-06-01T00:00:00Z', 'TIMESTAMP 2019-06-01T00:00:00Z', 'TIMESTAMP 2021-01-01T00:00:00Z']):
            for what, p in (('update', ''), ('update', 'sub'), ('verify', '')):
                root = tree(lines)
                try:
                    extra = {'lines': lines}
                    if what == 'verify':
                        verify_case(ctx, drv, root, p, True, 'corpus/two-timestamps/verify', extra)
                    else:
                        update_case(ctx, drv, root, 'update', p, {'hashes': ['SHA1'], 'profile': prof}, 'corpus/two-timestamps/update-' + prof,
                                    scen_extra=extra)
                finally:
                    trees.rmtree(root)
    # F20: a named pipe called like a Manifest, unregistered / in the place of a registered sub-Manifest: every command ends
    for variant in ('unregistered', 'registered'):
        for what, p in (('update', ''), ('update', 'sub'), ('create', ''), ('verify', '')):
            root = tree(['DATA a 1 SHA1 86f7e437faa5a7fce15d1ddcb9eaeaea377667b8'] +
                        (['MANIFEST sub/Manifest 0'] if variant == 'registered' else []))
            try:
                os.mkfifo(os.path.join(root, 'sub', 'Manifest' if variant == 'registered' else 'Manifest.gz'))
                extra = {'variant': 'fifo-named-manifest/' + variant}
                if what == 'verify':
                    verify_case(ctx, drv, root, p, True, 'corpus/fifo/verify', extra)
                else:
                    if what == 'create':
                        os.unlink(os.path.join(root, 'Manifest'))
                    update_case(ctx, drv, root, what, p, {'hashes': ['SHA1'], 'profile': 'default'}, 'corpus/fifo/' + what, scen_extra=extra)
            finally:
                trees.rmtree(root)
    # F26: default-profile create, then ebuild-profile update, with a default-ignored file present / gone meanwhile
    for gone in (False, True):
        root = common.scratch_dir('gv.c18k.')
        try:
            trees.materialise(('d', {'metadata': ('d', {'timestamp.x': ('f', b'x', None), 'a.txt': ('f', b'y', None),
                                                        'glsa': ('d', {'timestamp.chk': ('f', b'c', None), 'g.xml': ('f', b'<x/>', None)})}),
                                     'profiles': ('d', {'categories': ('f', b'c\n', None)})}), root)
            update_case(ctx, drv, root, 'create', '', {'hashes': ['SHA1'], 'profile': 'default'}, 'corpus/create-default')
            if gone:
                os.unlink(os.path.join(root, 'metadata', 'timestamp.x'))
            end = update_case(ctx, drv, root, 'update', '', {'profile': 'ebuild'}, 'corpus/update-default-to-ebuild')
            if end.get('status') == 0:
                verify_case(ctx, drv, root, '', False, 'corpus/verify-after')
                if verify_case(ctx, drv, root, '', False, 'corpus/verify-after').get('status') != 0:
                    ctx.fail('fresh-verification-fails-after-update', {'op': 'cli', 'label': 'corpus/F26', 'gone': gone}, 'verify after the profile switch')
        finally:
            trees.rmtree(root)


def run(ctx):
    ctx.rule = ('every command line is one evaluation; non-trivial = distinct scenario (tree + Manifest texts + argv). Streams: '
                'C01 trees (hostile names, duplicates of 8 kinds, IGNOREs, mutations) through verify [-k] on the tree and sub-paths; '
                'C03 prior states (stale/duplicate/unregistered/garbage/deleted sub-Manifests, unknown and unsupported hash names) '
                'through update (whole tree and sub-directories) and create with each profile, then verify; odd lines named by the '
                'property (duplicate IGNOREs, unknown hashes, out-of-range and surrogate/NUL escapes, entries naming directories or '
                'lying beneath a regular file, unreferenced sub-Manifests) plus C09 grammar lines; C19 repositories created with one '
                'profile and updated with another; the library call update_entry_for_path + save_manifests within its contract on paths '
                'listed once / several times / listed but gone / not listed. Oracle: main() returns a status, or an OSError naming an object that really '
                'cannot be accessed escapes; anything else is the violation.')
    ctx.assumptions = ['top-level discovery is taken from the real find_top_level_manifest (property C15 has its own model)',
                       'OpenPGP verification is off (-P): signatures are C04/C05/C14',
                       'digests of rewritten Manifests come from the real post-state (hashing is not modelled)']
    drv = common.Driver()
    q = ctx.tier == 'quick'
    try:
        corpus(ctx, drv)
        for i in range(120 if q else 3000):
            stream_c01(ctx, drv)
        for i in range(120 if q else 3000):
            stream_c03(ctx, drv)
        for i in range(400 if q else 10000):
            stream_odd(ctx, drv)
        for i in range(60 if q else 1500):
            stream_repo(ctx, drv)
        # the library's single-path update within its contract (C10's stream; an internal error is a failure here)
        for i in range(200 if q else 3000):
            c10.path_case(ctx, drv, judge_internal=True, label='library/update-entry-for-path')
    finally:
        drv.close()


def replay(ctx, path):
    d = json.load(open(path))
    s = d['scenario']
    print('argv:', s.get('argv'), 'label:', s.get('label'), 'lines:', s.get('lines'), 'sub_lines:', s.get('sub_lines'))
    print('detail:', d.get('detail'))
    if 'request' in s:
        drv = common.Driver()
        try:
            rep = drv.ask(s['request'])
            print('model:', json.dumps(rep.get('exit', rep.get('model')))[:500])
        finally:
            drv.close()
    return 0
