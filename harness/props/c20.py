"""C20 — the fast generator scripts and the reference implementation agree.

The real scripts (utils/gen_fast_manifest.py, utils/gen_fast_metamanifest.py, imported from /repo's current tree) are
run on generated ebuild repositories with portable names. Correspondence: every single `gen_manifest(dir)` call of a
whole-repository run is compared with the Lean model `FG.genManifest` on the directory as it is at that moment (file
written, its text byte for byte, the unlink), the order of the calls with `FG.metaOrder`, the split with
`FG.makeToplevel`; the serial in-process run is compared with the real script run as a subprocess (process pool).
Oracle = the property: `gemato verify` accepts the output, every file is covered exactly once with true size and
BLAKE2B/SHA512, `gemato update -p ebuild` changes no byte and no mtime, and after 0..5 edits it restores a tree
that verifies and is exact again."""
import gzip
import importlib.util
import json
import os
import shutil
import subprocess
import sys

from harness import common, trees, treeimpl, updimpl
from harness.common import cps, uncps, REPO
from harness.props import c19
from harness.props.c18 import run_main

BRIDGE = ('Gemato.Bridge.FastGen', 'Gemato.Bridge.FastGenSrc', 'Gemato.Bridge.Profile', 'Gemato.Bridge.SrcUpdate', 'Gemato.Bridge.SrcLoader', 'Gemato.Bridge.SrcWalk', 'Gemato.Bridge.SrcText', 'Gemato.Bridge.SrcProfile', 'Gemato.Bridge.SrcCodec', 'Gemato.Bridge.SrcHash')
PROPS = ['Gemato.Props.C20']
HASHES = ['BLAKE2B', 'SHA512']


def load_scripts():
    """import the two scripts from /repo's current tree under private module names"""
    ud = os.path.join(REPO, 'utils')
    out = {}
    for nm in ('gen_fast_manifest', 'gen_fast_metamanifest'):
        spec = importlib.util.spec_from_file_location(nm, os.path.join(ud, nm + '.py'))
        mod = importlib.util.module_from_spec(spec)
        if nm == 'gen_fast_metamanifest':
            sys.modules['gen_fast_manifest'] = out['gen_fast_manifest']
        spec.loader.exec_module(mod)
        out[nm] = mod
    return out['gen_fast_manifest'], out['gen_fast_metamanifest']


def gen_repo(rng, root):
    """a repository as in C19 (portable names), with profiles/categories and the standard directories present"""
    c19.gen_repo(rng, root, odd=False)
    # the property's scope: ignored directories absent at generation time
    for d in ('distfiles', 'local', 'lost+found', 'packages'):
        shutil.rmtree(os.path.join(root, d), ignore_errors=True)
    cats = sorted(d for d in os.listdir(root) if os.path.isdir(os.path.join(root, d)) and ('-' in d or d == 'virtual'))
    os.makedirs(os.path.join(root, 'profiles'), exist_ok=True)
    # profiles/categories lists every category directory (a category missing from it is not a category for the
    # generator, while the ebuild profile still wants a Manifest there: outside the repository shape)
    cache = os.path.join(root, 'metadata', 'md5-cache')
    cached = sorted(d for d in os.listdir(cache) if os.path.isdir(os.path.join(cache, d))) if os.path.isdir(cache) else []
    listed = sorted(set(cats) | set(cached)) + (['no-such'] if rng.random() < 0.2 else [])
    rng.shuffle(listed)
    open(os.path.join(root, 'profiles', 'categories'), 'w').write(''.join(c + '\n' for c in listed))
    for d in ('metadata/dtd', 'metadata/glsa', 'metadata/news', 'metadata/xml-schema', 'eclass', 'licenses', 'metadata/md5-cache'):
        os.makedirs(os.path.join(root, d), exist_ok=True)
        if rng.random() < 0.6:
            open(os.path.join(root, d, 'f-%d' % rng.randint(0, 9)), 'w').write('x' * rng.randint(0, 300))
    # things the generators must skip or treat specially
    if rng.random() < 0.4:
        open(os.path.join(root, 'metadata', rng.choice(['timestamp', 'timestamp.chk', 'timestamp.x', 'timestamp.commit'])), 'w').write('t')
    if rng.random() < 0.3:
        open(os.path.join(root, 'metadata', 'glsa', rng.choice(['timestamp.chk', 'timestamp.commit'])), 'w').write('t')
    if rng.random() < 0.5:
        # several dot-directories side by side (they are pruned from the walk one after the other), next to ordinary ones
        where = rng.choice(['eclass', 'licenses', 'profiles', 'metadata/dtd'])
        for dn in rng.sample(['.git', '.svn', '.hg', '.idea', '.cache'], rng.randint(1, 4)):
            os.makedirs(os.path.join(root, where, dn), exist_ok=True)
            open(os.path.join(root, where, dn, 'HEAD'), 'w').write('ref ' + dn)
        os.makedirs(os.path.join(root, where, 'zz-visible'), exist_ok=True)
        open(os.path.join(root, where, 'zz-visible', 'v'), 'w').write('v')
    if rng.random() < 0.3:
        open(os.path.join(root, 'licenses', '.hidden'), 'w').write('h')
    if rng.random() < 0.3:
        os.makedirs(os.path.join(root, 'eclass', 'tests'), exist_ok=True)
        open(os.path.join(root, 'eclass', 'tests', 'a.sh'), 'w').write('#!/bin/sh\n')
    # an unchanged version bump: a second ebuild with the very same content (its entry differs from the first one's by the
    # path alone); which of the two a later edit deletes is drawn in edit()
    twins = []
    for c in cats:
        for pkg in sorted(os.listdir(os.path.join(root, c))):
            pd = os.path.join(root, c, pkg)
            ebs = sorted(f for f in os.listdir(pd) if f.endswith('.ebuild')) if os.path.isdir(pd) else []
            if ebs and rng.random() < 0.5:
                src = os.path.join(pd, ebs[0])
                dst = os.path.join(pd, '%s-9%d.ebuild' % (pkg, rng.randint(0, 9)))
                shutil.copyfile(src, dst)
                twins.append((src, dst))
    gen_repo.twins = twins
    # pre-existing package Manifests with DIST entries
    for c in cats:
        for pkg in sorted(os.listdir(os.path.join(root, c))):
            pd = os.path.join(root, c, pkg)
            if os.path.isdir(pd) and rng.random() < 0.4:
                open(os.path.join(pd, 'Manifest'), 'w').write(
                    'DIST %s-1.tar.gz 3 BLAKE2B aa SHA512 bb\n' % pkg + ('DIST %s-2.tar.xz 5 BLAKE2B cc SHA512 dd\n' % pkg if rng.random() < 0.5 else ''))
    return listed


class SerialPool:
    """stands in for multiprocessing.Pool: the calls, in order, with a hook around each"""
    def __init__(self, hook):
        self.hook = hook

    def map(self, fn, it, chunksize=None):
        return [self.hook(fn, x) for x in it]


def read_manifest_file(p):
    data = open(p, 'rb').read()
    return trees.decompress_by_name(os.path.basename(p), data)


def traced_metagen(ctx, drv, root, gfm, gmm):
    """run gen_metamanifest in-process with a serial pool; compare every gen_manifest call and the call order with the model"""
    calls = []
    ok = [True]

    def hook(fn, d):
        dpath = os.path.normpath(os.path.join(root, d))
        world = trees.world_of(dpath, HASHES)
        old = None
        op = os.path.join(dpath, 'Manifest')
        if os.path.isfile(op):
            old = open(op, 'rb').read().decode('utf8', errors='surrogateescape')
        before = set(os.listdir(dpath)) if os.path.isdir(dpath) else set()
        try:
            r = fn(d)
            err = None
        except Exception as e:
            r, err = None, type(e).__name__
        rep = drv.ask({'op': 'fastgen', 'dir': world, 'old': None if old is None else cps(old)}) if world[0] == 'd' else None
        rel = os.path.relpath(dpath, root)
        calls.append('' if rel == '.' else rel)
        ctx.count('gen_manifest-calls')
        if rep is None or err is not None:
            ctx.count('gen_manifest:' + (err or 'not-a-directory'))
            if err is not None and rep is not None and 'err' not in rep['model']:
                ctx.disagree('fastgen(error)', {'dir': rel, 'request': {'world': world}}, err, rep['model'].get('name'))
                ok[0] = False
            return r
        m = rep['model']
        scen = {'op': 'fastgen', 'dir': rel, 'request': {'op': 'fastgen', 'dir': world, 'old': None if old is None else cps(old)}}
        if 'err' in m:
            ctx.count('model-abstained')
            return r
        name = uncps(m['name'])
        real = read_manifest_file(os.path.join(dpath, name)) if os.path.isfile(os.path.join(dpath, name)) else None
        if real != uncps(m['text']):
            ctx.disagree('fastgen(text)', scen, {'name': name, 'text': real}, {'text': uncps(m['text'])})
            ok[0] = False
        after = set(os.listdir(dpath))
        want_after = (before | {name}) - ({'Manifest'} if m['unlink_plain'] else set())
        if after != want_after:
            ctx.disagree('fastgen(files)', scen, sorted(after), sorted(want_after))
            ok[0] = False
        ctx.traces += 1
        return r

    cwd = os.getcwd()
    real_pool = gmm.multiprocessing.Pool
    gmm.multiprocessing.Pool = lambda *a, **k: SerialPool(hook)
    # make_toplevel: compare with the model as well
    real_mt = gmm.make_toplevel
    splits = []

    def mt(d, ts, key):
        dpath = os.path.join(os.getcwd(), d)
        gen = 'Manifest.gz' if os.path.exists(os.path.join(dpath, 'Manifest.gz')) else ('Manifest' if os.path.exists(os.path.join(dpath, 'Manifest')) else None)
        data = open(os.path.join(dpath, gen), 'rb').read() if gen else None
        r = real_mt(d, ts, key)
        if gen is not None:
            dg = trees.digests_of(data, HASHES)
            rep = drv.ask({'op': 'fg_split', 'generated': cps(gen), 'size': len(data), 'b2': cps(dg['BLAKE2B']), 's5': cps(dg['SHA512']),
                           'ts': cps(ts.decode('ascii'))})['model']
            top = open(os.path.join(dpath, 'Manifest'), 'rb').read().decode('utf8')
            fn = uncps(rep['files_name'])
            if top != uncps(rep['top_text']) or not os.path.isfile(os.path.join(dpath, fn)) or open(os.path.join(dpath, fn), 'rb').read() != data:
                ctx.disagree('fg_split', {'dir': d, 'generated': gen}, {'top': top}, {'top': uncps(rep['top_text']), 'files': fn})
                ok[0] = False
            splits.append(d)
        return r
    gmm.make_toplevel = mt
    err = None
    try:
        gmm.gen_metamanifest(root, None)
    except Exception as e:
        err = type(e).__name__ + ': ' + str(e)[:200]
    finally:
        os.chdir(cwd)
        gmm.multiprocessing.Pool = real_pool
        gmm.make_toplevel = real_mt
    return calls, err, ok[0]


def model_order(drv, root, listed):
    cats = listed
    pkgs = []
    import glob
    for c in cats:
        ps = [os.path.basename(os.path.normpath(d)) for d in glob.glob(os.path.join(root, c, '*/'))]
        pkgs.append([cps(c), [cps(p) for p in ps]])
    ce = [cps(c) for c in cats if os.path.exists(os.path.join(root, 'metadata/md5-cache', c))]
    xe = [cps(c) for c in cats if os.path.exists(os.path.join(root, c))]
    return [uncps(x) for x in drv.ask({'op': 'fg_order', 'cats': [cps(c) for c in cats], 'pkgs': pkgs, 'cache_exists': ce, 'cat_exists': xe})['model']]


def canon(end):
    return {k: v for k, v in end.items() if k in ('status', 'oserror', 'traceback')}


def manifest_state(root):
    out = {}
    for dp, dn, fn in os.walk(root):
        for f in fn:
            if f.startswith('Manifest'):
                p = os.path.join(dp, f)
                out[os.path.relpath(p, root)] = (open(p, 'rb').read(), os.stat(p).st_mtime_ns)
    return out


def strip_ts(text):
    """canonical form for comparing two generator runs made at different seconds: no TIMESTAMP line, and MANIFEST entries
    (whose target may, transitively, hold a TIMESTAMP) reduced to their path"""
    out = []
    for l in text.split('\n'):
        if l.startswith('TIMESTAMP'):
            continue
        out.append(' '.join(l.split(' ')[:2]) if l.startswith('MANIFEST ') else l)
    return '\n'.join(out)


def check_output(ctx, root, scen, label):
    """the property on a generated tree: verifies; exact for BLAKE2B/SHA512"""
    end = run_main(['verify', root])
    if end != {'status': 0}:
        ctx.fail('generator-output-does-not-verify', scen, f'{label}: gemato verify: {end}')
        return False
    problems, in_use = updimpl.exact_check(root, 'Manifest', '', HASHES)
    if problems:
        ctx.fail('generator-output-not-exact', scen, f'{label}: ' + '; '.join(problems[:5]))
        return False
    return True


def edit(rng, root):
    files = [os.path.join(dp, f) for dp, dn, fn in os.walk(root) for f in fn
             if not f.startswith('Manifest') and '/.' not in dp and not f.startswith('.')]
    dirs = [dp for dp, dn, fn in os.walk(root) if '/.' not in dp and os.path.basename(dp) not in ('metadata',)]
    kinds = []
    # one of two identical files goes (the later or the earlier one in the Manifest)
    tw = [(a, b) for a, b in getattr(gen_repo, 'twins', []) if a.startswith(root + os.sep) and os.path.isfile(a) and os.path.isfile(b)]
    if tw and rng.random() < 0.6:
        a, b = rng.choice(tw)
        victim = rng.choice([a, b])
        os.unlink(victim)
        kinds.append(('delete-twin', os.path.relpath(victim, root)))
    for _ in range(rng.randint(0, 5)):
        k = rng.choice(['change', 'change', 'add', 'delete'])
        if k == 'add':
            d = rng.choice(dirs)
            p = os.path.join(d, 'added-%d.txt' % rng.randint(0, 99))
            open(p, 'w').write('added' * rng.randint(0, 40))
            kinds.append(('add', os.path.relpath(p, root)))
        elif files:
            f = rng.choice(files)
            if not os.path.isfile(f):
                continue
            if k == 'change':
                open(f, 'ab').write(b'+edit')
            else:
                os.unlink(f)
            kinds.append((k, os.path.relpath(f, root)))
    return kinds


def repo_case(ctx, drv, gfm, gmm):
    rng = ctx.rng
    root = common.scratch_dir('gv.c20.')
    root2 = root + '.sub'
    n0 = len(ctx.failures) + len(ctx.disagreements)
    try:
        listed = gen_repo(rng, root)
        shutil.copytree(root, root2, symlinks=True)
        order_model = model_order(drv, root, listed)
        calls, err, ok = traced_metagen(ctx, drv, root, gfm, gmm)
        scen = {'op': 'metagen', 'categories': listed, 'tree': sorted(os.path.relpath(os.path.join(dp, f), root) for dp, dn, fn in os.walk(root) for f in fn)[:200]}
        ctx.case(json.dumps(scen, sort_keys=True)[:100000], True, {'categories': listed, 'calls': len(calls), 'error': err})
        if err is not None:
            ctx.count('metagen-error:' + err.split(':')[0])
            return
        if calls != order_model:
            ctx.disagree('fg_order', scen, calls, order_model)
        # the real script as a subprocess (process pool) gives the same tree, modulo the TIMESTAMP lines
        p = subprocess.run([sys.executable, os.path.join(REPO, 'utils', 'gen_fast_metamanifest.py'), root2],
                           stdout=subprocess.PIPE, stderr=subprocess.STDOUT, timeout=300)
        if p.returncode != 0:
            ctx.disagree('metagen(subprocess)', scen, p.stdout.decode(errors='replace')[-300:], 'ok')
        else:
            a, b = manifest_state(root), manifest_state(root2)
            ta = {k: strip_ts(trees.decompress_by_name(k, v[0]) or '') for k, v in a.items()}
            tb = {k: strip_ts(trees.decompress_by_name(k, v[0]) or '') for k, v in b.items()}
            # the top-level entry for Manifest.files.gz is the same in both (deterministic gzip)
            if ta != tb:
                bad = sorted(k for k in set(ta) | set(tb) if ta.get(k) != tb.get(k))
                ctx.disagree('metagen(pool-vs-serial)', scen, bad[:5], [])
        # the property, part 1: the output verifies and is exact
        if not check_output(ctx, root, scen, 'metamanifest'):
            return
        # ... also when the generator runs over its own output after a few edits (the periodic run on a live tree: the split
        # top level Manifest + Manifest.files.gz of the earlier run is there)
        if p.returncode == 0 and rng.random() < 0.7:
            keep_cat = open(os.path.join(root2, 'profiles', 'categories'), 'rb').read() if os.path.isfile(os.path.join(root2, 'profiles', 'categories')) else None
            edits2 = edit(rng, root2)
            if keep_cat is not None and not os.path.isfile(os.path.join(root2, 'profiles', 'categories')):
                # the generator needs profiles/categories (without it the tree is no ebuild repository any more)
                open(os.path.join(root2, 'profiles', 'categories'), 'wb').write(keep_cat)
            p2 = subprocess.run([sys.executable, os.path.join(REPO, 'utils', 'gen_fast_metamanifest.py'), root2],
                                stdout=subprocess.PIPE, stderr=subprocess.STDOUT, timeout=300)
            scen_r = dict(scen, regenerated=True, edits=edits2)
            ctx.count('regeneration:' + ('ok' if p2.returncode == 0 else 'failed'))
            ctx.case(json.dumps([scen_r['tree'][:50], edits2], sort_keys=True)[:100000], True, {'regenerated': True, 'edits': len(edits2)})
            if p2.returncode != 0:
                ctx.fail('regeneration-fails', scen_r, p2.stdout.decode(errors='replace')[-300:])
            elif not check_output(ctx, root2, scen_r, 'regenerated'):
                return
        # part 2: update with the ebuild profile finds nothing to change
        before = manifest_state(root)
        end = run_main(['update', '-p', 'ebuild', root])
        after = manifest_state(root)
        if end != {'status': 0}:
            ctx.fail('update-after-generator-fails', scen, str(end))
            return
        if before != after:
            bad = sorted(k for k in set(before) | set(after) if before.get(k) != after.get(k))
            ctx.fail('update-on-untouched-tree-rewrites', dict(scen, rewritten=bad[:10]), 'rewritten: ' + ', '.join(bad[:5]))
            return
        # part 3: after 0..5 edits it restores a tree that verifies (and is exact again)
        edits = edit(rng, root)
        scen2 = dict(scen, edits=edits)
        end = run_main(['update', '-p', 'ebuild', root])
        ctx.count('edits:%d' % len(edits))
        if end != {'status': 0}:
            ctx.fail('update-after-edits-fails', scen2, str(end))
            return
        if not check_output(ctx, root, scen2, 'after edits + update'):
            return
        # part 4: gen_fast_manifest on a single directory of the repository after an edit there (its parents' MANIFEST
        # entries go stale), then the reference update restores a verifying tree
        pkgdirs = sorted(os.path.dirname(os.path.join(dp, f)) for dp, dn, fn in os.walk(root) for f in fn if f.endswith('.ebuild'))
        others = [os.path.join(root, d) for d in ('eclass', 'licenses', 'metadata/dtd') if os.path.isdir(os.path.join(root, d))]
        cands = sorted(set(pkgdirs)) + others
        if cands:
            d = rng.choice(cands)
            open(os.path.join(d, 'single-edit.txt'), 'w').write('single' * rng.randint(1, 20))
            world = trees.world_of(d, HASHES)
            oldp = os.path.join(d, 'Manifest')
            old = open(oldp, 'rb').read().decode('utf8') if os.path.isfile(oldp) else None
            rep = drv.ask({'op': 'fastgen', 'dir': world, 'old': None if old is None else cps(old)})['model']
            gfm.gen_manifest(d)
            if 'err' not in rep:
                real = read_manifest_file(os.path.join(d, uncps(rep['name']))) if os.path.isfile(os.path.join(d, uncps(rep['name']))) else None
                if real != uncps(rep['text']):
                    ctx.disagree('fastgen(text)', dict(scen2, dir=os.path.relpath(d, root)), {'text': real}, {'text': uncps(rep['text'])})
                ctx.traces += 1
            # What the reference update makes of this mixed state is outside the property (regenerating is not a file
            # edit: the script may leave `Manifest` next to a `Manifest.gz` gemato compressed, or remove the `Manifest`
            # a parent references): observed and counted, not judged.
            end = run_main(['update', '-p', 'ebuild', root])
            ctx.count('mixing-tools:update-after-single-regeneration:' + json.dumps(canon(end)))
            if end == {'status': 0}:
                ctx.count('mixing-tools:verify-after:' + json.dumps(canon(run_main(['verify', root]))))
    finally:
        keep = os.environ.get('VERIF_KEEP')
        if keep and len(ctx.failures) + len(ctx.disagreements) > n0:
            shutil.copytree(root, os.path.join(keep, os.path.basename(root)), symlinks=True)
            if os.path.isdir(root2):
                shutil.copytree(root2, os.path.join(keep, os.path.basename(root2)), symlinks=True)
        trees.rmtree(root)
        trees.rmtree(root2)


def single_case(ctx, drv, gfm):
    """gen_fast_manifest on single directories: package directories (compat mode) and plain ones, with and without a
    pre-existing Manifest carrying DIST/IGNORE lines, nested sub-directories with Manifests of their own"""
    rng = ctx.rng
    root = common.scratch_dir('gv.c20s.')
    try:
        def w(p, data):
            fp = os.path.join(root, p)
            os.makedirs(os.path.dirname(fp), exist_ok=True)
            open(fp, 'wb').write(data)
        compat = rng.random() < 0.6
        if compat:
            for v in range(rng.randint(1, 3)):
                w('foo-%d.ebuild' % v, b'EAPI=8\n' * rng.randint(1, 9))
            if rng.random() < 0.7:
                w('metadata.xml', b'<pkgmetadata/>')
            if rng.random() < 0.7:
                w('files/fix.patch', b'--- a\n')
                if rng.random() < 0.5:
                    w('files/sub/more.patch', b'+++ b\n')
                if rng.random() < 0.3:
                    w('files/tmpfiles/foo.conf', b'd /run/foo\n')
            if rng.random() < 0.3:
                w('skel.ebuild', b'# skel\n')
        else:
            for i in range(rng.randint(0, 4)):
                w(rng.choice(['a', 'b.txt', 'README', 'files/x', 'sub/y', 'sub/deep/z', 'Makefile', 'x.ebuild.bak']), os.urandom(rng.randint(0, 40)))
        if rng.random() < 0.4:
            w('.hidden', b'h')
            for dn in rng.sample(['.git', '.svn', '.hg', '.idea'], rng.randint(1, 4)):
                w(dn + '/HEAD', b'ref')
            w('vis/inner', b'visible')
        # outside the property's scope (a file merely named Manifest*, timestamp files that no Manifest IGNOREs):
        # the generators skip them, the verifier reports them - model/code correspondence only
        excluded = False
        if rng.random() < 0.15:
            w(rng.choice(['Manifest.old', 'ManifestX', 'timestamp', 'sub/timestamp.chk']), b'junk')
            excluded = True
        if rng.random() < 0.3:
            # a sub-directory with its own (consistent, empty) Manifest: referenced by a MANIFEST entry, not descended
            w('nested/inner.txt', b'inner')
            w('nested/' + rng.choice(['Manifest', 'Manifest.gz']), b'')
            p = os.path.join(root, 'nested')
            gfm.gen_manifest(p)
        had = None
        if rng.random() < 0.5:
            had = 'DIST foo-1.tar.gz 3 BLAKE2B aa SHA512 bb\n' + ('IGNORE local\n' if rng.random() < 0.3 else '') + \
                  ('DATA stale 1 BLAKE2B 00 SHA512 00\n' if rng.random() < 0.5 else '')
            w('Manifest', had.encode())
        world = trees.world_of(root, HASHES)
        rep = drv.ask({'op': 'fastgen', 'dir': world, 'old': None if had is None else cps(had)})
        before = set(os.listdir(root))
        try:
            gfm.gen_manifest(root)
            err = None
        except Exception as e:
            err = type(e).__name__
        scen = {'op': 'fastgen', 'dir': '.', 'request': {'op': 'fastgen', 'dir': world, 'old': None if had is None else cps(had)}, 'compat': compat, 'had': had}
        ctx.case(json.dumps(scen['request'], sort_keys=True)[:100000], True, {'compat': compat, 'had_manifest': had is not None, 'files': sorted(before), 'error': err})
        ctx.count('single:' + ('compat' if compat else 'plain'))
        if err is not None:
            ctx.fail('generator-raises', scen, err)
            return
        m = rep['model']
        if 'err' not in m:
            name = uncps(m['name'])
            real = read_manifest_file(os.path.join(root, name)) if os.path.isfile(os.path.join(root, name)) else None
            if real != uncps(m['text']):
                ctx.disagree('fastgen(text)', scen, {'text': real}, {'name': name, 'text': uncps(m['text'])})
            after = set(os.listdir(root))
            if after != (before | {name}) - ({'Manifest'} if m['unlink_plain'] else set()):
                ctx.disagree('fastgen(files)', scen, sorted(after), name)
            ctx.traces += 1
        if excluded:
            ctx.count('single:excluded-point(correspondence only)')
            return
        # the property on this directory as a tree of its own (the library accepts a compressed top-level Manifest)
        top = 'Manifest' if os.path.isfile(os.path.join(root, 'Manifest')) else 'Manifest.gz'
        v = treeimpl.verify_dir(root, top, '')
        if v.get('ret') is not True:
            ctx.fail('generator-output-does-not-verify', scen, json.dumps(v)[:300])
            return
        problems, _ = updimpl.exact_check(root, top, '', HASHES)
        if problems:
            ctx.fail('generator-output-not-exact', scen, '; '.join(problems[:5]))
            return
        if had is not None:
            text = read_manifest_file(os.path.join(root, top)) or ''
            for l in had.split('\n'):
                if l.startswith(('DIST', 'IGNORE')) and l not in text.split('\n'):
                    ctx.fail('dist-entry-lost', scen, l)
    finally:
        trees.rmtree(root)


def run(ctx):
    ctx.rule = ('one evaluation = one generated repository (whole-repository generator: every gen_manifest call compared with the '
                'model, call order, split, subprocess run with the real process pool, then verify / exactness / no-op update / '
                '0-5 edits + update + verify) or one single directory (compat mode or not, pre-existing Manifest with DIST/IGNORE/'
                'stale lines or none, dot-files, nested sub-Manifest). Names are portable (the property\'s scope).')
    ctx.assumptions = ['names without whitespace, backslash or control characters (the scripts do not escape); ignored directories absent',
                       'the scripts are imported from /repo/utils of the current tree; the process pool is replaced by a serial map '
                       'for the traced run and kept for the subprocess run']
    gfm, gmm = load_scripts()
    drv = common.Driver()
    q = ctx.tier == 'quick'
    try:
        for i in range(60 if q else 1200):
            repo_case(ctx, drv, gfm, gmm)
        for i in range(300 if q else 6000):
            single_case(ctx, drv, gfm)
    finally:
        drv.close()


def replay(ctx, path):
    d = json.load(open(path))
    s = d['scenario']
    print('kind:', d.get('kind'), 'detail:', d.get('detail'))
    for k in ('categories', 'edits', 'rewritten', 'dir', 'compat', 'had'):
        if k in s:
            print(k + ':', s[k])
    if 'request' in s and s['request'].get('op') == 'fastgen':
        drv = common.Driver()
        try:
            rep = drv.ask(s['request'])
            print('model items:', [(i[0], uncps(i[1])) for i in rep['items']])
            print('model:', {k: (uncps(v) if isinstance(v, list) else v) for k, v in rep['model'].items()})
        finally:
            drv.close()
    return 0
