"""C04 — only the OpenPGP-signed content of a signed Manifest is ever used."""
import io
import json
import os

from harness import common, gen_text, textimpl, gpgutil
from harness.common import cps, uncps

BRIDGE = ('Gemato.Bridge.Text', 'Gemato.Bridge.SrcText', 'Gemato.Bridge.SrcPgp', 'Gemato.Bridge.SrcCodec')
PROPS = ['Gemato.Props.C04', 'Gemato.Props.C04b']


def compare(ctx, drv, text, mode, label, sample=None):
    if mode == 'file':
        try:
            text.encode('utf8')
        except UnicodeEncodeError:
            mode = 'stringio'
    impl = textimpl.impl_load_file(text, tmpdir=ctx.tmp) if mode == 'file' else textimpl.impl_load_stringio(text)
    scen = {'op': 'load_text', 'mode': mode, 'text': cps(text)}
    ctx.count('stream:' + label)
    model = drv.ask(scen)['model']
    key = 'err:' + impl['err'] if 'err' in impl else ('ok-signed' if impl['signed'] is not None else 'ok-unsigned')
    ctx.count('impl:' + key)
    ctx.case(scen, True, sample or {'text': text[:160], 'impl': key})
    if 'err' in impl and impl['err'] not in ('syntax', 'unsigned'):
        ctx.fail('internal-error', scen, impl['err'])
    elif 'err' not in impl and impl['signed'] is not None:
        # the code says "signed": by C04_signed_iff the model decides whether the lines have the signed shape
        if 'err' in model or model['signed'] is None:
            ctx.fail('signed-but-not-of-signed-shape', scen, json.dumps(model)[:200])
        elif impl['entries'] != model['entries']:
            ctx.fail('entries-not-those-of-the-cleartext', scen, json.dumps(model['entries'])[:200])
        elif impl['signed'] != model['signed']:
            ctx.fail('verified-text-is-not-BEGIN..END', scen, '')
    elif 'err' not in impl and impl['signed'] is None and 'err' not in model and model['signed'] is not None:
        ctx.fail('signed-shape-loaded-as-unsigned', scen, '')
    elif 'err' not in impl and 'err' in model:
        ctx.fail('rejected-by-spec-but-accepted', scen, model['err'])
    if impl != model:
        ctx.disagree('load_text', scen, impl, model)
    return impl, model


def signed_flag_after_verify(ctx):
    """the signed flag is set only after the back end returned (a failing back end leaves it unset)"""
    import gemato.manifest as gm
    text = ''.join(l + '\n' for l in [gen_text.BEGIN_MSG, 'Hash: SHA256', '', 'DATA a 0', gen_text.BEGIN_SIG, 'xx', gen_text.END_SIG])

    class Boom(Exception):
        pass
    env = textimpl.RecordingEnv(fail=Boom())
    m = gm.ManifestFile()
    try:
        m.load(io.StringIO(text), verify_openpgp=True, openpgp_env=env)
        ctx.fail('verify-failure-swallowed', {'op': 'load_text', 'mode': 'stringio', 'text': cps(text)}, '')
    except Boom:
        pass
    if m.openpgp_signed:
        ctx.fail('signed-flag-set-before-verification-succeeded', {'op': 'load_text', 'mode': 'stringio', 'text': cps(text)}, '')
    ctx.case('signed-flag', True)


# ---- real gpg ------------------------------------------------------------------

def gpg_mutations(rng, signed):
    lines = signed.split('\n')
    r = rng.random()
    def j(ls):
        return '\n'.join(ls)
    if r < 0.07 and '' in lines:
        # white space on the line that separates the armor headers from the signed text (gpg still takes it for the separator)
        i = lines.index('')
        return 'separator-padded', j(lines[:i] + [rng.choice([' ', '\t', '  \t ', '\r', ' \r'])] + lines[i + 1:])
    if r < 0.11:
        # the newline between two lines replaced by a character that str.splitlines() - but not the parser - takes for a line end
        i = rng.randrange(max(len(lines) - 1, 1))
        sep = rng.choice(['\x0b', '\x0c', '\x1c', '\x1d', '\x1e', '\x85', '\u2028', '\u2029'])
        return 'line-separator-swapped', j(lines[:i]) + ('\n' if i else '') + sep.join(lines[i:i + 2]) + '\n' + j(lines[i + 2:])
    if r < 0.12:
        i = rng.randrange(len(lines))
        return 'trailing-ws', j(lines[:i] + [lines[i] + rng.choice([' ', '\t', '  ', ' \t', '\r', '\x0c', '\xa0', '\x0b'])] + lines[i + 1:])
    if r < 0.2:
        return 'crlf', signed.replace('\n', '\r\n')
    if r < 0.3:
        i = rng.randrange(len(lines))
        return 'dash-escape-added', j(lines[:i] + ['- ' + lines[i]] + lines[i + 1:])
    if r < 0.36:
        i = rng.randrange(len(lines))
        if lines[i].startswith('- '):
            return 'dash-escape-removed', j(lines[:i] + [lines[i][2:]] + lines[i + 1:])
        return 'noop', signed
    if r < 0.44:
        return 'blank-before-after', rng.choice(['\n', ' \n\n', '\t\n']) + signed + rng.choice(['\n', '  \n', ''])
    if r < 0.52:
        return 'text-before', rng.choice(['DATA evil 0\n', 'junk\n', 'IGNORE x\n']) + signed
    if r < 0.6:
        return 'text-after', signed + rng.choice(['DATA evil 0\n', 'junk\n', 'IGNORE x\n'])
    if r < 0.66:
        i = rng.randrange(len(lines))
        return 'line-deleted', j(lines[:i] + lines[i + 1:])
    if r < 0.72:
        i = rng.randrange(len(lines))
        return 'line-duplicated', j(lines[:i + 1] + lines[i:])
    if r < 0.78:
        i, k = rng.randrange(len(lines)), rng.randrange(len(lines))
        ls = list(lines)
        ls.insert(k, ls.pop(i))
        return 'line-moved', j(ls)
    if r < 0.84:
        i = rng.randrange(len(lines))
        return 'armor-header-injected', j(lines[:i] + [rng.choice(['Comment: x', 'Hash: SHA256', 'NotDashEscaped: You need GnuPG to verify this message',
                                                                     'Version: 1', 'Charset: UTF-8'])] + lines[i:])
    if r < 0.9:
        return 'concatenated', signed + signed
    if r < 0.95:
        i = rng.randrange(len(lines))
        return 'entry-inserted', j(lines[:i] + ['DATA evil 0'] + lines[i:])
    i = rng.randrange(len(signed))
    return 'char-flipped', signed[:i] + chr((ord(signed[i]) ^ 1) or 65) + signed[i + 1:]


def parse_plain(text):
    import gemato.manifest as gm
    m = gm.ManifestFile()
    try:
        m.load(io.StringIO(text), verify_openpgp=False)
    except Exception as e:
        return {'err': textimpl.classify_exc(e)}
    if m.openpgp_signed is None:
        pass
    return {'entries': [textimpl.canon_entry(e) for e in m.entries]}


def gpg_case(ctx, drv, env, kind, text):
    """load with real verification; if accepted, compare with what gpg authenticated"""
    import gemato.manifest as gm
    from gemato.exceptions import GematoException
    scen = {'op': 'gpg_load', 'kind': kind, 'text': cps(text)}
    ctx.count('gpg:' + kind)
    env.seen.clear()
    m = gm.ManifestFile()
    try:
        m.load(io.StringIO(text, newline=None), verify_openpgp=True, openpgp_env=env)
        out = 'ok-signed' if m.openpgp_signed else 'ok-unsigned'
    except GematoException as e:
        out = 'gemato:' + type(e).__name__
    except Exception as e:
        out = 'exc:' + type(e).__name__
        ctx.fail('internal-error', scen, out)
    ctx.count('gpg-outcome:' + out)
    ctx.case(scen, True, {'kind': kind, 'outcome': out, 'text': text[:120]})
    if out != 'ok-signed':
        return out
    ctx.traces += 1
    entries = [textimpl.canon_entry(e) for e in m.entries]
    # (1) exactly BEGIN..END went to gpg: the verified text must contain no line outside the block
    sent = env.seen[-1] if env.seen else None
    norm = text.replace('\r\n', '\n').replace('\r', '\n')
    b = norm.find(gen_text.BEGIN_MSG + '\n')
    e = norm.find(gen_text.END_SIG + '\n', b)
    if sent is None or b < 0 or e < 0 or sent != norm[b:e + len(gen_text.END_SIG) + 1]:
        ctx.fail('verified-text-is-not-BEGIN..END', scen, repr(sent)[:200])
    # (2) entries == entries of the cleartext gpg authenticated
    auth = gpgutil.authenticated_cleartext(env, sent if sent is not None else text)
    if auth is None:
        ctx.fail('accepted-but-gpg-does-not-authenticate', scen, '')
        return out
    pa = parse_plain(auth)
    if pa.get('entries') != entries:
        ctx.fail('entries-differ-from-authenticated-cleartext', scen,
                 'authenticated=' + json.dumps(pa)[:300] + ' used=' + json.dumps(entries)[:300])
    return out


def reuse_case(ctx):
    """ONE ManifestFile object loaded several times (the docstring of load() allows it, find_top_level does it): after every
    load - also one that raised - the object says "signed" only if THIS load handed a text to the verifier and it was accepted"""
    import io
    import gemato.manifest as gm
    from gemato.exceptions import OpenPGPVerificationFailure
    rng = ctx.rng

    class Env:
        def __init__(self):
            self.calls = 0

        def verify_file(self, f):
            self.calls += 1
            if 'evil' in f.read():
                raise OpenPGPVerificationFailure('bad signature')
            return 'SIGDATA'
    good = ('-----BEGIN PGP SIGNED MESSAGE-----\nHash: SHA256\n\nDATA a 0\n-----BEGIN PGP SIGNATURE-----\n\nabcd\n'
            '-----END PGP SIGNATURE-----\n')
    pool = [good, good.replace('DATA a 0', 'DATA evil 0'), 'DATA plain 0\n', good + 'DATA after 0\n',
            good[:good.index('-----END')], 'junk line\n', '', good.replace('DATA a 0', '- DATA b 1 MD5 aa')]
    seq = [rng.choice(pool) for _ in range(rng.randint(2, 4))]
    if rng.random() < 0.5:
        seq[0] = good
    m = gm.ManifestFile()
    env = Env()
    scen = {'op': 'reuse', 'texts': [cps(t) for t in seq]}
    ctx.count('stream:object-reuse')
    ctx.case(json.dumps(scen), True, {'n': len(seq)})
    for i, t in enumerate(seq):
        before = env.calls
        raised = None
        try:
            m.load(io.StringIO(t), verify_openpgp=True, openpgp_env=env)
        except Exception as e:
            raised = type(e).__name__
        verified_now = env.calls > before and raised is None
        if bool(m.openpgp_signed) != verified_now:
            ctx.fail('signed-flag-does-not-belong-to-this-load', dict(scen, index=i),
                     f'load #{i} ({"raised " + raised if raised else "returned"}): openpgp_signed={m.openpgp_signed}, '
                     f'verified in this load: {verified_now}')
            return


def run(ctx):
    ctx.rule = ('(a) all line sequences up to a length bound over the ten line classes of the property, with and without final '
                'newline, through StringIO and real files: impl vs model (model = exact shape by C04_signed_iff); '
                '(b) Manifests genuinely signed with gpg, mutated, loaded with real verification; when accepted the entries are '
                'compared with the cleartext `gpg --decrypt` authenticates; (c) one ManifestFile object loaded 2-4 times (accepted, '
                'tampered, unsigned, truncated texts in any order): the signed flag belongs to the last load alone. '
                'non-trivial = every distinct text')
    ctx.assumptions = ['gpg itself (what it authenticates, its framing) is exercised, not modelled',
                       'RFC 4880 canonicalisation: trailing whitespace irrelevance is proved for the parser (C04_trailing_ws_irrelevant)']
    ctx.tmp = common.scratch_dir()
    drv = common.Driver()
    env = None
    try:
        corpus_dir = os.path.join(common.VERIF, 'corpus', 'C04')
        signed_flag_after_verify(ctx)
        maxlen = 4 if ctx.tier == 'quick' else 5
        n = 0
        for combo, text in gen_text.class_texts(maxlen):
            compare(ctx, drv, text, 'stringio' if n % 3 else 'file', 'classes', {'classes': combo})
            n += 1
        ctx.tables[f'line-class sequences (len<={maxlen}, 12 classes, +-final newline)'] = {'size': n, 'exhaustive': True, 'ok': True}
        # longer sampled class sequences
        keys = list(gen_text.LINE_CLASSES)
        for i in range(3000 if ctx.tier == 'quick' else 150000):
            k = ctx.rng.randint(maxlen + 1, 12)
            # bias towards the framework order
            combo = [ctx.rng.choice(keys) for _ in range(k)]
            if ctx.rng.random() < 0.6:
                body = [ctx.rng.choice('VDBQJWX') for _ in range(ctx.rng.randint(0, 4))]
                sig = [ctx.rng.choice('HBAJ') for _ in range(ctx.rng.randint(0, 2))]
                combo = ([ctx.rng.choice('BBV') for _ in range(ctx.rng.randint(0, 2))] + ['M'] +
                         [ctx.rng.choice('HHJ') for _ in range(ctx.rng.randint(0, 2))] + ['B'] + body + ['S'] + sig + ['E'] +
                         [ctx.rng.choice('BBVJ') for _ in range(ctx.rng.randint(0, 2))])
                if ctx.rng.random() < 0.4:
                    del combo[ctx.rng.randrange(len(combo))]
            lines = [gen_text.LINE_CLASSES[c] + ctx.rng.choice(['', '', '', ' ', '\t', '\r']) for c in combo]
            text = '\n'.join(lines) + ctx.rng.choice(['\n', ''])
            compare(ctx, drv, text, ctx.rng.choice(['stringio', 'file']), 'classes-long', {'classes': ''.join(combo)})
        for i in range(300 if ctx.tier == 'quick' else 5000):
            reuse_case(ctx)
        # real gpg
        env = gpgutil.private_env()
        if os.path.isdir(corpus_dir):
            for fn in sorted(os.listdir(corpus_dir)):
                sc = json.load(open(os.path.join(corpus_dir, fn)))['scenario']
                if sc['op'] == 'gpg_load':
                    text = uncps(sc['text']) if 'text' in sc else make_special(env, sc['make'])
                    gpg_case(ctx, drv, env, 'corpus:' + sc['kind'], text)
                else:
                    compare(ctx, drv, uncps(sc['text']), sc['mode'], 'corpus')
        bases = []
        for i in range(6 if ctx.tier == 'quick' else 40):
            es = [e for e in gen_text.rand_entries(ctx.rng, maxn=5)]
            d = textimpl.impl_dump(es)
            if 'err' in d:
                continue
            plain = uncps(d['text'])
            if ctx.rng.random() < 0.5:
                plain += '- dashed line is not an entry\n' if False else ''
            bases.append(gpgutil.clearsign(env, plain))
        # a base whose cleartext needs dash-escaping
        bases.append(gpgutil.clearsign(env, 'DATA a 0\nIGNORE -x\n'))
        # bases whose signed text holds empty lines (legal in a Manifest, skipped by the parser)
        bases.append(gpgutil.clearsign(env, 'TIMESTAMP 2020-01-01T00:00:00Z\nDATA a 0\n\nDATA b 1 MD5 aa\nIGNORE c\n'))
        bases.append(gpgutil.clearsign(env, 'DATA a 0\n\n\nDATA b 0\n\nDATA c 0\n'))
        for s in bases:
            gpg_case(ctx, drv, env, 'genuine', s)
            compare(ctx, drv, s, 'stringio', 'genuine-signed')
        n_mut = 250 if ctx.tier == 'quick' else 6000
        for i in range(n_mut):
            s = ctx.rng.choice(bases)
            kind, t = gpg_mutations(ctx.rng, s)
            if ctx.rng.random() < 0.15:
                k2, t = gpg_mutations(ctx.rng, t)
                kind += '+' + k2
            gpg_case(ctx, drv, env, kind, t)
            compare(ctx, drv, t, 'stringio', 'gpg-mutants(model)')
    finally:
        drv.close()
        if env is not None:
            env.close()
        os.rmdir(ctx.tmp)


def make_special(env, what):
    if what == 'not-dash-escaped':
        return gpgutil.clearsign(env, '- DATA x 0\nDATA y 0\n', ['--not-dash-escaped'])
    raise KeyError(what)


def replay(ctx, path):
    sc = json.load(open(path))['scenario']
    ctx.tmp = common.scratch_dir()
    drv = common.Driver()
    env = None
    try:
        if sc['op'] == 'gpg_load':
            env = gpgutil.private_env()
            text = uncps(sc['text']) if 'text' in sc else make_special(env, sc['make'])
            print(gpg_case(ctx, drv, env, sc['kind'], text))
        else:
            impl, model = compare(ctx, drv, uncps(sc['text']), sc['mode'], 'replay')
            print('impl :', impl)
            print('model:', model)
    finally:
        drv.close()
        if env is not None:
            env.close()
        os.rmdir(ctx.tmp)
    for f in ctx.failures:
        print(f['kind'], f['detail'][:300])
    if ctx.failures:
        print(f'VIOLATION property={ctx.prop} replay={path}')
        return 1
    return 0
