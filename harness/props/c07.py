"""C07 — every offending path is reported and the exit status reflects any failure."""
import json
import os

from harness import common, gen_tree, trees, treeimpl
from harness.common import cps, uncps
from harness.props.c01 import model_verify, all_texts

BRIDGE = ('Gemato.Bridge.Tree', 'Gemato.Bridge.SrcWalk', 'Gemato.Bridge.SrcVerify', 'Gemato.Bridge.SrcLoader', 'Gemato.Bridge.SrcCli')
PROPS = ['Gemato.Props.C07', 'Gemato.Props.C01b']


def offending_oracle(root, pl, path, top):
    """independent computation of the offending set for keep-going mode, from the on-disk state and the
    Manifest texts (parsed with a mini-parser, not gemato): entries whose file is missing/altered/of wrong
    type, and stray files. Only used on trees without duplicate entries / odd layouts."""
    return None


def one_tree(ctx, drv):
    rng = ctx.rng
    root = common.scratch_dir('gv.c07.')
    try:
        pl = gen_tree.gen_plan(rng, depth=rng.choice([1, 2, 3]), hostile=rng.random() < 0.6, max_files=4)
        pl.no_conflicts = True
        gen_tree.layout(pl, rng, p_dup=0.05)
        gen_tree.write_plan(pl, root)
        # several simultaneous discrepancies, remembered with whether each must be reported
        expected = {}      # relpath -> must be reported (True) / must not (False)
        for _ in range(rng.randint(0, 6)):
            m = gen_tree.mutate_tree(pl, rng, root)
            if m is None:
                continue
            kind, p, mf = m
            ctx.count('mutation:' + kind)
            if kind == 'delete-dir':
                # what was expected below the vanished directory: listed files are now missing (reported), strays are gone
                dd = pl.last_deleted_dir
                listed = set(gen_tree.listed_files(pl))
                for q in list(expected):
                    if q.startswith(dd + '/'):
                        if q in listed:
                            expected[q] = True
                        else:
                            del expected[q]
            expected[p] = bool(mf) if p not in expected else (expected[p] or bool(mf))
        texts = all_texts(root)
        dirs = sorted(d for d in pl.dirs if os.path.isdir(os.path.join(root, d)))
        for path in [''] + ([rng.choice(dirs)] if dirs else []):
            for policy in ('all-false', 'all-true', 'mixed'):
                exc = set()
                if policy == 'mixed':
                    exc = set(p for p in expected if rng.random() < 0.5)
                h = treeimpl.Recorder(default=(policy == 'all-true'), exceptions=exc if policy != 'mixed' else exc)
                if policy == 'mixed':
                    h = treeimpl.Recorder(default=False, exceptions=exc)
                impl = treeimpl.verify_dir(root, pl.top, path, h)
                h2 = treeimpl.Recorder(default=h.default, exceptions=h.exceptions)
                model, req = model_verify(drv, root, pl.top, path, texts, h2)
                scen = {'op': 'verify_keepgoing', 'request': req, 'expected': sorted(expected.items()), 'policy': policy}
                ctx.count('policy:' + policy)
                ctx.count('n_discrepancies:%d' % len([1 for v in expected.values() if v]))
                ctx.case(json.dumps(req, sort_keys=True), True,
                         {'path': path, 'policy': policy, 'mutations': sorted(expected.items())[:6],
                          'impl': impl if 'err' in impl else {'ret': impl['ret'], 'calls': [uncps(c) for c in impl['calls']]}})
                if model.get('err') == 'abstain':
                    ctx.count('model-abstained')
                    continue
                if treeimpl.is_internal(impl):
                    ctx.fail('internal-error', scen, impl['err'])
                    continue
                in_ignored = any(path == i or path.startswith(i + '/') for i in pl.ignored) or gen_tree.is_hidden_path(path)
                if in_ignored:
                    # verifying a directory that the Manifests IGNORE is outside the property's reading (DESIGN F13):
                    # the CLI never does it (discovery stops at the ignoring Manifest); model agreement still applies
                    ctx.count('sub-path-inside-ignored(no by-construction oracle)')
                if 'calls' in impl and not in_ignored:
                    calls = [uncps(c) for c in impl['calls']]
                    # exactly once per offending path
                    if len(set(calls)) != len(calls):
                        ctx.fail('handler-called-twice-for-a-path', scen, str(calls))
                    # every discrepancy placed below `path` that must be reported is reported
                    for p, must in expected.items():
                        inside = (path == '' or p == path or p.startswith(path + '/'))
                        if must and inside and p not in calls and 'unreferenced-manifest' not in pl.notes:
                            ctx.fail('offending-path-not-reported', scen, p)
                        if not must and p in calls and not pl.notes:
                            ctx.fail('non-offending-path-reported', scen, p)
                    # result is failure iff some invocation returned failure
                    want_false = any((p in h.exceptions) != (not h.default) if False else
                                     ((not h.default) if p not in h.exceptions else h.default) for p in calls)
                    if (impl['ret'] is False) != want_false:
                        ctx.fail('result-does-not-reflect-handler-verdicts', scen, str(impl['ret']))
                    # model agreement as sets (the model's theorem: calls are exactly the failing checks)
                    if 'calls' in model and sorted(impl['calls']) != sorted(model['calls']):
                        if set(map(tuple, model['calls'])) - set(map(tuple, impl['calls'])):
                            ctx.fail('offending-path-not-reported', scen,
                                     str([uncps(c) for c in model['calls'] if c not in impl['calls']]))
                if impl != model:
                    ctx.disagree('verify_keepgoing', scen, impl, model)
        # CLI --keep-going: exit status
        rc = treeimpl.cli_verify(root, [''], ('-k',))
        lib = treeimpl.verify_dir(root, pl.top, '', treeimpl.Recorder(False))
        if 'ret' in lib and (rc == 0) != (lib['ret'] is True):
            ctx.fail('cli-exit-status', {'op': 'cli-k', 'lib': lib}, f'exit {rc}')
        ctx.case('cli' + root, True)
    finally:
        trees.rmtree(root)


def wide_tree(ctx, drv):
    """more directories than one chunk of the (parallel) directory pass holds - 70 to 150 -, a stray file in every one: each of
    them is reported, whichever position its directory has in the walk"""
    rng = ctx.rng
    root = common.scratch_dir('gv.c07w.')
    try:
        n = rng.choice([66, 70, 129, 150])
        from harness.trees import entry_line, digests_of
        lines = []
        for i in range(n):
            d = 'pkgs/d%04d' % i
            os.makedirs(os.path.join(root, d))
            open(os.path.join(root, d, 'f'), 'wb').write(b'content %d' % i)
            lines.append(entry_line('DATA', d + '/f', len(b'content %d' % i), digests_of(b'content %d' % i, ['SHA1'])))
            open(os.path.join(root, d, 'stray'), 'wb').write(b's')
        open(os.path.join(root, 'Manifest'), 'w').write(''.join(l + '\n' for l in lines))
        for path in ('', 'pkgs'):
            h = treeimpl.Recorder(default=False)
            impl = treeimpl.verify_dir(root, 'Manifest', path, h)
            reported = sorted(set(h.calls))
            want = sorted('pkgs/d%04d/stray' % i for i in range(n))
            scen = {'op': 'wide-tree', 'directories': n, 'path': path}
            ctx.count('stream:wide-tree')
            ctx.case(json.dumps(scen), True, dict(scen, reported=len(reported)))
            if reported != want or impl.get('ret') is not False:
                missing = sorted(set(want) - set(reported))
                ctx.fail('offending-path-not-reported', dict(scen, missing=missing[:5]), f'{len(missing)} of {n} strays never reported; result {impl}')
    finally:
        trees.rmtree(root)


def run(ctx):
    ctx.rule = ('consistent trees with 0-6 simultaneous discrepancies in several directories (12 mutation kinds incl. missing '
                'directories, files in IGNOREd/hidden places), whole tree and a sub-path, handler policies always-False / always-True / '
                'mixed; CLI --keep-going; wide trees of 66-150 directories with a stray in each. Oracle: by-construction expectations (reported iff offending, exactly once), result iff some '
                'verdict was failure, and agreement with the Lean model. non-trivial = every distinct request')
    ctx.assumptions = ['trees whose layout has duplicate/conflicting entries are excluded from the by-construction oracle (model agreement still applies)']
    drv = common.Driver()
    try:
        n = 400 if ctx.tier == 'quick' else 4000
        for i in range(n):
            one_tree(ctx, drv)
        for i in range(2 if ctx.tier == 'quick' else 12):
            wide_tree(ctx, drv)
    finally:
        drv.close()


def replay(ctx, path):
    d = json.load(open(path))
    drv = common.Driver()
    try:
        print('model:', drv.ask(d['scenario']['request'])['model'])
        print('expected (path, must-be-reported):', d['scenario'].get('expected'))
    finally:
        drv.close()
    return 0
