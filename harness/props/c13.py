"""C13 — compression is transparent and follows the watermark."""
import io
import itertools
import json
import os

from harness import common, gen_tree, trees, treeimpl, updimpl
from harness.common import cps, uncps
from harness.props import c03
from harness.props.c02 import chain_plan

BRIDGE = ('Gemato.Bridge.FindTop', 'Gemato.Bridge.Profile', 'Gemato.Bridge.SrcUpdate', 'Gemato.Bridge.SrcLoader', 'Gemato.Bridge.SrcText', 'Gemato.Bridge.SrcCodec', 'Gemato.Bridge.SrcProfile', 'Gemato.Bridge.SrcCli')
PROPS = ['Gemato.Props.C13', 'Gemato.Props.C13b', 'Gemato.Props.C03b']
FORMATS = ['', '.gz', '.bz2', '.lzma', '.xz']


def small_plan(rng, n_sub):
    pl = gen_tree.Plan()
    names = ['a', 'b b', 'c', 'é']
    pl.manifests['Manifest'] = []
    for i in range(n_sub):
        d = names[i]
        pl.dirs.add(d)
        for k in range(rng.randint(1, 3)):
            p = f'{d}/f{k}'
            pl.files[p] = bytes(rng.randrange(256) for _ in range(rng.randint(0, 30)))
    pl.files['top.txt'] = b'top'
    return pl, names[:n_sub]


def write_assignment(pl, subs, fmts, root):
    """same logical layout, the sub-Manifests stored in the given formats"""
    pl.manifests = {'Manifest': [{'tag': 'DATA', 'path': 'top.txt', 'target': 'top.txt', 'hashes': ['SHA1']}]}
    for d, fmt in zip(subs, fmts):
        mp = f'{d}/Manifest{fmt}'
        pl.manifests[mp] = [{'tag': 'DATA', 'path': os.path.basename(p), 'target': p, 'hashes': ['SHA256']}
                            for p in sorted(pl.files) if p.startswith(d + '/')]
        pl.manifests[mp].append({'tag': 'DIST', 'path': 'dist-%s.tar' % d[0], 'size': 1, 'cks': {'MD5': 'aa'}})
        pl.manifests['Manifest'].append({'tag': 'MANIFEST', 'path': mp, 'target': mp, 'hashes': ['SHA512']})
    trees.rmtree(root)
    gen_tree.write_plan(pl, root)


def observations(root, pl, subs):
    """verification and lookup results that must not depend on the storage format"""
    obs = {}
    obs['verify'] = treeimpl.verify_dir(root, 'Manifest', '')
    for d in subs:
        obs['verify:' + d] = treeimpl.verify_dir(root, 'Manifest', d)
        f = sorted(p for p in pl.files if p.startswith(d + '/'))[0]
        e = treeimpl.lookup(root, 'Manifest', 'find_path_entry', f)
        obs['entry:' + f] = e
        obs['vp:' + f] = treeimpl.lookup(root, 'Manifest', 'verify_path', f)
        obs['dist:' + d] = treeimpl.lookup(root, 'Manifest', 'find_dist_entry', d, 'dist-%s.tar' % d[0])
        obs['stray:' + d] = treeimpl.lookup(root, 'Manifest', 'verify_path', d + '/nope')
    return obs


def transparency(ctx, drv):
    rng = ctx.rng
    root = common.scratch_dir('gv.c13.')
    try:
        n_sub = rng.randint(1, 3 if ctx.tier == 'quick' else 4)
        pl, subs = small_plan(rng, n_sub)
        tamper = rng.random() < 0.5
        base = None
        n = 0
        for fmts in itertools.product(FORMATS, repeat=n_sub):
            write_assignment(pl, subs, fmts, root)
            if tamper:
                victim = sorted(pl.files)[0]
                open(os.path.join(root, victim), 'ab').write(b'!')
            obs = observations(root, pl, subs)
            # the MANIFEST entry names the stored file: compare everything but that path
            n += 1
            scen = {'op': 'transparency', 'formats': list(fmts), 'tampered': tamper, 'files': sorted(pl.files)}
            ctx.case(json.dumps(scen), True, dict(scen, verdict=obs['verify']))
            if tamper and victim != 'top.txt' and obs['verify'].get('ret') is True:
                ctx.fail('tampering-not-detected', scen, '')
            if base is None:
                base = (fmts, obs)
            elif obs != base[1]:
                diff = [k for k in obs if obs[k] != base[1][k]]
                ctx.fail('result-depends-on-compression-format', scen, f'{diff} vs formats {base[0]}')
        ctx.count('assignments', n)
    finally:
        trees.rmtree(root)


def unc_size(path):
    m = updimpl.read_manifest(path)
    b = io.StringIO()
    m.dump(b)
    return len(b.getvalue().encode('utf8')), any(e.tag == 'EBUILD' for e in m.entries)


def post_save_oracle(ctx, scen, root, top, before, after, wm):
    """the statement of C13 about one save: every rewritten sub-Manifest stored compressed iff its uncompressed size >= watermark,
    one file per logical Manifest, parents reference the new names, the tree verifies (with a fresh loader)"""
    rewritten = [p for p in after if os.path.basename(p).startswith('Manifest') and before.get(p) != after.get(p)]
    for p in rewritten:
        fp = os.path.join(root, p)
        if not os.path.isfile(fp):
            continue
        size, has_ebuild = unc_size(fp)
        compressed = os.path.splitext(p)[1] in FORMATS[1:]
        if p == 'Manifest':
            continue                      # a top-level file literally named Manifest is never compressed implicitly
        logical = p[:-len(os.path.splitext(p)[1])] if compressed else p
        want = wm is not None and size >= wm   # (a top-level Manifest that IS compressed follows the watermark like any other)
        def same_logical0(q):
            return q == logical or any(q == logical + s for s in FORMATS[1:])
        if len([q for q in before if same_logical0(q)]) > 1:
            # two files for this logical Manifest BEFORE the update (Manifest next to Manifest.gz): outside the premise "one file
            # per logical Manifest"; the code keeps both as they are rather than renaming one onto the other (repair of F8)
            ctx.count('outside-premise:two-files-for-one-logical-manifest-before')
        elif wm is not None and compressed != want:
            ctx.fail('watermark-not-followed', dict(scen, manifest=p), f'size {size} watermark {wm} compressed {compressed}')
        # exactly one file per logical Manifest
        # (a second file for the same logical Manifest that was there BEFORE the update is prior state, not a failed rename)
        def same_logical(q):
            return q == logical or any(q == logical + s for s in FORMATS[1:])
        prior = [q for q in before if same_logical(q)]
        twins = [q for q in after if q != p and same_logical(q)]
        # (several files for this logical Manifest BEFORE the update are prior state - the territory of finding F8 -,
        # not a rename that left its old file behind)
        if twins and len(prior) <= 1:
            ctx.fail('two-files-for-one-manifest', dict(scen, manifest=p), str(twins))
    # parents reference the new names, and the tree still verifies
    problems, in_use = updimpl.exact_check(root, top, '', ['SHA1'])
    v = treeimpl.verify_dir(root, top, '')
    if problems or v.get('ret') is not True:
        pp = sorted(set(p.split(':', 1)[1].split(':')[0].split(' in ')[0] for p in problems))
        ctx.fail('not-exact-after-update', dict(scen, problem_paths=pp), '; '.join(problems[:4]) + ' ' + json.dumps(v)[:100])


def session(ctx, drv):
    """ONE loader object through 2-5 rounds of edits + update_entries_for_directory + save_manifests with changing watermarks,
    formats, force and sort (what a long-running caller does): renames made by an earlier save (the top-level Manifest
    included) must not derail a later one"""
    rng = ctx.rng
    root = common.scratch_dir('gv.c13s.')
    try:
        pl = gen_tree.gen_plan(rng, depth=rng.choice([1, 2, 3]), hostile=rng.random() < 0.4, max_files=3)
        pl.no_conflicts = True
        gen_tree.layout(pl, rng, p_dup=0.0, p_second=0.3, p_sub=0.7, p_third=0.5)
        if rng.random() < 0.5 and pl.top == 'Manifest':
            # a compressed top-level Manifest: falls below the watermark in some round and is renamed
            fmt = rng.choice(FORMATS[1:])
            pl.manifests['Manifest' + fmt] = pl.manifests.pop('Manifest')
            pl.top = 'Manifest' + fmt
        gen_tree.write_plan(pl, root)
        base = {'hashes': ['SHA1']}
        try:
            l = updimpl.make_loader(root, pl.top, base)
        except Exception as e:
            ctx.count('session:cannot-open:' + treeimpl.classify(e)['err'])
            return
        reqs = []
        top = pl.top
        for rnd in range(rng.randint(2, 5)):
            if rng.random() < 0.6:
                gen_tree.mutate_tree(pl, rng, root, spare_manifests=True)
            wm = rng.choice([0, 0, 60, 200, 10**9, 10**9, None])
            kw = {'force': rng.random() < 0.6, 'sort': rng.random() < 0.5}
            if wm is not None:
                kw['compress_watermark'] = wm
                kw['compress_format'] = rng.choice(['gz', 'bz2', 'lzma', 'xz'])
            texts = c03.all_texts(root)
            world = trees.world_of(root, {'SHA1'} | set(trees.hash_names_in(texts)))
            before = updimpl.snapshot(root)
            try:
                with treeimpl.time_limit(10):
                    l.update_entries_for_directory('')
                    l.save_manifests(**kw)
                impl = {'ok': True, 'top': l.top_level_manifest_filename}
            except Exception as e:
                impl = treeimpl.classify(e)
            after = updimpl.snapshot(root)
            post = updimpl.post_table(root, sorted({'SHA1'} | set(trees.hash_names_in(c03.all_texts(root)))))
            reqs.append({'op': 'update', 'world': world, 'top': cps(pl.top), 'path': cps(''), 'create': False, 'xdev': True,
                         'hashes': [cps('SHA1')], 'profile': 'default', 'last_mtime': None,
                         'save': {'force': kw['force'], 'sort': kw['sort'], 'watermark': wm, 'format': cps(kw.get('compress_format', 'gz'))},
                         'post': post, 'do_save': True})
            rep = drv.ask({'op': 'session', 'rounds': reqs})['rounds']
            scen = {'op': 'session', 'request': {'op': 'session', 'rounds': reqs}, 'round': rnd, 'options': [r['save'] for r in reqs]}
            ctx.count('stream:session')
            ctx.count('session-round:%d' % rnd)
            ctx.count('session-impl:' + ('ok' if 'ok' in impl else impl['err']))
            ctx.case(json.dumps(reqs, sort_keys=True)[:100000], True, {'round': rnd, 'save': [r['save'] for r in reqs], 'impl': impl})
            if len(rep) == len(reqs) and rep[-1]['model'].get('err') != 'abstain':
                c03.compare_with_disk(ctx, scen, root, before, after, rep[-1]['model'], impl)
                # the state carried into the next round: the load order (save_manifests orders its work by it)
                if 'ok' in impl and 'loaded' in rep[-1]['model']:
                    lo_m = [uncps(kv[0]) for kv in rep[-1]['model']['loaded']]
                    lo_i = list(l.loaded_manifests)
                    if lo_m != lo_i:
                        ctx.disagree('session(load order)', scen, {'loaded': lo_i}, {'loaded': lo_m})
            if 'ok' not in impl:
                if treeimpl.is_internal(impl):
                    ctx.fail('internal-error', scen, impl['err'])
                break
            if impl['top'] != top:
                ctx.count('session:top-level-renamed')
            top = impl['top']
            post_save_oracle(ctx, scen, root, top, before, after, wm)
    finally:
        trees.rmtree(root)


def watermark(ctx, drv):
    rng = ctx.rng
    root = common.scratch_dir('gv.c13w.')
    try:
        pl = gen_tree.gen_plan(rng, depth=rng.choice([1, 2, 3]), hostile=rng.random() < 0.7, max_files=4)
        pl.no_conflicts = True
        gen_tree.layout(pl, rng, p_dup=0.0, p_second=0.0, p_sub=0.6)
        gen_tree.write_plan(pl, root)
        top = pl.top
        for rnd in range(rng.randint(1, 4)):
            # the sizes of the Manifests as they would be written now
            sizes = []
            multibyte = []
            for dp, dn, fn in os.walk(root):
                for f in fn:
                    if f.startswith('Manifest') and os.path.isfile(os.path.join(dp, f)):
                        try:
                            sz = unc_size(os.path.join(dp, f))[0]
                            sizes.append(sz)
                            t = trees.decompress_by_name(f, open(os.path.join(dp, f), 'rb').read())
                            if t is not None and len(t) != len(t.encode('utf8')) and dp != root:
                                multibyte.append(sz)      # size in bytes differs from the number of characters
                        except Exception:
                            pass
            s0 = rng.choice(multibyte) if multibyte and rng.random() < 0.7 else rng.choice(sizes or [10])
            wm = rng.choice([0, max(s0 - 1, 0), s0, s0 + 1, 10**9])
            o = {'hashes': ['SHA1'], 'compress_watermark': wm, 'compress_format': rng.choice(['gz', 'bz2', 'lzma', 'xz']),
                 'force': rng.random() < 0.6, 'sort': rng.random() < 0.5}
            if rng.random() < 0.25:
                # the ebuild profile brings its own defaults (watermark 128): an explicit watermark - 0 included - stays in force
                o['profile'] = 'ebuild'
                o.pop('sort')
            if rng.random() < 0.5:
                gen_tree.mutate_tree(pl, rng, root)
            texts = c03.all_texts(root)
            world = trees.world_of(root, {'SHA1'} | set(trees.hash_names_in(texts)))
            before = updimpl.snapshot(root)
            before_m = {p: v for p, v in before.items() if os.path.basename(p).startswith('Manifest')}
            impl, eff = updimpl.run_update(root, top, '', o)
            after = updimpl.snapshot(root)
            model, req = c03.model_update(drv, root, top, '', o, eff, world)
            scen = {'op': 'watermark', 'request': req, 'options': o, 'round': rnd}
            ctx.count('watermark-kind:' + ('0' if wm == 0 else 'inf' if wm == 10**9 else 'size%+d' % (wm - s0)))
            ctx.case(json.dumps(req, sort_keys=True)[:100000], True, {'options': o, 'impl': impl, 'manifests_before': sorted(before_m)})
            if model.get('err') != 'abstain':
                c03.compare_with_disk(ctx, scen, root, before, after, model, impl)
            if 'ok' not in impl:
                if treeimpl.is_internal(impl):
                    ctx.fail('internal-error', scen, impl['err'])
                break
            top = impl['top']
            post_save_oracle(ctx, scen, root, top, before, after, wm)
    finally:
        trees.rmtree(root)


def format_table(ctx, drv):
    """every stored format x every target format x both directions on one fixed layout: the rename bookkeeping must use the
    suffix the file HAS when uncompressing and the requested format when compressing"""
    from harness.trees import entry_line, digests_of, compress
    ok = True
    n = 0
    for stored in FORMATS:
        for target in ('gz', 'bz2', 'lzma', 'xz'):
            for wm in (0, 10**9):
                root = common.scratch_dir('gv.c13t.')
                try:
                    os.makedirs(os.path.join(root, 'a', 'deep'))
                    open(os.path.join(root, 'a', 'f'), 'wb').write(b'eff')
                    open(os.path.join(root, 'a', 'deep', 'g'), 'wb').write(b'gee')
                    dt = entry_line('DATA', 'g', 3, digests_of(b'gee', ['SHA1'])) + '\n'
                    draw = compress(stored, dt.encode())
                    open(os.path.join(root, 'a', 'deep', 'Manifest' + stored), 'wb').write(draw)
                    at = entry_line('DATA', 'f', 3, digests_of(b'eff', ['SHA1'])) + '\n' + \
                        entry_line('MANIFEST', 'deep/Manifest' + stored, len(draw), digests_of(draw, ['SHA1'])) + '\n'
                    araw = compress(stored, at.encode())
                    open(os.path.join(root, 'a', 'Manifest' + stored), 'wb').write(araw)
                    open(os.path.join(root, 'Manifest'), 'w').write(
                        entry_line('MANIFEST', 'a/Manifest' + stored, len(araw), digests_of(araw, ['SHA1'])) + '\n')
                    o = {'hashes': ['SHA1'], 'compress_watermark': wm, 'compress_format': target, 'force': True}
                    world = trees.world_of(root, {'SHA1'})
                    before = updimpl.snapshot(root)
                    impl, eff = updimpl.run_update(root, 'Manifest', '', o)
                    after = updimpl.snapshot(root)
                    model, req = c03.model_update(drv, root, 'Manifest', '', o, eff, world)
                    scen = {'op': 'format-table', 'request': req, 'options': o, 'stored': stored, 'target': target}
                    n += 1
                    ctx.case(json.dumps([stored, target, wm]), True, {'stored': stored, 'target': target, 'watermark': wm, 'impl': impl})
                    d0 = len(ctx.disagreements)
                    if model.get('err') != 'abstain':
                        c03.compare_with_disk(ctx, scen, root, before, after, model, impl)
                    names = sorted(p for p in after if os.path.basename(p).startswith('Manifest'))
                    # compress: every sub-Manifest ends as Manifest.<what it had, or the target if it was plain>; uncompress: plain
                    if wm == 0:
                        want = ['Manifest'] + ['a/Manifest' + (stored or '.' + target), 'a/deep/Manifest' + (stored or '.' + target)]
                    else:
                        want = ['Manifest', 'a/Manifest', 'a/deep/Manifest']
                    if 'ok' not in impl or names != sorted(want):
                        ctx.fail('watermark-not-followed', scen, f'files {names}, expected {sorted(want)}; {impl}')
                        ok = False
                        continue
                    problems, _ = updimpl.exact_check(root, 'Manifest', '', ['SHA1'])
                    v = treeimpl.verify_dir(root, 'Manifest', '')
                    if problems or v.get('ret') is not True:
                        ctx.fail('not-exact-after-update', dict(scen, problem_paths=[]), '; '.join(problems[:4]) + ' ' + json.dumps(v)[:100])
                        ok = False
                    if len(ctx.disagreements) > d0:
                        ok = False
                finally:
                    trees.rmtree(root)
    ctx.tables['stored format x target format x {compress all, uncompress all} on a three-level layout'] = {'size': n, 'exhaustive': True, 'ok': ok}


def run(ctx):
    ctx.rule = ('(a) transparency: small layouts with 1-4 sub-Manifests, EVERY assignment of {plain, gz, bz2, lzma, xz} to them '
                '(exhaustive), consistent and tampered: directory verification, verify_path, find_path_entry, find_dist_entry must '
                'give equal results across assignments; (b) watermark: generated layouts, watermark in {0, size-1, size, size+1, inf} '
                'of an existing Manifest, every target format, forced and unforced saves, 1-4 rounds (re-compression both ways): each '
                'rewritten sub-Manifest compressed iff uncompressed size >= watermark, top-level Manifest never, one file per logical '
                'Manifest, exactness and verification afterwards; model correspondence byte for byte; (c) sessions: ONE loader object '
                'through 2-5 rounds of edits + update + save with changing watermark / format / force / sort, the top-level Manifest '
                'compressed in half of them (so that a save renames it): same oracle after every save, and the model run as one '
                'state threaded through the rounds.')
    ctx.assumptions = ['codec round-trips are exercised, not proved']
    drv = common.Driver()
    try:
        format_table(ctx, drv)
        for i in range(6 if ctx.tier == 'quick' else 60):
            transparency(ctx, drv)
        for i in range(350 if ctx.tier == 'quick' else 4000):
            watermark(ctx, drv)
        for i in range(250 if ctx.tier == 'quick' else 3000):
            session(ctx, drv)
    finally:
        drv.close()


def replay(ctx, path):
    print(json.dumps({k: v for k, v in json.load(open(path))['scenario'].items() if k != 'request'}, indent=1)[:3000])
    return 0
