"""C15 — top-level Manifest discovery returns the outermost covering Manifest."""
import itertools
import json
import os
import types

from harness import common, trees
from harness.common import cps, uncps

BRIDGE = ('Gemato.Bridge.FindTop', 'Gemato.Bridge.SrcFindTop', 'Gemato.Bridge.SrcText', 'Gemato.Bridge.SrcVerify', 'Gemato.Bridge.SrcCodec')
PROPS = ['Gemato.Props.C15']
NAMES = ['aa', 'a', 'aab', 'cc', 'a a', 'é']


class FakeOS(types.ModuleType):
    """os with st_dev overridden for everything below given directories (a mounted-in file system)"""
    def __init__(self, devmap):
        super().__init__('os')
        self.__dict__.update(os.__dict__)
        self._devmap = devmap          # list of (realpath prefix, dev)
        # the copied module functions would shadow the overriding methods
        self.__dict__['stat'] = self._stat
        self.__dict__['fstat'] = self._fstat

    def _dev_for(self, real, dflt):
        best = None
        for pre, dev in self._devmap:
            if real == pre or real.startswith(pre + '/'):
                if best is None or len(pre) > len(best[0]):
                    best = (pre, dev)
        return best[1] if best else dflt

    def _wrap(self, st, real):
        class S:
            pass
        s = S()
        for k in dir(st):
            if k.startswith('st_'):
                setattr(s, k, getattr(st, k))
        s.st_dev = self._dev_for(real, st.st_dev)
        return s

    def _stat(self, p, *a, **kw):
        return self._wrap(os.stat(p, *a, **kw), os.path.realpath(p))

    def _fstat(self, fd):
        return self._wrap(os.fstat(fd), os.path.realpath('/proc/self/fd/%d' % fd))


def observe_levels(fos, start, allow_compressed):
    """the chain of directories as the model sees it: read from the real disk"""
    names = ['Manifest' + s for s in trees.SUFFIXES] if allow_compressed else ['Manifest']
    root_st = fos.stat('/')
    levels = []
    cur = os.path.realpath(start)
    startreal = cur
    while True:
        st = fos.stat(cur)
        cands = []
        for nm in names:
            p = os.path.join(cur, nm)
            if not os.path.lexists(p) or not os.path.exists(p):
                cands.append([cps(nm), 'absent'])
            elif os.path.isdir(p):
                cands.append([cps(nm), 'isdir'])
            elif not os.path.isfile(p):
                cands.append([cps(nm), 'special'])
            else:
                t = trees.decompress_by_name(nm, open(p, 'rb').read())
                fdev = fos.stat(p).st_dev
                cands.append([cps(nm), 'corrupt'] if t is None else [cps(nm), 'text', fdev, cps(t)])
        rel = os.path.relpath(startreal, cur)
        levels.append({'dev': st.st_dev, 'root': (st.st_dev == root_st.st_dev and st.st_ino == root_st.st_ino),
                       'rel': cps('' if rel == '.' else rel), 'cands': cands})
        if cur == '/':
            break
        cur = os.path.dirname(cur)
    return levels


def impl_find(fos, start, allow_xdev, allow_compressed):
    import gemato.find_top_level as ft
    from harness.treeimpl import classify
    orig = ft.os
    ft.os = fos
    try:
        from harness import treeimpl
        with treeimpl.time_limit(10):
            r = ft.find_top_level_manifest(start, allow_xdev=allow_xdev, allow_compressed=allow_compressed)
    except Exception as e:
        return classify(e)
    finally:
        ft.os = orig
    return {'found': None if r is None else os.path.realpath(r)}


def case(ctx, drv, top, chain, contents, start_depth, allow_xdev, allow_compressed, devmap, label):
    """chain: directory names below `top`; contents: per level (0 = top) {file name: text or ('bytes', b) or ('dir',)}"""
    trees.rmtree(top)
    os.makedirs(os.path.join(top, *chain), exist_ok=True)
    for lvl, files in enumerate(contents):
        d = os.path.join(top, *chain[:lvl])
        for nm, c in files.items():
            p = os.path.join(d, nm)
            if c == ('dir',):
                os.makedirs(p, exist_ok=True)
            elif c == ('fifo',):
                os.mkfifo(p)
            else:
                data = c[1] if isinstance(c, tuple) else trees.compress(os.path.splitext(nm)[1] if os.path.splitext(nm)[1] in trees.SUFFIXES else '', c.encode('utf8'))
                open(p, 'wb').write(data)
    start = os.path.join(top, *chain[:start_depth])
    fos = FakeOS([(os.path.realpath(os.path.join(top, *chain[:k])), dev) for k, dev in devmap])
    impl = impl_find(fos, start, allow_xdev, allow_compressed)
    levels = observe_levels(fos, start, allow_compressed)
    rep = drv.ask({'op': 'find_top', 'allow_xdev': allow_xdev, 'levels': levels})
    model = rep['model']

    def to_path(found):
        if found is None:
            return None
        idx, nm = found
        return os.path.realpath(os.path.join(start, *(['..'] * idx), uncps(nm)))
    if 'found' in model:
        model = {'found': to_path(model['found'])}
    spec = to_path(rep['spec'])
    scen = {'op': 'find_top', 'chain': chain, 'contents': [{k: (v if isinstance(v, str) else repr(v)) for k, v in f.items()} for f in contents],
            'start_depth': start_depth, 'allow_xdev': allow_xdev, 'allow_compressed': allow_compressed, 'devmap': devmap}
    ctx.count('stream:' + label)
    ctx.count('impl:' + ('none' if impl.get('found', 1) is None else ('found' if 'found' in impl else impl['err'])))
    ctx.case(scen, True, {k: scen[k] for k in ('chain', 'start_depth', 'allow_xdev', 'allow_compressed', 'devmap')} |
             {'manifests': [sorted(f) for f in contents], 'impl': impl})
    if 'err' in impl and impl['err'].startswith('internal:'):
        ctx.fail('internal-error', scen, impl['err'])
    elif 'found' in impl and 'found' in model and impl['found'] != spec:
        ctx.fail('not-the-outermost-covering-manifest', scen, f'impl={impl["found"]} spec={spec}')
    elif 'found' in impl and not allow_compressed and impl['found'] and not impl['found'].endswith('/Manifest'):
        ctx.fail('compressed-manifest-considered', scen, impl['found'])
    if impl != model:
        ctx.disagree('find_top', scen, impl, model)


def level_contents(rng, chain, lvl, depth):
    """a Manifest (plain / compressed / absent / both) with IGNORE entries naming the path below it, an ancestor of it,
    a sibling, or a string-prefix look-alike"""
    below = chain[lvl:depth]
    files = {}
    r = rng.random()
    if r < 0.25:
        return files
    lines = []
    if below and rng.random() < 0.5:
        k = rng.choice(['path', 'ancestor', 'sibling', 'lookalike', 'lookalike2', 'data-before-ignore', 'slash', 'descendant', 'descendant'])
        full = '/'.join(below)
        anc = '/'.join(below[:rng.randint(1, len(below))])
        if k == 'path':
            lines.append('IGNORE ' + trees.enc_path(full))
        elif k == 'ancestor':
            lines.append('IGNORE ' + trees.enc_path(anc))
        elif k == 'sibling':
            lines.append('IGNORE ' + trees.enc_path('/'.join(below[:-1] + ['zz'])))
        elif k == 'lookalike':
            lines.append('IGNORE ' + trees.enc_path(full[:-1] if len(full) > 1 else full + 'x'))
        elif k == 'lookalike2':
            lines.append('IGNORE ' + trees.enc_path(anc + 'b'))
        elif k == 'descendant':
            # something strictly BELOW the starting path is ignored: the start itself is not
            lines.append('IGNORE ' + trees.enc_path(full + '/' + rng.choice(['files', 'x', below[-1]])))
        elif k == 'slash':
            lines.append('IGNORE ' + trees.enc_path(anc + '/'))
        else:
            lines += ['DATA ' + trees.enc_path(full) + ' 0', 'IGNORE ' + trees.enc_path(full)]
    lines.append('DATA other 0')
    if rng.random() < 0.05:
        lines = ['this is not a Manifest']
    text = ''.join(l + '\n' for l in lines)
    nm = rng.choice(['Manifest', 'Manifest', 'Manifest', 'Manifest.gz', 'Manifest.xz', 'Manifest.bz2'])
    files[nm] = text
    if rng.random() < 0.15:
        files['Manifest' if nm != 'Manifest' else 'Manifest.gz'] = 'DATA second 0\n'
    if rng.random() < 0.03:
        files = {'Manifest': ('dir',)}
    if rng.random() < 0.03:
        files['Manifest.gz'] = ('bytes', b'not gzip data')
    if rng.random() < 0.04:
        files[rng.choice(['Manifest', 'Manifest', 'Manifest.gz'])] = ('fifo',)      # a named pipe: no Manifest, and never to be opened
    return files


def run(ctx):
    ctx.rule = ('real directory chains up to depth 6 below a scratch directory (levels above it are read from the real system), a '
                'Manifest plain / compressed / absent / both at every level, IGNORE entries naming the path, an ancestor, a descendant, a sibling, '
                'string-prefix look-alikes, a DATA entry before the IGNORE; every starting depth; allow_compressed on/off; a device '
                'boundary at any level (st_dev overridden below a directory, for stat and fstat alike) with crossing allowed or not. '
                'Oracle: the Lean specification `outermost` evaluated on the observed chain. non-trivial = every distinct scenario')
    ctx.assumptions = ['the starting path has no symlinked component (textual relpath)', 'a call that does not return within 10 s is a failure (call-hangs)', 'device boundaries are simulated by overriding st_dev']
    drv = common.Driver()
    base = common.scratch_dir('gv.c15.')
    top = os.path.join(base, 't')
    try:
        rng = ctx.rng
        # exhaustive small family: depth<=3 x manifest at each level in {absent, plain, plain+IGNORE path} x start x flags
        kinds = [None, 'DATA x 0\n', 'IGN']
        n_ex = 0
        depth = 3 if ctx.tier == 'quick' else 4
        chain = ['aa', 'a', 'aab', 'cc'][:depth]
        for combo in itertools.product(kinds, repeat=depth + 1):
            for start in range(depth + 1):
                contents = []
                for lvl, k in enumerate(combo):
                    if k is None:
                        contents.append({})
                    elif k == 'IGN':
                        below = chain[lvl:start]
                        contents.append({'Manifest': ('IGNORE ' + '/'.join(below) + '\n') if below else 'DATA y 0\n'})
                    else:
                        contents.append({'Manifest': k})
                case(ctx, drv, top, chain, contents, start, True, False, [], 'exhaustive')
                n_ex += 1
        ctx.tables[f'chains depth {depth}: Manifest absent/plain/IGNOREs-the-path at every level x every start'] = {
            'size': n_ex, 'exhaustive': True, 'ok': True}
        for i in range(1000 if ctx.tier == 'quick' else 8000):
            depth = rng.randint(1, 6)
            chain = [rng.choice(NAMES) for _ in range(depth)]
            start = rng.randint(0, depth)
            contents = [level_contents(rng, chain, lvl, start) for lvl in range(depth + 1)]
            devmap = []
            if rng.random() < 0.4:
                devmap.append((rng.randint(0, depth), 4242))
            case(ctx, drv, top, chain, contents, start, rng.random() < 0.5, rng.random() < 0.5, devmap, 'random')
    finally:
        drv.close()
        trees.rmtree(base)


def replay(ctx, path):
    print(json.dumps(json.load(open(path))['scenario'], indent=1)[:3000])
    print('rerun ./check C15 with the same VERIF_SEED to rebuild the chain on disk')
    return 0
