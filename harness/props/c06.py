"""C06 — I/O errors never turn into success or into 'file absent'."""
import errno
import hashlib
import json
import os
import socket
import stat

from harness import common, faults, gen_tree, trees, treeimpl, updimpl
from harness.common import cps, uncps
from harness.props import c01

BRIDGE = ('Gemato.Bridge.Tree', 'Gemato.Bridge.Faults', 'Gemato.Bridge.SrcVerify', 'Gemato.Bridge.SrcWalk', 'Gemato.Bridge.SrcUpdate', 'Gemato.Bridge.SrcLoader', 'Gemato.Bridge.SrcCodec')
PROPS = ['Gemato.Props.C06']

INJ_ERRNOS = sorted(faults.ERRNOS.values())
TOLERATED = (errno.ENOENT, errno.ENXIO, errno.EOPNOTSUPP)
HASHLIB = {'MD5': 'md5', 'SHA1': 'sha1', 'SHA256': 'sha256', 'SHA512': 'sha512'}


def os_class(e):
    return {errno.ENOENT: 'os:Gemato.L1.Errno.ENOENT', errno.ENOTDIR: 'os:Gemato.L1.Errno.ENOTDIR',
            errno.EISDIR: 'os:Gemato.L1.Errno.EISDIR'}.get(e, 'os:code:%d' % e)


# ---------------------------------------------------------------------------------------------
# A. one path, every call outcome: get_file_metadata / verify_path / update_entry_for_path vs Faults model
# ---------------------------------------------------------------------------------------------

def st_json(st):
    return ['r' if stat.S_ISREG(st.st_mode) else 'n', st.st_dev, st.st_size, st.st_mtime_ns]


def natural_calls(path, names):
    """what each call would yield on the real object"""
    c = {}
    try:
        fd = os.open(path, os.O_RDONLY | os.O_NONBLOCK)
    except OSError as e:
        fd = None
        c['open'] = {'err': e.errno}
    else:
        c['open'] = {'ok': None}
    try:
        c['stat'] = {'ok': st_json(os.stat(path))}
    except OSError as e:
        c['stat'] = {'err': e.errno}
    c['fstat'] = {'err': errno.EBADF}
    c['fdopen'] = {'err': errno.EBADF}
    c['read'] = {'err': errno.EBADF}
    if fd is not None:
        st = os.fstat(fd)
        c['fstat'] = {'ok': st_json(st)}
        try:
            with open(fd, 'rb', closefd=False) as f:
                c['fdopen'] = {'ok': None}
                try:
                    data = f.read()
                    c['read'] = {'ok': [len(data), [[cps(n), cps(hashlib.new(HASHLIB[n], data).hexdigest())]
                                                    for n in sorted(names) if n in HASHLIB]]}
                except OSError as e:
                    c['read'] = {'err': e.errno}
        except OSError as e:
            c['fdopen'] = {'err': e.errno}
        os.close(fd)
    c['bad_hash'] = any(n not in HASHLIB for n in names)
    return c


def make_object(rng, d):
    kind = rng.choice(['reg', 'reg', 'reg', 'reg', 'empty', 'dir', 'fifo', 'sock', 'missing', 'dangling', 'loop'])
    p = os.path.join(d, 'obj')
    data = b''
    if kind in ('reg', 'empty'):
        data = b'' if kind == 'empty' else bytes(rng.randrange(256) for _ in range(rng.randint(1, 40)))
        open(p, 'wb').write(data)
        os.utime(p, ns=(1500000000 * 10**9, 1500000000 * 10**9))
    elif kind == 'dir':
        os.mkdir(p)
    elif kind == 'fifo':
        os.mkfifo(p)
    elif kind == 'sock':
        s = socket.socket(socket.AF_UNIX)
        s.bind(p)
        s.close()
    elif kind == 'dangling':
        os.symlink('nowhere', p)
    elif kind == 'loop':
        os.symlink('obj', p)
    return kind, p, data


def calls_case(ctx, drv):
    import gemato.verify as gv
    from gemato.manifest import ManifestEntryDATA, ManifestEntryIGNORE
    rng = ctx.rng
    d = common.scratch_dir('gv.c06a.')
    try:
        kind, p, data = make_object(rng, d)
        names = rng.choice([[], ['SHA1'], ['MD5', 'SHA256'], ['SHA512'], ['SHA1', 'BOGUS']])
        evar = rng.choice(['none', 'right', 'right', 'wrong-size', 'wrong-hash', 'ignore'])
        upd = rng.random() < 0.4
        if upd and evar in ('none', 'ignore'):
            evar = 'right'
        cks = {n: hashlib.new(HASHLIB[n], data).hexdigest() if n in HASHLIB else '00' for n in names}
        size = len(data)
        if evar == 'wrong-size':
            size += rng.choice([1, 5])
        if evar == 'wrong-hash' and cks:
            k0 = sorted(cks)[0]
            cks[k0] = ('0' if cks[k0][0] != '0' else '1') + cks[k0][1:]
        e = None if evar == 'none' else (ManifestEntryIGNORE('obj') if evar == 'ignore' else ManifestEntryDATA('obj', size, dict(cks)))
        ej = None if e is None else (['IGNORE', cps('obj')] if evar == 'ignore' else
                                     ['DATA', cps('obj'), size, [[cps(k), cps(v)] for k, v in sorted(cks.items())]])
        try:
            real_dev = os.stat(p).st_dev
        except OSError:
            real_dev = os.stat(d).st_dev
        dev = rng.choice([None, None, real_dev, real_dev + 1])
        lm = rng.choice([None, None, 1500000000 - 10, 1500000000 + 10])
        fault = None
        if rng.random() < 0.75:
            fault = (rng.choice(['open', 'open', 'fstat', 'stat', 'fdopen', 'read']),
                     rng.choice(INJ_ERRNOS + INJ_ERRNOS + list(TOLERATED)))
        calls = natural_calls(p, names)
        if fault is not None:
            calls[fault[0]] = {'err': fault[1]}
        if calls['open'].get('err') in (errno.ENXIO, errno.EOPNOTSUPP) and calls['stat'].get('ok', ['n'])[0] == 'r':
            ctx.count('skipped:unopenable-regular-file')       # cannot happen on a real system; UnboundLocalError in the code
            return
        fd0 = faults.n_fds()
        with faults.Injector(d, kind=fault) as inj:
            try:
                if upd:
                    changed = gv.update_entry_for_path(p, e, expected_dev=dev, last_mtime=lm)
                    impl = {'changed': bool(changed)}
                    if changed:
                        impl.update(size=e.size, cks=[[cps(k), cps(v)] for k, v in sorted(e.checksums.items())])
                else:
                    r, diff = gv.verify_path(p, e, expected_dev=dev, last_mtime=lm)
                    impl = {'ret': bool(r)}
            except Exception as ex:
                impl = treeimpl.classify(ex)
        fd1 = faults.n_fds()
        trace = [t for t in inj.trace if t in ('open', 'fstat', 'stat', 'fdopen', 'read', 'close')]
        req = {'op': 'verify_calls', 'calls': calls, 'entry': ej, 'dev': dev, 'last_mtime': None if lm is None else lm * 10**9,
               'update': upd}
        rep = drv.ask(req)
        model, mtrace = rep['model'], rep['trace']
        scen = {'op': 'calls', 'object': kind, 'entry': evar, 'update': upd, 'fault': fault, 'dev': None if dev is None else dev == real_dev,
                'last_mtime': lm, 'names': names, 'request': req}
        ctx.count('object:' + kind)
        ctx.count('fault:' + ('none' if fault is None else fault[0] + ('/tolerated' if fault[1] in TOLERATED else '')))
        ctx.count('impl:' + (impl.get('err') or json.dumps(impl)[:14]))
        ctx.case(json.dumps(scen, sort_keys=True, default=str), True, {k: v for k, v in scen.items() if k != 'request'})
        # the property itself --------------------------------------------------------------
        hit = inj.hits[0] if inj.hits else None
        if hit is not None and not (hit[0] == 'open' and hit[2] in TOLERATED):
            if impl.get('err') != os_class(hit[2]):
                ctx.fail('injected-error-not-raised', scen, json.dumps(impl))
        if not upd and e is None and impl.get('ret') is True and calls['open'].get('err') != errno.ENOENT:
            ctx.fail('object-treated-as-absent', scen, json.dumps(calls['open']))
        if fd1 != fd0:
            ctx.fail('descriptor-leaked', scen, f'{fd1 - fd0} descriptor(s) left open; calls: {trace}')
        if treeimpl.is_internal(impl):
            ctx.fail('internal-error', scen, impl['err'])
        # correspondence -------------------------------------------------------------------
        if impl != model or trace != mtrace:
            ctx.disagree('verify_calls', scen, {'out': impl, 'trace': trace}, {'out': model, 'trace': mtrace})
    finally:
        trees.rmtree(d)


# ---------------------------------------------------------------------------------------------
# B. an unreadable object somewhere in a consistent tree: real run vs tree-level model
# ---------------------------------------------------------------------------------------------

def mark_unreadable(world, relpath, code, asdir):
    comps = [c for c in relpath.split('/') if c]
    node = world
    for i, c in enumerate(comps):
        if node[0] != 'd':
            return False
        for kv in node[3]:
            if uncps(kv[0]) == c:
                if i == len(comps) - 1:
                    kv[1] = ['u', code, asdir]
                    return True
                node = kv[1]
                break
        else:
            return False
    return False


class Handler:
    def __init__(self):
        self.calls = []

    def __call__(self, err):
        self.calls.append((err.path, list(err.diff)))
        return False


def consistent_tree(ctx, root, hostile=False):
    rng = ctx.rng
    pl = gen_tree.gen_plan(rng, depth=rng.choice([1, 2, 3]), hostile=hostile)
    gen_tree.layout(pl, rng, p_dup=0, p_second=0)
    gen_tree.write_plan(pl, root)
    return pl


def needed(pl, p):
    """would verification of the whole tree have to look at `p`?"""
    return not gen_tree.is_hidden_path(p) and not any(p == i or p.startswith(i + '/') for i in pl.ignored)


def tree_case(ctx, drv):
    rng = ctx.rng
    root = common.scratch_dir('gv.c06b.')
    try:
        pl = consistent_tree(ctx, root)
        base = treeimpl.verify_dir(root, pl.top, '')
        if base.get('ret') is not True:
            ctx.count('skipped:baseline-not-consistent')
            return
        cands = []
        for p in gen_tree.listed_files(pl):
            if os.path.isfile(os.path.join(root, p)):
                cands.append(('listed-manifest' if os.path.basename(p).startswith('Manifest') else 'listed-file', p))
        for dd in sorted(pl.dirs):
            if dd:
                cands.append(('directory', dd))
        dirs = sorted(x for x in pl.dirs if os.path.isdir(os.path.join(root, x)))
        stray = os.path.join(rng.choice(dirs), 'stray-%d' % rng.randint(0, 9)).lstrip('/')
        cands.append(('stray-file', stray))
        cands.append(('stray-hidden', os.path.join(rng.choice(dirs), '.stray').lstrip('/')))
        cands.append(('top-manifest', pl.top))
        role, victim = rng.choice(cands)
        if role.startswith('stray'):
            open(os.path.join(root, victim), 'wb').write(b'stray')
        code = rng.choice(INJ_ERRNOS)
        asdir = os.path.isdir(os.path.join(root, victim))
        texts = c01.all_texts(root)
        world = trees.world_of(root, set(trees.hash_names_in(texts)))
        if not mark_unreadable(world, victim, code, asdir):
            ctx.count('skipped:victim-not-in-world')
            return
        op = rng.choice(['verify', 'verify', 'update'])
        fd0 = faults.n_fds()
        if op == 'verify':
            with faults.Injector(root, path=(os.path.join(root, victim), code)) as inj:
                impl = treeimpl.verify_dir(root, pl.top, '')
            req = {'op': 'verify_dir', 'world': world, 'top': cps(pl.top), 'path': cps(''), 'xdev': True, 'handler': None,
                   'last_mtime': None}
            model = drv.ask(req)['model']
        else:
            hashes = rng.choice([['SHA1'], ['MD5', 'SHA256']])
            before = updimpl.snapshot(root)
            with faults.Injector(root, path=(os.path.join(root, victim), code)) as inj:
                impl, eff = updimpl.run_update(root, pl.top, '', {'hashes': hashes})
            after = updimpl.snapshot(root)
            world2 = trees.world_of(root, set(trees.hash_names_in(texts)) | set(hashes))
            mark_unreadable(world2, victim, code, asdir)
            req = {'op': 'update', 'world': world2, 'top': cps(pl.top), 'path': cps(''), 'create': False, 'xdev': True,
                   'hashes': [cps(h) for h in hashes], 'profile': 'default', 'last_mtime': None,
                   'save': {'force': False, 'sort': False, 'watermark': None, 'format': cps('gz')},
                   'post': updimpl.post_table(root, hashes), 'do_save': True, 'set_ts': None}
            model = drv.ask(req)['model']
            if 'writes' in model:
                model = {'ok': True, 'top': pl.top}
        fd1 = faults.n_fds()
        scen = {'op': 'unreadable', 'operation': op, 'role': role, 'victim': victim, 'errno': code, 'request': req}
        ctx.count('role:' + role)
        ctx.count('operation:' + op)
        ctx.count('errno:%s' % errno.errorcode.get(code, code))
        ctx.count('impl:' + (impl.get('err') or 'ok'))
        ctx.case(json.dumps([role, victim, code, op, sorted(pl.files)], default=str), True,
                 {k: v for k, v in scen.items() if k != 'request'} | {'touched': bool(inj.hits), 'impl': impl.get('err', 'ok')})
        touched = bool(inj.hits)
        ok = impl.get('ret') is True or impl.get('ok') is True
        if touched and ok:
            ctx.fail('success-although-an-object-could-not-be-read', scen, str(inj.hits[:2]))
        if touched and not ok and impl.get('err') != os_class(code):
            ctx.fail('unreadable-object-not-reported-as-its-error', scen, json.dumps(impl))
        if not touched and needed(pl, victim) and role != 'top-manifest' and op == 'verify' and ok:
            ctx.fail('needed-object-never-looked-at', scen, victim)
        if op == 'update' and not ok and before != after:
            ctx.fail('failed-update-wrote-something', scen, str(sorted(set(before.items()) ^ set(after.items()))[:3]))
        if fd1 != fd0:
            ctx.fail('descriptor-leaked', scen, f'{fd1 - fd0} descriptor(s) left open')
        if treeimpl.is_internal(impl):
            ctx.fail('internal-error', scen, impl['err'])
        if model.get('err') == 'abstain':
            ctx.count('model-abstained')
        elif {k: v for k, v in impl.items() if k != 'calls'} != {k: v for k, v in model.items() if k != 'calls'}:
            ctx.disagree(op, scen, impl, model)
    finally:
        trees.rmtree(root)


# ---------------------------------------------------------------------------------------------
# C. every single placement of one OSError at one call of a whole verification / update scan
# ---------------------------------------------------------------------------------------------

def run_verify(root, top, inj_kw, cli):
    h = Handler()
    fd0 = faults.n_fds()
    with faults.Injector(root, **inj_kw) as inj:
        if cli:
            rc = treeimpl.cli_verify(root, [''], extra=('-K',) if False else ())
            out = {'ret': True} if rc == 0 else ({'ret': False} if rc == 1 else {'err': str(rc)})
        else:
            from gemato.recursiveloader import ManifestRecursiveLoader
            try:
                with treeimpl.time_limit(20):
                    l = ManifestRecursiveLoader(os.path.join(root, top))
                    out = {'ret': bool(l.assert_directory_verifies('', fail_handler=h))}
            except Exception as e:
                out = treeimpl.classify(e)
    return out, inj, h, faults.n_fds() - fd0


def run_scan(root, top, hashes, inj_kw):
    """loader + update_entries_for_directory; the save step runs only if the scan succeeded"""
    fd0 = faults.n_fds()
    n_scan = None
    with faults.Injector(root, **inj_kw) as inj:
        try:
            with treeimpl.time_limit(20):
                l = updimpl.make_loader(root, top, {'hashes': hashes})
                l.update_entries_for_directory('')
                n_scan = inj.n
                inj.at = inj.path = inj.kind = None      # the fault model covers the scan phase only
                l.save_manifests()
                out = {'ok': True}
        except Exception as e:
            out = treeimpl.classify(e)
    return out, inj, n_scan, faults.n_fds() - fd0


def placement_case(ctx):
    rng = ctx.rng
    root = common.scratch_dir('gv.c06c.')
    try:
        pl = consistent_tree(ctx, root, hostile=rng.random() < 0.3)
        variant = rng.choice(['consistent', 'consistent', 'stray', 'edited'])
        if variant == 'stray':
            dirs = sorted(x for x in pl.dirs if os.path.isdir(os.path.join(root, x)) and needed(pl, x or 'v'))
            open(os.path.join(root, rng.choice(dirs), 'stray'), 'wb').write(b's')
        op = rng.choice(['verify', 'verify-cli', 'update'])
        if op == 'update' and variant == 'edited':
            lf = [p for p in gen_tree.listed_files(pl) if os.path.isfile(os.path.join(root, p)) and not os.path.basename(p).startswith('Manifest')]
            if lf:
                open(os.path.join(root, rng.choice(lf)), 'ab').write(b'+')
        hashes = ['SHA1']
        if op == 'update':
            snap0 = updimpl.snapshot(root)
            # dry run on a copy, to count the calls of the scan phase without changing the tree
            import subprocess
            cp = root + '.dry'
            subprocess.run(['cp', '-a', root, cp], check=True)
            try:
                out0, inj0, n, _ = run_scan(cp, pl.top, hashes, {})
            finally:
                trees.rmtree(cp)
            if n is None:
                ctx.count('skipped:update-fails-without-faults:' + str(out0.get('err')))
                return
        else:
            out0, inj0, _h, _ = run_verify(root, pl.top, {}, op == 'verify-cli')
            n = inj0.n
            if variant == 'consistent' and out0.get('ret') is not True:
                ctx.count('skipped:baseline-not-consistent')
                return
        ks = list(range(n))
        if ctx.tier == 'quick' and len(ks) > 12:
            # the first calls (top-level discovery, the open of the top-level Manifest) always, the rest sampled
            ks = sorted(set(ks[:5]) | set(rng.sample(ks, 9)))
        for k in ks:
            code = rng.choice(INJ_ERRNOS)
            scen = {'op': 'placement', 'operation': op, 'variant': variant, 'call_index': k, 'of': n, 'errno': code,
                    'call': list(inj0.events[k]) if k < len(inj0.events) else None, 'files': sorted(pl.files), 'manifests': sorted(pl.manifests)}
            if op == 'update':
                out, inj, n_scan, dfd = run_scan(root, pl.top, hashes, {'at': (k, code)})
                ok = out.get('ok') is True
                if ok or not inj.hits:
                    ctx.fail('update-succeeded-despite-an-io-error' if inj.hits else 'fault-not-placed', scen, json.dumps(out))
                snap1 = updimpl.snapshot(root)
                if snap1 != snap0:
                    ctx.fail('failed-update-wrote-something', scen, str(sorted(set(snap0.items()) ^ set(snap1.items()))[:3]))
                    snap0 = snap1
            else:
                out, inj, h, dfd = run_verify(root, pl.top, {'at': (k, code)}, op == 'verify-cli')
                if not inj.hits:
                    ctx.count('fault-not-reached')       # an earlier mismatch ended the run before call k (raise mode)
                    continue
                if out.get('ret') is True:
                    ctx.fail('success-despite-an-io-error', scen, str(inj.hits))
                if op == 'verify' and 'err' in out and out['err'] != os_class(code) and out['err'] != 'mismatch':
                    ctx.fail('io-error-reported-as-something-else', scen, json.dumps(out))
                for path, diff in h.calls:
                    w = inj.hits[0][1]
                    if isinstance(w, str) and os.path.normpath(w) == os.path.normpath(os.path.join(root, path)) and \
                            any(dd[0] == '__exists__' and dd[2] is False for dd in diff):
                        ctx.fail('object-treated-as-absent', scen, str(diff))
            if treeimpl.is_internal(out):
                ctx.fail('internal-error', scen, out['err'])
            if dfd != 0:
                ctx.fail('descriptor-leaked', scen, f'{dfd} descriptor(s) left open')
            ctx.count('placed:' + inj.hits[0][0] if inj.hits else 'placed:none')
            ctx.count('operation:' + op)
            ctx.count('outcome:' + (out.get('err') or ('ok' if out.get('ok') or out.get('ret') else 'false')))
            ctx.case(json.dumps(scen, default=str), True, dict(scen, outcome=out.get('err') or out))
    finally:
        trees.rmtree(root)


def leak_case(ctx):
    """no fault at all: verification / update of a tree leaves no descriptor open, whatever the verdict (finding F22)"""
    rng = ctx.rng
    root = common.scratch_dir('gv.c06d.')
    try:
        pl = consistent_tree(ctx, root)
        for _ in range(rng.randint(0, 3)):
            gen_tree.mutate_tree(pl, rng, root)
        lm = rng.choice([None, 1500000000 + 500, 1600000000])
        h = treeimpl.Recorder(default=False)
        fd0 = faults.n_fds()
        out = treeimpl.verify_dir(root, pl.top, '', h, lm)
        d1 = faults.n_fds() - fd0
        out2, _eff = updimpl.run_update(root, pl.top, '', {'hashes': ['SHA1'], 'last_mtime': lm}, do_save=False)
        d2 = faults.n_fds() - fd0 - d1
        scen = {'op': 'leak', 'last_mtime': lm, 'files': sorted(pl.files), 'verify': out.get('err') or out.get('ret'),
                'update': out2.get('err') or 'ok'}
        ctx.case(json.dumps(scen, default=str), True, scen)
        ctx.count('leak-probe')
        if d1 or d2:
            ctx.fail('descriptor-leaked', scen, f'verify left {d1}, update scan left {d2} descriptor(s) open')
    finally:
        trees.rmtree(root)


def run(ctx):
    ctx.rule = ('(A) one object (regular/empty file, directory, FIFO, socket, missing, dangling or looping symlink) x entry (none, right, '
                'wrong size, wrong digest, IGNORE, unsupported hash) x device/mtime options x one injected OSError at os.open / os.fstat '
                '/ os.stat / open(fd) / read with errno from {EACCES, EPERM, EIO, ENOMEM, ELOOP, ENOTDIR, EMFILE, ESTALE, ENAMETOOLONG, '
                'EOVERFLOW, ENOENT, ENXIO, EOPNOTSUPP}: result and call trace (incl. close) against the Lean call-level model; '
                '(B) consistent generated trees with one unreadable object (listed file, sub-Manifest, directory, stray, hidden stray, '
                'top-level Manifest): verify and update against the tree-level model; (C) every single placement (quick: 12 sampled per '
                'tree) of one OSError at the k-th file-system call of a whole verification (library and CLI) or of the scan phase of an '
                'update; (D) descriptor accounting without faults. Oracle: never success, the injected errno or a mismatch is '
                'reported, the object is never reported as non-existent, a failed update leaves the tree byte-identical, no descriptor '
                'stays open.')
    ctx.assumptions = ['faults are injected at the Python-visible calls (os.open, os.stat, os.fstat, os.scandir and its iteration, '
                       'open(), the read family); failures inside C-level helpers (DirEntry.is_dir, decompressor internals) are not',
                       'the descriptor count is read from /proc/self/fd']
    drv = common.Driver()
    nA, nB, nC, nD = (1500, 300, 60, 40) if ctx.tier == 'quick' else (6000, 1200, 250, 150)
    try:
        for _ in range(nA):
            calls_case(ctx, drv)
        for _ in range(nB):
            tree_case(ctx, drv)
        for _ in range(nC):
            placement_case(ctx)
        for _ in range(nD):
            leak_case(ctx)
    finally:
        drv.close()


def replay(ctx, path):
    d = json.load(open(path))
    print(json.dumps({k: v for k, v in d['scenario'].items() if k != 'request'}, indent=1, default=str)[:3000])
    print(d.get('kind'), d.get('detail'))
    return 0
