"""C08 — Manifest text round-trips: writer and parser are mutual inverses."""
import json
import os

from harness import common, gen_text, textimpl
from harness.common import cps, uncps

BRIDGE = ('Gemato.Bridge.Text', 'Gemato.Bridge.SrcText', 'Gemato.Bridge.SrcCodec')
PROPS = ['Gemato.Props.C08', 'Gemato.Props.C08b']
SUFFIXES = ['', '.gz', '.bz2', '.lzma', '.xz']


def layout_ok(text, n_entries):
    """each entry occupies exactly one line whose fields are separated by single spaces"""
    lines = text.split('\n')
    if lines[-1] != '' or len(lines) - 1 != n_entries:
        return False
    for ln in lines[:-1]:
        if ' '.join(ln.split()) != ln or '\r' in ln:
            return False
    return True


def roundtrip(ctx, drv, entries, label, sort=False, suffix=None):
    """entries -> text -> entries on the implementation and on the model"""
    scen = {'op': 'dump', 'entries': entries, 'sort': sort}
    ctx.count('stream:' + label)
    impl = textimpl.impl_dump(entries, sort)
    rep = drv.ask(scen)
    model_text = rep['text']
    nontrivial = len(entries) > 0
    ctx.case(scen if nontrivial else None, nontrivial, {'entries': entries[:3], 'sort': sort, 'n': len(entries)})
    if 'err' in impl:
        ctx.fail('dump-raised', scen, impl['err'])
        ctx.disagree('dump', scen, impl, {'text': '...'})
        return
    text = uncps(impl['text'])
    if impl['text'] != model_text:
        ctx.disagree('dump', scen, {'text': impl['text'][:400]}, {'text': model_text[:400]})
    if not layout_ok(text, len(entries)):
        ctx.fail('not-one-line-per-entry', scen, text[:300])
    # read back
    try:
        text.encode('utf8')
        enc = True
    except UnicodeEncodeError:
        enc = False
    if suffix is None:
        suffix = ''
    if enc:
        back = textimpl.impl_load_file(text, suffix, tmpdir=ctx.tmp)
        ctx.count('reload:file' + suffix)
    else:
        back = textimpl.impl_load_stringio(text)
        ctx.count('reload:stringio(surrogates)')
    expect = entries
    if sort:
        expect = rep['reload'].get('entries')
        if sorted(json.dumps(e) for e in expect) != sorted(json.dumps(e) for e in entries):
            ctx.disagree('dump-sort', scen, 'permutation expected', rep['reload'])
    if back != {'entries': expect, 'signed': None}:
        ctx.fail('roundtrip-differs', scen, json.dumps(back)[:400])
    if rep['reload'] != {'entries': expect, 'signed': None}:
        ctx.disagree('dump-reload(model)', scen, back, rep['reload'])


def fixed_point(ctx, drv, text, label):
    """accepted text -> entries -> text' ; text' accepted with equal entries"""
    ctx.count('stream:' + label)
    first = textimpl.impl_load_stringio(text)
    if 'err' in first or first['signed'] is not None:
        ctx.count('fixed-point:not-accepted-unsigned')
        ctx.case()
        return
    if textimpl.model_abstains(text):
        ctx.count('model-abstained(non-ascii-digit)')
    else:
        m = drv.ask({'op': 'load_text', 'mode': 'stringio', 'text': cps(text)})['model']
        if m != first:
            ctx.disagree('load_text', {'op': 'load_text', 'mode': 'stringio', 'text': cps(text)}, first, m)
    scen = {'op': 'fixed_point', 'text': cps(text)}
    ctx.case(scen, len(first['entries']) > 0, {'text': text[:120]})
    d = textimpl.impl_dump(first['entries'])
    if 'err' in d:
        ctx.fail('dump-of-parsed-raised', scen, d['err'])
        return
    again = textimpl.impl_load_stringio(uncps(d['text']))
    if again != first:
        ctx.fail('not-a-fixed-point', scen, json.dumps(again)[:300])
    rep = drv.ask({'op': 'dump', 'entries': first['entries'], 'sort': False})
    if rep['text'] != d['text']:
        ctx.disagree('dump', scen, {'text': d['text'][:300]}, {'text': rep['text'][:300]})


def redump(ctx, drv, before, after, label):
    """entry OBJECTS that were written once, then changed in place (as save_manifests re-points the MANIFEST entry of a renamed
    sub-Manifest, and update moves entries between Manifests), then written again: the second text is the text of what the
    objects hold now"""
    import datetime
    import io
    import gemato.manifest as gm
    scen = {'op': 'dump', 'entries': after, 'sort': False, 'written_before_as': before}
    ctx.count('stream:' + label)
    m = gm.ManifestFile()
    try:
        m.entries = [textimpl.make_entry(c) for c in before]
        m.dump(io.StringIO(), sign_openpgp=False)
        s = lambda a: ''.join(chr(x) for x in a)
        for obj, c in zip(m.entries, after):
            if c[0] == 'TIMESTAMP':
                obj.ts = datetime.datetime(*c[1])
            elif c[0] == 'IGNORE':
                obj.path = s(c[1])
            else:
                if c[0] == 'AUX':
                    obj.aux_path = s(c[1])
                    obj.path = os.path.join('files', s(c[1]))
                else:
                    obj.path = s(c[1])
                obj.size = c[2]
                obj.checksums = {s(k): s(v) for k, v in c[3]}
        out = io.StringIO()
        m.dump(out, sign_openpgp=False)
        text = out.getvalue()
    except Exception as e:
        ctx.fail('dump-raised', scen, textimpl.classify_exc(e))
        return
    model_text = uncps(drv.ask({'op': 'dump', 'entries': after, 'sort': False})['text'])
    ctx.case(scen, True, {'before': before[:2], 'after': after[:2], 'n': len(after)})
    if text != model_text:
        ctx.fail('second-dump-is-not-the-text-of-the-current-entries', scen, f'{text[:200]!r} vs {model_text[:200]!r}')
        return
    back = textimpl.impl_load_stringio(text)
    if back != {'entries': after, 'signed': None}:
        ctx.fail('roundtrip-differs', scen, json.dumps(back)[:400])


def cp_tables(ctx, drv):
    """T2: every code point: escaped or not / is a separator (model vs running interpreter),
    and every code point embedded between hex-digit-like neighbours round-trips"""
    import re
    import gemato.manifest as gm
    bad = 0
    block = 1 << 14
    dis = gm.ManifestPathEntry.disallowed_path_re
    for lo in range(0, 0x110000, block):
        rep = drv.ask({'op': 'cp_table', 'lo': lo, 'hi': lo + block})
        for i, (e, s) in enumerate(zip(rep['esc'], rep['sp'])):
            ch = chr(lo + i)
            ie = 1 if dis.match(ch) else 0
            isp = 1 if (ch.isspace() and len(('a' + ch + 'b').split()) == 2 and ch.strip() == '') else 0
            if ch.isspace() != bool(isp):
                isp = 2
            if ie != e or isp != s:
                bad += 1
                if bad < 5:
                    ctx.disagree('cp_table', {'cp': lo + i}, [ie, isp], [e, s])
        for c, enc, dec in rep['enc']:
            ienc = gm.ManifestPathEntry(chr(c)).encoded_path
            if cps(ienc) != enc or dec != [c]:
                bad += 1
                if bad < 5:
                    ctx.disagree('cp_table.enc', {'cp': c}, cps(ienc), enc)
        ctx.evaluations += block
    ctx.tables['code-points: escaped?/separator?/escape text (0..0x10FFFF)'] = {'size': 0x110000, 'exhaustive': True, 'ok': bad == 0}
    # every code point between hex-digit-like neighbours, written and read back (batched)
    stride = 1 if ctx.tier == 'thorough' else 7
    allcps = sorted(set(range(0, 0x3100)) | set(range(0xD7F0, 0xE010)) | set(range(0xFFF0, 0x10010)) |
                    set(range(0x10FFF0, 0x110000)) | set(range(ctx.seed % stride, 0x110000, stride)))
    bad2 = 0
    for i in range(0, len(allcps), 2048):
        chunk = allcps[i:i + 2048]
        entries = [['DATA', [97, c, 102, 48], c, []] for c in chunk] + [['IGNORE', [c, 70, 70]] for c in chunk if c != 47]
        before = len(ctx.failures) + len(ctx.disagreements)
        roundtrip(ctx, drv, entries, 'cp-embedded')
        if len(ctx.failures) + len(ctx.disagreements) != before:
            bad2 += 1
    ctx.tables['code-points embedded between hex-digit-like neighbours: dump+load'] = {
        'size': len(allcps), 'exhaustive': stride == 1, 'ok': bad2 == 0}


def run(ctx):
    ctx.rule = ('entry lists: random over all eight tags, hostile paths (whitespace, controls, backslash, astral, surrogates), '
                'sizes to 2**70, 0-10 checksums; every code point embedded between hex-like neighbours; accepted texts of the '
                'C09 grammar/mutation generators (fixed point); each compression format through real files; entry objects written, '
                'changed in place (path, size, checksums, timestamp) and written again. '
                'non-trivial = distinct non-empty entry list / accepted text with at least one entry')
    ctx.assumptions = ['gzip/bz2/lzma round-trip is exercised, not proved', 'non-ASCII decimal digits: model abstains']
    ctx.tmp = common.scratch_dir()
    drv = common.Driver()
    try:
        corpus_dir = os.path.join(common.VERIF, 'corpus', 'C08')
        if os.path.isdir(corpus_dir):
            for fn in sorted(os.listdir(corpus_dir)):
                sc = json.load(open(os.path.join(corpus_dir, fn)))['scenario']
                if sc['op'] == 'dump':
                    roundtrip(ctx, drv, sc['entries'], 'corpus', sc.get('sort', False))
                else:
                    fixed_point(ctx, drv, uncps(sc['text']), 'corpus')
        cp_tables(ctx, drv)
        n = 1500 if ctx.tier == 'quick' else 40000
        for i in range(n):
            es = gen_text.rand_entries(ctx.rng, allow_surrogates=(i % 5 == 0))
            roundtrip(ctx, drv, es, 'random-entries', sort=(i % 3 == 0), suffix=SUFFIXES[i % 5])
        for i in range(600 if ctx.tier == 'quick' else 10000):
            before = gen_text.rand_entries(ctx.rng)
            after = []
            for c in before:
                c2 = gen_text.rand_entry(ctx.rng)
                for _ in range(20):
                    if c2[0] == c[0]:
                        break
                    c2 = gen_text.rand_entry(ctx.rng)
                after.append(c2 if c2[0] == c[0] else c)
            if before:
                redump(ctx, drv, before, after, 'written-changed-written-again')
        n = 2500 if ctx.tier == 'quick' else 50000
        for i in range(n):
            text, _ = gen_text.grammar_text(ctx.rng)
            fixed_point(ctx, drv, text, 'grammar-accepted')
        for i in range(n // 2):
            es = gen_text.rand_entries(ctx.rng)
            base = textimpl.impl_dump(es)
            if 'err' in base:
                continue
            t = uncps(base['text'])
            t = gen_text.mutate(ctx.rng, t)
            fixed_point(ctx, drv, t, 'mutation-accepted')
    finally:
        drv.close()
        os.rmdir(ctx.tmp)


def replay(ctx, path):
    sc = json.load(open(path))['scenario']
    ctx.tmp = common.scratch_dir()
    drv = common.Driver()
    try:
        if sc['op'] == 'dump':
            roundtrip(ctx, drv, sc['entries'], 'replay', sc.get('sort', False))
        else:
            fixed_point(ctx, drv, uncps(sc['text']), 'replay')
    finally:
        drv.close()
        os.rmdir(ctx.tmp)
    for f in ctx.failures:
        print(f['kind'], f['detail'][:300])
    if ctx.failures:
        print(f'VIOLATION property={ctx.prop} replay={path}')
        return 1
    return 0
