"""C03 — update writes Manifests that describe the tree exactly and then verify."""
import json
import os

from harness import common, gen_tree, trees, treeimpl, updimpl, findings
from harness.common import cps, uncps
from harness.props.c01 import all_texts

BRIDGE = ('Gemato.Bridge.Tree', 'Gemato.Bridge.SrcVerify', 'Gemato.Bridge.SrcLoader', 'Gemato.Bridge.SrcUpdate', 'Gemato.Bridge.SrcText', 'Gemato.Bridge.SrcCodec', 'Gemato.Bridge.SrcProfile', 'Gemato.Bridge.SrcHash', 'Gemato.Bridge.SrcCli')
PROPS = ['Gemato.Props.C03', 'Gemato.Props.C03b']
HASHSETS = [['SHA1'], ['MD5', 'SHA256'], ['BLAKE2B', 'SHA512'], ['SHA512']]


def perturb(pl, rng, root):
    """turn a consistent tree into an exotic prior state; returns the list of perturbation kinds applied"""
    kinds = []
    for _ in range(rng.randint(0, 3)):
        k = rng.choice(['edit', 'edit', 'edit', 'unregister', 'garbage-manifest', 'delete-manifest', 'identical-duplicate',
                        'stray-manifest-file'])
        subs = [m for m in pl.manifests if m != pl.top and os.path.isfile(os.path.join(root, m))]
        if k == 'edit':
            m = gen_tree.mutate_tree(pl, rng, root)
            if m:
                kinds.append('edit:' + m[0])
        elif k == 'unregister' and subs:
            victim = rng.choice(subs)
            for mp in pl.manifests:
                fp = os.path.join(root, mp)
                if mp == victim or not os.path.isfile(fp):
                    continue
                t = trees.decompress_by_name(mp, open(fp, 'rb').read())
                if t is None:
                    continue
                d = os.path.dirname(mp)
                keep = []
                hit = False
                for ln in t.split('\n'):
                    f = ln.split(' ')
                    if len(f) > 1 and f[0] == 'MANIFEST' and os.path.normpath(os.path.join(d, f[1])) == victim:
                        hit = True
                        continue
                    keep.append(ln)
                if hit:
                    suffix = os.path.splitext(mp)[1] if os.path.splitext(mp)[1] in trees.SUFFIXES else ''
                    open(fp, 'wb').write(trees.compress(suffix, '\n'.join(keep).encode('utf8')))
                    kinds.append('unregister')
        elif k == 'garbage-manifest' and subs:
            open(os.path.join(root, rng.choice(subs)), 'wb').write(b'this is not a Manifest\n')
            kinds.append('garbage-manifest')
        elif k == 'delete-manifest' and subs:
            os.unlink(os.path.join(root, rng.choice(subs)))
            kinds.append('delete-manifest')
        elif k == 'identical-duplicate':
            mp = rng.choice(sorted(pl.manifests))
            fp = os.path.join(root, mp)
            if os.path.isfile(fp):
                t = trees.decompress_by_name(mp, open(fp, 'rb').read())
                lines = [l for l in (t or '').split('\n') if l.startswith(('DATA', 'EBUILD', 'MISC'))]
                if lines:
                    suffix = os.path.splitext(mp)[1] if os.path.splitext(mp)[1] in trees.SUFFIXES else ''
                    open(fp, 'wb').write(trees.compress(suffix, (t + rng.choice(lines) + '\n').encode('utf8')))
                    kinds.append('identical-duplicate')
        elif k == 'stray-manifest-file':
            d = rng.choice(sorted(pl.dirs))
            if d and not os.path.lexists(os.path.join(root, d, 'Manifest')) and os.path.isdir(os.path.join(root, d)):
                open(os.path.join(root, d, 'Manifest'), 'wb').write(b'DATA nothing-here 0\n' if rng.random() < 0.5 else b'')
                kinds.append('stray-manifest-file')
    return kinds


def model_update(drv, root, top, path, o, eff, world, do_save=True):
    names = set(eff['hashes'] or [])
    post = updimpl.post_table(root, sorted(names | set(trees.hash_names_in(all_texts(root)))))
    req = {'op': 'update', 'world': world, 'top': cps(top), 'path': cps(path), 'create': bool(o.get('create')),
           'xdev': o.get('xdev', True), 'hashes': [cps(h) for h in (eff['hashes'] or [])], 'profile': o.get('profile', 'default'),
           'last_mtime': None if o.get('last_mtime') is None else int(o['last_mtime'] * 10**9),
           'save': {'force': bool(o.get('force')), 'sort': bool(eff['sort']), 'watermark': eff['watermark'],
                    'format': cps(eff['format'] or 'gz')},
           'post': post, 'do_save': do_save}
    return drv.ask(req)['model'], req


def compare_with_disk(ctx, scen, root, before, after, model, impl):
    """model writes vs what the real run did to the disk"""
    if 'err' in model or 'err' in impl:
        a = {k: v for k, v in impl.items() if k in ('err', 'path')}
        b = {k: v for k, v in model.items() if k in ('err', 'path')}
        if a != b:
            ctx.disagree('update(error)', scen, impl, {k: v for k, v in model.items() if k != 'loaded'})
        return
    final = {}
    for wr in model['writes']:
        final[uncps(wr[1])] = uncps(wr[2]) if wr[0] == 'w' else None
    changed = sorted(p for p in set(before) | set(after) if before.get(p) != after.get(p))
    # (1) everything that changed on disk is something the model writes/unlinks
    for p in changed:
        if p not in final:
            ctx.disagree('update(writes)', scen, {'changed': changed}, {'writes': sorted(final)})
            return
    # (2) every file the model writes holds exactly the model's text; every unlinked one is gone
    for p, text in final.items():
        fp = os.path.join(root, p)
        if text is None:
            if os.path.lexists(fp):
                ctx.disagree('update(unlink)', scen, {'exists': p}, {'unlinked': p})
                return
        else:
            real = trees.decompress_by_name(p, open(fp, 'rb').read()) if os.path.isfile(fp) else None
            if real != text:
                ctx.disagree('update(text)', dict(scen, manifest=p), {'text': real}, {'text': text})
                return
    if uncps(model['top']) != impl.get('top'):
        ctx.disagree('update(top)', scen, impl.get('top'), uncps(model['top']))


def one_case(ctx, drv, label='update'):
    rng = ctx.rng
    root = common.scratch_dir('gv.c03.')
    try:
        pl = gen_tree.gen_plan(rng, depth=rng.choice([1, 2, 3]), hostile=rng.random() < 0.5, max_files=4)
        pl.allow_manifest_fifo = rng.random() < 0.1
        gen_tree.layout(pl, rng, p_dup=0.1, p_second=0.05)
        gen_tree.write_plan(pl, root)
        kinds = perturb(pl, rng, root)
        dirs = sorted(d for d in pl.dirs if os.path.isdir(os.path.join(root, d)) and not gen_tree.is_hidden_path(d))
        rounds = rng.choice([1, 1, 2, 3])
        for rnd in range(rounds):
            path = '' if rng.random() < 0.7 or not dirs else rng.choice(dirs)
            o = {'hashes': rng.choice(HASHSETS), 'profile': 'default'}
            if rng.random() < 0.3:
                o['sort'] = True
            if rng.random() < 0.3:
                o['compress_watermark'] = rng.choice([0, 1, 50, 200, 100000])
                o['compress_format'] = rng.choice(['gz', 'bz2', 'xz', 'lzma'])
            if rng.random() < 0.15:
                o['force'] = True
            texts = all_texts(root)
            world = trees.world_of(root, set(o['hashes']) | set(trees.hash_names_in(texts)))
            before = updimpl.snapshot(root)
            impl, eff = updimpl.run_update(root, pl.top, path, o)
            after = updimpl.snapshot(root)
            model, req = model_update(drv, root, pl.top, path, o, eff, world)
            scen = {'op': 'update', 'request': req, 'prior': kinds + pl.notes, 'round': rnd, 'options': o, 'path': path}
            ctx.count('stream:' + label)
            ctx.count('impl:' + ('ok' if 'ok' in impl else impl['err']))
            for k in kinds:
                ctx.count('prior:' + k)
            ctx.case(json.dumps(req, sort_keys=True)[:100000], True,
                     {'path': path, 'options': o, 'prior': kinds + pl.notes, 'manifests': sorted(pl.manifests), 'impl': impl})
            if model.get('err') == 'abstain':
                ctx.count('model-abstained')
            else:
                compare_with_disk(ctx, scen, root, before, after, model, impl)
            if impl.get('err') == 'internal:HANG':
                ctx.fail('call-hangs', scen, 'update did not return within 10 s')
                break
            if treeimpl.is_internal(impl):
                ctx.fail('internal-error', scen, impl['err'])
                break
            if 'ok' not in impl:
                break
            # the property: exactness of what is on disk now, and a fresh verification
            problems, in_use = updimpl.exact_check(root, impl['top'], path, eff['hashes'])
            if problems:
                pp = sorted(set(p.split(':', 1)[1].split(':')[0].split(' in ')[0] for p in problems))
                ctx.fail('not-exact-after-update', dict(scen, problem_paths=pp), '; '.join(problems[:5]))
            v = treeimpl.verify_dir(root, impl['top'], path)
            if v.get('ret') is not True and not problems:
                ctx.fail('fresh-verification-fails-after-update', scen, json.dumps(v)[:200])
            if impl['top'] != pl.top:
                pl.top = impl['top']
            # edits before the next round
            for _ in range(rng.randint(0, 2)):
                gen_tree.mutate_tree(pl, rng, root)
    finally:
        trees.rmtree(root)


def lookalike_case(ctx, drv):
    """a directory with its own sub-Manifest next to siblings whose names merely START with its name; new files everywhere"""
    rng = ctx.rng
    root = common.scratch_dir('gv.c03l.')
    try:
        pl = gen_tree.Plan()
        base = rng.choice(['a', 'sub', 'x y', 'é'])
        sibs = [base + s for s in rng.sample(['b', '2', '.d', ' x', '-data', 'é'], rng.randint(1, 3))]
        up = rng.choice(['', 'cat'])
        def j(*a):
            return os.path.join(*[x for x in a if x])
        for d in [base] + sibs:
            pl.dirs.add(j(up, d))
            if up:
                pl.dirs.add(up)
            pl.files[j(up, d, 'old')] = b'old-' + d.encode()
        pl.manifests['Manifest'] = []
        sub = j(up, base, rng.choice(gen_tree.MANIFEST_NAMES))
        pl.manifests[sub] = [{'tag': 'DATA', 'path': 'old', 'target': j(up, base, 'old'), 'hashes': ['SHA1']}]
        pl.manifests['Manifest'].append({'tag': 'MANIFEST', 'path': sub, 'target': sub, 'hashes': ['SHA1']})
        for d in sibs:
            if rng.random() < 0.5:
                pl.manifests['Manifest'].append({'tag': 'DATA', 'path': j(up, d, 'old'), 'target': j(up, d, 'old'), 'hashes': ['SHA1']})
        gen_tree.write_plan(pl, root)
        for d in [base] + sibs:
            if rng.random() < 0.8:
                open(os.path.join(root, j(up, d, 'new-%d' % rng.randint(0, 9))), 'wb').write(b'new')
        path = rng.choice(['', up])
        o = {'hashes': ['SHA1'], 'sort': rng.random() < 0.5}
        texts = all_texts(root)
        world = trees.world_of(root, {'SHA1'})
        before = updimpl.snapshot(root)
        impl, eff = updimpl.run_update(root, 'Manifest', path, o)
        after = updimpl.snapshot(root)
        model, req = model_update(drv, root, 'Manifest', path, o, eff, world)
        scen = {'op': 'update', 'request': req, 'prior': ['lookalike-siblings'], 'round': 0, 'options': o, 'path': path}
        ctx.count('stream:lookalike-siblings')
        ctx.case(json.dumps(req, sort_keys=True)[:100000], True, {'dirs': sorted(pl.dirs), 'sub_manifest': sub, 'impl': impl})
        if model.get('err') != 'abstain':
            compare_with_disk(ctx, scen, root, before, after, model, impl)
        if 'ok' in impl:
            problems, in_use = updimpl.exact_check(root, impl['top'], path, eff['hashes'])
            v = treeimpl.verify_dir(root, impl['top'], path)
            if problems or v.get('ret') is not True:
                pp = sorted(set(p.split(':', 1)[1].split(':')[0].split(' in ')[0] for p in problems))
                ctx.fail('not-exact-after-update', dict(scen, problem_paths=pp), '; '.join(problems[:5]) + ' ' + json.dumps(v)[:120])
        elif treeimpl.is_internal(impl):
            ctx.fail('internal-error', scen, impl['err'])
    finally:
        trees.rmtree(root)


def dup_manifest_case(ctx, drv):
    """a sub-Manifest referenced by more than one MANIFEST entry (twice in one Manifest, or by parent and grandparent), a
    change below it, and an update of the whole tree, of the sub-Manifest's directory or of a strict sub-directory (where
    the duplicates lie outside the de-duplication): every MANIFEST entry must be refreshed"""
    rng = ctx.rng
    root = common.scratch_dir('gv.c03d.')
    try:
        from harness.trees import entry_line, digests_of, compress
        a = rng.choice(['a', 'cat', 'x y'])
        b = rng.choice(['b', 'pkg'])
        fmt = rng.choice(['', '', '.gz', '.xz'])
        files = {f'{a}/{b}/f1': b'one', f'{a}/{b}/f2': b'two', f'{a}/g': b'gee', 'top': b'top'}
        for pth, data in files.items():
            os.makedirs(os.path.dirname(os.path.join(root, pth)) or root, exist_ok=True)
            open(os.path.join(root, pth), 'wb').write(data)
        hs = ['SHA1']

        def fl(pth, relto):
            return entry_line('DATA', os.path.relpath(pth, relto or '.'), len(files[pth]), digests_of(files[pth], hs))
        deep = rng.random() < 0.5          # a Manifest in a/b as well
        texts = {}
        if deep:
            texts[f'{a}/{b}/Manifest'] = ''.join(l + '\n' for l in [fl(f'{a}/{b}/f1', f'{a}/{b}'), fl(f'{a}/{b}/f2', f'{a}/{b}')])
        alines = [fl(f'{a}/g', a)]
        if deep:
            raw = texts[f'{a}/{b}/Manifest'].encode()
            alines.append(entry_line('MANIFEST', f'{b}/Manifest', len(raw), digests_of(raw, hs)))
        else:
            alines += [fl(f'{a}/{b}/f1', a), fl(f'{a}/{b}/f2', a)]
        rng.shuffle(alines)
        texts[f'{a}/Manifest{fmt}'] = ''.join(l + '\n' for l in alines)
        araw = compress(fmt, texts[f'{a}/Manifest{fmt}'].encode())
        me = entry_line('MANIFEST', f'{a}/Manifest{fmt}', len(araw), digests_of(araw, hs))
        me2 = entry_line('MANIFEST', f'{a}/Manifest{fmt}', len(araw), digests_of(araw, rng.choice([hs, ['MD5'], ['SHA1', 'SHA256']])))
        tl = [fl('top', ''), me, me2] + ([me] if rng.random() < 0.2 else [])
        rng.shuffle(tl)
        texts['Manifest'] = ''.join(l + '\n' for l in tl)
        for mp, t in texts.items():
            suffix = os.path.splitext(mp)[1] if os.path.splitext(mp)[1] in trees.SUFFIXES else ''
            open(os.path.join(root, mp), 'wb').write(compress(suffix, t.encode()))
        # a Manifest of the chain damaged harmlessly (a trailing blank line: it parses as before, its entry is stale - finding F28)
        if rng.random() < 0.35:
            mp = f'{a}/Manifest{fmt}'
            open(os.path.join(root, mp), 'wb').write(compress(fmt, (texts[mp] + '\n').encode()))
        # the change
        k = rng.choice(['change', 'add', 'delete', 'none'])
        if k == 'change':
            open(os.path.join(root, a, b, 'f1'), 'ab').write(b'+changed')
        elif k == 'add':
            open(os.path.join(root, a, b, 'new'), 'wb').write(b'new')
        elif k == 'delete':
            os.unlink(os.path.join(root, a, b, 'f2'))
        path = rng.choice(['', a, f'{a}/{b}', f'{a}/{b}'])
        o = {'hashes': rng.choice([['SHA1'], ['SHA1', 'SHA256']]), 'profile': 'default'}
        if rng.random() < 0.3:
            o['sort'] = True
        world = trees.world_of(root, set(o['hashes']) | {'SHA1', 'MD5', 'SHA256'})
        before = updimpl.snapshot(root)
        impl, eff = updimpl.run_update(root, 'Manifest', path, o)
        after = updimpl.snapshot(root)
        model, req = model_update(drv, root, 'Manifest', path, o, eff, world)
        scen = {'op': 'update', 'request': req, 'prior': ['manifest-entry-twice'], 'round': 0, 'options': o, 'path': path}
        ctx.count('stream:manifest-entry-twice')
        ctx.case(json.dumps(req, sort_keys=True)[:100000], True, {'path': path, 'change': k, 'deep': deep, 'fmt': fmt, 'impl': impl})
        if model.get('err') != 'abstain':
            compare_with_disk(ctx, scen, root, before, after, model, impl)
        if 'ok' in impl:
            problems, in_use = updimpl.exact_check(root, impl['top'], path, eff['hashes'])
            v = treeimpl.verify_dir(root, impl['top'], '')
            if problems or v.get('ret') is not True:
                pp = sorted(set(p.split(':', 1)[1].split(':')[0].split(' in ')[0] for p in problems))
                ctx.fail('not-exact-after-update', dict(scen, problem_paths=pp), '; '.join(problems[:5]) + ' ' + json.dumps(v)[:160])
        elif treeimpl.is_internal(impl):
            ctx.fail('internal-error', scen, impl['err'])
    finally:
        trees.rmtree(root)


def run(ctx):
    ctx.rule = ('prior states: consistent layouts (nesting, several Manifests per directory, every compression, duplicates of 8 kinds '
                'in one or several Manifests, IGNOREs, all entry types, 0-3 hashes) perturbed by edits, unregistered / garbage / deleted '
                'sub-Manifests, identical duplicate lines, stray Manifest files; options hashes x sort x watermark x format x force; '
                'whole-tree and sub-directory updates; 1-3 edit+update rounds. Oracle: the statement of the property evaluated on the '
                'disk (exactly-once coverage with true size and the requested hash set, no entry for a missing file, every Manifest in '
                'use referenced with true size and digests) and a fresh verification; correspondence: every byte of every Manifest the '
                'model writes vs the disk, the set of touched files, the error class.')
    ctx.assumptions = ['hashes of rewritten Manifests are supplied to the model from the real post-state (hashing is not modelled)']
    drv = common.Driver()
    try:
        for i in range(400 if ctx.tier == 'quick' else 6000):
            one_case(ctx, drv)
        for i in range(120 if ctx.tier == 'quick' else 1500):
            lookalike_case(ctx, drv)
        for i in range(160 if ctx.tier == 'quick' else 2000):
            dup_manifest_case(ctx, drv)
    finally:
        drv.close()


def replay(ctx, path):
    d = json.load(open(path))
    drv = common.Driver()
    try:
        m = drv.ask(d['scenario']['request'])['model']
        print('model:', json.dumps({k: v for k, v in m.items() if k != 'loaded'})[:2000])
        print('prior:', d['scenario'].get('prior'), 'options:', d['scenario'].get('options'), 'path:', d['scenario'].get('path'))
    finally:
        drv.close()
    return 0
