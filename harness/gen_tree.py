"""Generator of trees with consistent Manifest layouts (written by an independent writer), and of mutations."""
import os

from harness import trees
from harness.trees import entry_line, compress, digests_of

NAMES = ['a', 'ab', 'a.b', 'a b', 'b', 'c', 'x', 'file', 'data.txt', 'é', '字', 'back\\slash', 'tab\tname', 'sub', 'subdir', 'sub2',
         'files', 'foo', 'foo.ebuild', 'metadata.xml', 'q-1', 'UPPER', 'z z z', 'nl\nname', '　wide', 'x=y', '-dash', '~t']
HIDDEN = ['.hidden', '.git', '.x']
HASHSETS = [[], ['MD5'], ['SHA1'], ['SHA256'], ['MD5', 'SHA1'], ['BLAKE2B', 'SHA512'], ['SHA3_256', 'BLAKE2S', 'RMD160'], ['SHA512']]
MANIFEST_NAMES = ['Manifest', 'Manifest', 'Manifest', 'Manifest.gz', 'Manifest.bz2', 'Manifest.xz', 'Manifest.lzma']


class Plan:
    """a tree plus its Manifest layout"""
    def __init__(self):
        self.files = {}        # relpath -> bytes
        self.mtimes = {}       # relpath -> seconds
        self.dirs = set([''])  # relpaths
        self.links = {}        # relpath -> target (symlink)
        self.fifos = set()
        self.manifests = {}    # manifest relpath -> list of entry dicts (in order)
        self.top = 'Manifest'
        self.notes = []

    def dir_of(self, p):
        return os.path.dirname(p)


def rel(path, start):
    return os.path.relpath(path, start or '.')


def gen_plan(rng, depth=3, hostile=True, max_files=5):
    pl = Plan()
    names = NAMES if hostile else [n for n in NAMES if all(32 < ord(c) < 127 and c != '\\' for c in n)]

    def fill(d, level):
        nfiles = rng.randint(0, max_files)
        used = set()
        for _ in range(nfiles):
            nm = rng.choice(names + (HIDDEN if rng.random() < 0.15 else []))
            if nm in used or nm.startswith('Manifest'):
                continue
            used.add(nm)
            p = os.path.join(d, nm) if d else nm
            size = rng.choice([0, 1, 2, 5, 5, 17, 100])
            pl.files[p] = bytes(rng.randrange(256) for _ in range(size))
            pl.mtimes[p] = 1500000000 + rng.randint(0, 1000)
        if level < depth:
            for _ in range(rng.randint(0, 3)):
                nm = rng.choice(names + (HIDDEN if rng.random() < 0.1 else []))
                if nm in used or nm.endswith('.ebuild') or nm == 'metadata.xml':
                    continue
                used.add(nm)
                p = os.path.join(d, nm) if d else nm
                pl.dirs.add(p)
                fill(p, level + 1)
    fill('', 0)
    # now and then two files of one directory with the very same content (their entries can end up EQUAL but for the path:
    # whatever removes or compares entries must not take one for the other)
    by_dir = {}
    for p in sorted(pl.files):
        by_dir.setdefault(os.path.dirname(p), []).append(p)
    for d, ps in sorted(by_dir.items()):
        if len(ps) >= 2 and rng.random() < 0.3:
            a, b = rng.sample(ps, 2)
            pl.files[b] = pl.files[a]
            pl.twins = getattr(pl, 'twins', []) + [(a, b)]
    return pl


def is_hidden_path(p):
    return any(c.startswith('.') for c in p.split('/'))


def layout(pl, rng, p_sub=0.35, p_ignore=0.12, p_dup=0.12, p_second=0.1, p_third=0.0):
    """choose Manifests, IGNOREs, entry types and hash sets; fills pl.manifests with entry dicts:
       {'tag','path'(relative to the Manifest dir),'target'(tree relpath),'hashes'}"""
    mdirs = {'': ['Manifest']}
    for d in sorted(pl.dirs):
        if d and not is_hidden_path(d) and rng.random() < p_sub:
            nm = rng.choice(MANIFEST_NAMES)
            mdirs[d] = [nm]
            if rng.random() < p_second:
                mdirs[d].append('Manifest.extra')
                if p_third and rng.random() < p_third:
                    mdirs[d].append('Manifest.deep')       # a chain of three in one directory: nm -> Manifest.extra -> Manifest.deep
    for d, nms in mdirs.items():
        for nm in nms:
            pl.manifests[os.path.join(d, nm) if d else nm] = []
    ignored = set()
    for p in sorted(list(pl.files) + [d for d in pl.dirs if d]):
        if not is_hidden_path(p) and rng.random() < p_ignore and not any(p == i or p.startswith(i + '/') for i in ignored):
            ignored.add(p)

    def governing(p, allow_up=True):
        d = os.path.dirname(p)
        cands = []
        while True:
            if d in mdirs:
                cands.append(d)
            if d == '':
                break
            d = os.path.dirname(d)
        if allow_up and len(cands) > 1 and rng.random() < 0.1:
            return rng.choice(cands)
        return cands[0]

    def mfile(d):
        nm = rng.choice(mdirs[d])
        return os.path.join(d, nm) if d else nm
    pl.ignored = ignored
    for i in sorted(ignored):
        if rng.random() < 0.15:
            # duplicate IGNORE lines are legal
            g = governing(i)
            pl.manifests[mfile(g)].append({'tag': 'IGNORE', 'path': rel(i, g)})
            pl.notes.append('two-ignores')
        # the IGNORE must live in a Manifest at or above the parent; an ignored dir holding a Manifest stays unreferenced
        g = governing(i)
        pl.manifests[mfile(g)].append({'tag': 'IGNORE', 'path': rel(i, g)})
    for p in sorted(pl.files):
        if any(p == i or p.startswith(i + '/') for i in ignored):
            continue
        if is_hidden_path(p) and rng.random() < 0.8:
            continue
        g = governing(p)
        r = rel(p, g)
        tag = 'DATA'
        x = rng.random()
        if r.startswith('files/') and x < 0.5:
            tag = 'AUX'
        elif x < 0.1:
            tag = 'MISC'
        elif x < 0.2:
            tag = 'EBUILD'
        e = {'tag': tag, 'path': r, 'target': p, 'hashes': rng.choice(HASHSETS)}
        pl.manifests[mfile(g)].append(e)
        if rng.random() < p_dup:
            kind = rng.choice(['same', 'other-hashes', 'other-type', 'conflict-size', 'conflict-hash', 'incompatible', 'ignore-too',
                               'shared-bad-hash'])
            if getattr(pl, 'no_conflicts', False):
                kind = rng.choice(['same', 'other-hashes', 'other-type'])
            g2 = governing(p) if rng.random() < 0.5 else g
            e2 = {'tag': tag, 'path': rel(p, g2), 'target': p, 'hashes': e['hashes'], 'dup': kind}
            if kind == 'other-hashes':
                e2['hashes'] = rng.choice(HASHSETS)
            elif kind == 'other-type':
                e2['tag'] = rng.choice(['DATA', 'EBUILD'])
            elif kind == 'conflict-size':
                e2['size_delta'] = 1
            elif kind == 'conflict-hash':
                e2['hashes'] = e['hashes'] or ['MD5']
                e['hashes'] = e2['hashes']
                e2['bad_hash'] = True
            elif kind == 'shared-bad-hash':
                # compatible duplicates with overlapping hash sets whose SHARED digest is wrong for the file (and equal in
                # both lines), every digest listed by only one of them being right: the file must not verify
                e['hashes'], e2['hashes'] = ['MD5', 'SHA1'], ['SHA1', 'SHA256']
                e['bad_hash_name'] = e2['bad_hash_name'] = 'SHA1'
            elif kind == 'incompatible':
                e2['tag'] = 'MISC' if tag != 'MISC' else 'DATA'
            elif kind == 'ignore-too':
                e2 = {'tag': 'IGNORE', 'path': rel(p, g2), 'dup': kind}
            pl.manifests[mfile(g2)].append(e2)
            pl.notes.append('dup:' + kind)
    # MANIFEST entries for sub-Manifests (unless inside an ignored/hidden place)
    for mp in sorted(pl.manifests, key=lambda s: -s.count('/')):
        if mp == pl.top:
            continue
        if any(mp == i or mp.startswith(i + '/') for i in ignored) or is_hidden_path(mp):
            pl.notes.append('unreferenced-manifest')
            continue
        d = os.path.dirname(mp)
        up = os.path.dirname(d) if d else None
        # the parent is a Manifest above the directory, or another Manifest of the same directory
        sibs = [m for m in mdirs[d] if (os.path.join(d, m) if d else m) != mp]
        if os.path.basename(mp) == 'Manifest.extra' and sibs:
            parent = os.path.join(d, sibs[0]) if d else sibs[0]
            gdir = d
        elif os.path.basename(mp) == 'Manifest.deep' and 'Manifest.extra' in sibs:
            parent = os.path.join(d, 'Manifest.extra') if d else 'Manifest.extra'
            gdir = d
        else:
            g = up
            while g not in mdirs:
                g = os.path.dirname(g)
            gdir = g
            parent = mfile(g)
        pl.manifests[parent].append({'tag': 'MANIFEST', 'path': rel(mp, gdir), 'target': mp, 'hashes': rng.choice(HASHSETS[1:])})
        if rng.random() < getattr(pl, 'p_dup_manifest', 0.08):
            # a second MANIFEST line for the same sub-Manifest: in the same Manifest, or in one further up
            ups = [g2 for g2 in mdirs if g2 != d and (g2 == '' or d.startswith(g2 + '/'))]
            g2 = rng.choice(ups) if ups else gdir
            e2 = {'tag': 'MANIFEST', 'path': rel(mp, g2), 'target': mp, 'hashes': rng.choice(HASHSETS[1:]), 'dup': 'manifest-twice'}
            r = rng.random()
            if r < 0.25 and not getattr(pl, 'no_conflicts', False):
                # the second reference carries a WRONG digest: only one of the two is checked when the Manifest is loaded, the
                # merged entry is checked by the walk
                e2['bad_hash'] = True
                e2['dup'] = 'manifest-twice-bad'
            elif r < 0.4 and not getattr(pl, 'no_conflicts', False) and getattr(pl, 'allow_data_for_manifest', False):
                # ... or the file is listed as plain DATA as well, with a wrong digest (verification streams only: for update
                # this is the layout of the recorded finding F27)
                e2['tag'] = 'DATA'
                e2['bad_hash'] = True
                e2['dup'] = 'data-for-manifest-bad'
            pl.manifests[mfile(g2)].append(e2)
            pl.notes.append('dup:' + e2['dup'])
    # decorations
    if rng.random() < 0.15:
        # a DIST entry named like a listed file of the same Manifest (a local copy of a distfile)
        cands = [(mp, e) for mp, es in pl.manifests.items() for e in es
                 if e['tag'] in ('DATA', 'MISC', 'EBUILD') and '/' not in e['path'] and not e.get('dup')
                 and all(32 < ord(c) < 127 and c != '\\' for c in e['path'])]
        if cands:
            mp, e = rng.choice(sorted(cands, key=lambda x: (x[0], x[1]['path'])))
            pl.manifests[mp].append({'tag': 'DIST', 'path': e['path'], 'size': 7, 'cks': {'SHA1': 'ee'}})
            pl.notes.append('dist-twin')
    if rng.random() < 0.3:
        pl.manifests[pl.top].append({'tag': 'TIMESTAMP', 'ts': '2017-10-22T18:06:41Z'})
    if rng.random() < 0.3:
        pl.manifests[rng.choice(sorted(pl.manifests))].append({'tag': 'DIST', 'path': 'dist-1.tar.gz', 'size': 3, 'cks': {'MD5': 'aa'}})
    for mp in pl.manifests:
        rng.shuffle(pl.manifests[mp])
    return pl


def manifest_text(pl, mp, written):
    """text of Manifest `mp`; `written` maps relpath -> bytes for everything already on disk / decided"""
    lines = []
    for e in pl.manifests[mp]:
        t = e['tag']
        if t == 'TIMESTAMP':
            lines.append(entry_line('TIMESTAMP', None, ts=e['ts']))
        elif t == 'IGNORE':
            lines.append(entry_line('IGNORE', e['path']))
        elif t == 'DIST':
            lines.append(entry_line('DIST', e['path'], e['size'], e['cks']))
        else:
            data = written[e['target']]
            cks = digests_of(data, e['hashes'])
            if e.get('bad_hash'):
                k = sorted(cks)[0]
                cks[k] = ('0' if cks[k][0] != '0' else '1') + cks[k][1:]
            if e.get('bad_hash_name') in cks:
                k = e['bad_hash_name']
                cks[k] = ('0' if cks[k][0] != '0' else '1') + cks[k][1:]
            # digests under names this interpreter cannot compute (WHIRLPOOL without the OpenSSL legacy provider, unknown names)
            cks.update(e.get('fake_cks', {}))
            path = e['path']
            if t == 'AUX':
                path = path[len('files/'):]
            lines.append(entry_line(t, path, len(data) + e.get('size_delta', 0), cks))
    return ''.join(l + '\n' for l in lines)


def write_plan(pl, root):
    """materialise the plan: files, then Manifests bottom-up"""
    os.makedirs(root, exist_ok=True)
    for d in sorted(pl.dirs):
        os.makedirs(os.path.join(root, d), exist_ok=True)
    written = {}
    for p, data in pl.files.items():
        fp = os.path.join(root, p)
        with open(fp, 'wb') as f:
            f.write(data)
        t = pl.mtimes.get(p)
        if t is not None:
            os.utime(fp, ns=(t * 10**9, t * 10**9))
        written[p] = data
    for p, tgt in pl.links.items():
        os.symlink(tgt, os.path.join(root, p))
    for p in pl.fifos:
        os.mkfifo(os.path.join(root, p))
    # bottom-up; a Manifest referencing a sibling Manifest is written after it
    sib_targets = set(e['target'] for mp2, es in pl.manifests.items() for e in es
                      if e['tag'] == 'MANIFEST' and os.path.dirname(e['target']) == os.path.dirname(mp2))
    order = sorted(pl.manifests, key=lambda s: (-s.count('/'), 0 if s in sib_targets else 1, s))
    texts = {}
    for mp in order:
        text = manifest_text(pl, mp, written)
        texts[mp] = text
        raw = compress(os.path.splitext(mp)[1] if os.path.splitext(mp)[1] in trees.SUFFIXES else '', text.encode('utf8'))
        with open(os.path.join(root, mp), 'wb') as f:
            f.write(raw)
        written[mp] = raw
    return texts


# ---- mutations ---------------------------------------------------------------------

def listed_files(pl):
    out = []
    for mp, es in pl.manifests.items():
        for e in es:
            if e['tag'] in ('DATA', 'MISC', 'EBUILD', 'AUX', 'MANIFEST') and not e.get('dup'):
                out.append(e['target'])
    return sorted(set(out))


def mutate_tree(pl, rng, root, spare_manifests=False):
    """apply one mutation to the on-disk tree; returns (kind, relpath, must_fail) where must_fail says
    whether a whole-tree verification must now report a mismatch (None = not decided by construction).
    spare_manifests: leave files named like Manifests alone (edits behind the back of a live loader object)"""
    lf = [p for p in listed_files(pl) if os.path.isfile(os.path.join(root, p)) and not os.path.islink(os.path.join(root, p))]
    if spare_manifests:
        lf = [p for p in lf if not os.path.basename(p).startswith('Manifest')]
    kinds = ['content-same-size', 'content-other-size', 'delete', 'stray', 'stray-hidden', 'stray-in-ignored', 'retype-dir',
             'retype-fifo', 'retype-dangling', 'touch', 'stray-dir-with-file', 'stray-lookalike', 'stray-named-like-top-manifest',
             'delete-dir']
    k = rng.choice(kinds)
    # a LISTED hidden file (dot files are skipped as strays, but an entry for one is checked like any other): changed
    hidden_listed = [p for p in lf if is_hidden_path(os.path.basename(p)) and not is_hidden_path(os.path.dirname(p) or 'x')
                     and not any(p == i or p.startswith(i + '/') for i in pl.ignored)]
    if hidden_listed and rng.random() < 0.5:
        p = rng.choice(hidden_listed)
        fp = os.path.join(root, p)
        open(fp, 'ab').write(b'!hidden-changed')
        return ('listed-hidden-changed', p, True)
    if spare_manifests and k == 'stray-named-like-top-manifest':
        k = 'stray'
    def visible(p):
        return not is_hidden_path(p) and not any(p == i or p.startswith(i + '/') for i in pl.ignored)
    if k in ('content-same-size', 'content-other-size', 'delete', 'retype-dir', 'retype-fifo', 'retype-dangling', 'touch'):
        if not lf:
            return None
        p = rng.choice(lf)
        fp = os.path.join(root, p)
        data = open(fp, 'rb').read()
        st = os.stat(fp)
        if k == 'content-same-size':
            if not data:
                return None
            i = rng.randrange(len(data))
            orig = pl.files.get(p, b'')
            avoid = {data[i]} | ({orig[i]} if i < len(orig) else set())
            new = data[:i] + bytes([rng.choice([b for b in range(256) if b not in avoid])]) + data[i + 1:]
            open(fp, 'wb').write(new)
            os.utime(fp, ns=(st.st_mtime_ns + 10**9, st.st_mtime_ns + 10**9))
            # detectable only through a listed digest (an entry without checksums pins the size alone)
            hashed = any(e.get('target') == p and e.get('hashes') and not e.get('dup')
                         for es in pl.manifests.values() for e in es)
            return (k, p, True if hashed else False)
        if k == 'content-other-size':
            open(fp, 'wb').write(data + b'x')
            return (k, p, True)
        if k == 'touch':
            os.utime(fp, ns=(st.st_mtime_ns + 5 * 10**9, st.st_mtime_ns + 5 * 10**9))
            return (k, p, False)
        os.unlink(fp)
        if k == 'retype-dir':
            os.mkdir(fp)
        elif k == 'retype-fifo':
            os.mkfifo(fp)
        elif k == 'retype-dangling':
            os.symlink('no-such-target', fp)
        return (k, p, True)
    dirs = sorted(d for d in pl.dirs if os.path.isdir(os.path.join(root, d)))
    if k == 'delete-dir':
        # a whole directory with listed files vanishes: its entries are met only in the pass over unvisited directories
        cands = sorted(set(os.path.dirname(p) for p in lf if os.path.dirname(p) and visible(p)
                           and not os.path.basename(p).startswith('Manifest')))
        cands = [c for c in cands if os.path.isdir(os.path.join(root, c)) and not os.path.islink(os.path.join(root, c))
                 and not any(m.startswith(c + '/') for m in pl.manifests)]
        if not cands:
            return None
        dd = rng.choice(cands)
        inside = sorted(p for p in lf if p.startswith(dd + '/') and visible(p))
        import shutil
        shutil.rmtree(os.path.join(root, dd))
        pl.last_deleted_dir = dd
        return (k, inside[0], True) if inside else None
    d = rng.choice(dirs)
    if k == 'stray':
        nm = 'stray-' + str(rng.randint(0, 99))
        p = os.path.join(d, nm) if d else nm
        open(os.path.join(root, p), 'wb').write(b'stray')
        return (k, p, True if visible(p) else False)
    if k == 'stray-named-like-top-manifest':
        # only the top-level Manifest itself is exempt from the stray check, by its full relative path
        if not d:
            return None
        p = os.path.join(d, pl.top)
        if os.path.lexists(os.path.join(root, p)):
            return None
        open(os.path.join(root, p), 'wb').write(b'DATA x 0\n')
        return (k, p, True if visible(p) else False)
    if k == 'stray-hidden':
        p = os.path.join(d, '.stray') if d else '.stray'
        open(os.path.join(root, p), 'wb').write(b'stray')
        return (k, p, False)
    if k == 'stray-in-ignored':
        igd = [i for i in pl.ignored if os.path.isdir(os.path.join(root, i))]
        if not igd:
            return None
        p = os.path.join(rng.choice(igd), 'stray-ign')
        open(os.path.join(root, p), 'wb').write(b'stray')
        return (k, p, False)
    if k == 'stray-dir-with-file':
        p = os.path.join(d, 'newdir') if d else 'newdir'
        os.makedirs(os.path.join(root, p), exist_ok=True)
        open(os.path.join(root, p, 'f'), 'wb').write(b'1')
        return (k, p + '/f', True if visible(p) else False)
    if k == 'stray-lookalike':
        # a sibling whose name merely starts with an IGNOREd name: must NOT be covered by the IGNORE
        if not pl.ignored:
            return None
        i = rng.choice(sorted(pl.ignored))
        p = i + rng.choice(['x', '2', '.bak', ' '])
        if os.path.lexists(os.path.join(root, p)) or not visible(os.path.dirname(p) or 'v') \
                or not os.path.isdir(os.path.dirname(os.path.join(root, p))):
            return None
        open(os.path.join(root, p), 'wb').write(b'lookalike')
        return (k, p, True if visible(p) else False)
    return None
