"""Fault injection at the file-system calls gemato issues (C06, C18).

`Injector(root)` patches os.open / os.stat / os.fstat / os.scandir (creation and iteration) / os.close and builtins.open
(by path: 'open'; by descriptor: 'fdopen'; the read family of the returned object: 'read').  Only calls on paths at or
below `root` (and on descriptors / objects obtained from such calls) are seen, so the harness's own I/O is unaffected.

Modes:  count only;  at=(k, errno): the k-th seen call raises OSError(errno);  kind=(name, errno): the first call of that
kind raises;  path=(prefix, errno): every path-taking call at or below the prefix raises (an unreadable object).
"""
import builtins
import errno as _errno
import os

ERRNOS = {'EACCES': _errno.EACCES, 'EPERM': _errno.EPERM, 'EIO': _errno.EIO, 'ENOMEM': _errno.ENOMEM, 'ELOOP': _errno.ELOOP,
          'ENOTDIR': _errno.ENOTDIR, 'EMFILE': _errno.EMFILE, 'ESTALE': _errno.ESTALE, 'ENAMETOOLONG': _errno.ENAMETOOLONG,
          'EOVERFLOW': _errno.EOVERFLOW}
READS = ('read', 'read1', 'readline', 'readlines', 'readinto', 'readinto1', 'readall')


def n_fds():
    return len(os.listdir('/proc/self/fd'))


class _File:
    """proxy for a file object: the read family can fault; close is recorded"""
    def __init__(self, inj, f, what):
        object.__setattr__(self, '_inj', inj)
        object.__setattr__(self, '_f', f)
        object.__setattr__(self, '_what', what)

    def __getattr__(self, name):
        a = getattr(self._f, name)
        if name in READS:
            inj, what = self._inj, self._what

            def wrapped(*args, **kw):
                inj.event('read', what)
                return a(*args, **kw)
            return wrapped
        return a

    def __iter__(self):
        return self

    def __next__(self):
        self._inj.event('read', self._what)
        return next(self._f)

    def __enter__(self):
        self._f.__enter__()
        return self

    def __exit__(self, *a):
        self.close()
        return False

    def close(self):
        if not self._f.closed:
            self._inj.trace.append('close')
            try:
                self._inj.fds.discard(self._f.fileno())
            except (OSError, ValueError):
                pass
        return self._f.close()


class _Scan:
    def __init__(self, inj, it, path):
        self.inj, self.it, self.path = inj, it, path

    def __iter__(self):
        return self

    def __next__(self):
        self.inj.event('scandir-next', self.path)
        return next(self.it)

    def __enter__(self):
        return self

    def __exit__(self, *a):
        self.it.close()
        return False

    def close(self):
        self.it.close()


class Injector:
    def __init__(self, root, at=None, kind=None, path=None, kinds=None):
        self.root = os.path.normpath(root)
        self.at, self.kind, self.path = at, kind, path
        self.kinds = kinds          # restrict counting / `at` to these kinds
        self.n = 0
        self.trace = []             # kinds, in order (consecutive reads collapsed)
        self.events = []            # (kind, what)
        self.hits = []              # (kind, what, errno)
        self.fds = set()
        self.kind_done = False

    def mine(self, p):
        if isinstance(p, bytes):
            p = os.fsdecode(p)
        if not isinstance(p, str):
            return False
        p = os.path.normpath(p)
        return p == self.root or p.startswith(self.root + os.sep)

    def event(self, kind, what):
        if not (kind == 'read' and self.trace and self.trace[-1] == 'read'):
            self.trace.append(kind)
        elif kind == 'read':
            pass
        self.events.append((kind, what))
        if self.kinds is not None and kind not in self.kinds:
            return
        k = self.n
        self.n += 1
        err = None
        if self.at is not None and self.at[0] == k:
            err = self.at[1]
        if self.kind is not None and not self.kind_done and self.kind[0] == kind:
            self.kind_done = True
            err = self.kind[1]
        if self.path is not None and isinstance(what, str):
            pre = os.path.normpath(self.path[0])
            w = os.path.normpath(what)
            if w == pre or w.startswith(pre + os.sep):
                err = self.path[1]
        if err is not None:
            self.hits.append((kind, what, err))
            raise OSError(err, os.strerror(err), what if isinstance(what, str) else None)

    def __enter__(self):
        inj = self
        self.saved = (os.open, os.stat, os.fstat, os.scandir, os.close, builtins.open)
        o_open, o_stat, o_fstat, o_scandir, o_close, b_open = self.saved

        def w_open(path, flags, mode=0o777, *, dir_fd=None):
            if dir_fd is None and inj.mine(path):
                inj.event('open', os.fspath(path))
                fd = o_open(path, flags, mode)
                inj.fds.add(fd)
                return fd
            return o_open(path, flags, mode, dir_fd=dir_fd)

        def w_stat(path, *a, **kw):
            if not isinstance(path, int) and inj.mine(path) and kw.get('follow_symlinks', True) and kw.get('dir_fd') is None:
                inj.event('stat', os.fspath(path))
            return o_stat(path, *a, **kw)

        def w_fstat(fd):
            if fd in inj.fds:
                inj.event('fstat', fd)
            return o_fstat(fd)

        def w_scandir(path='.'):
            if not isinstance(path, int) and inj.mine(path):
                inj.event('scandir', os.fspath(path))
                return _Scan(inj, o_scandir(path), os.fspath(path))
            return o_scandir(path)

        def w_close(fd):
            if fd in inj.fds:
                inj.fds.discard(fd)
                inj.trace.append('close')
            return o_close(fd)

        def w_bopen(file, *a, **kw):
            if isinstance(file, int) and file in inj.fds:
                inj.event('fdopen', file)
                f = b_open(file, *a, **kw)
                inj.fds.discard(file)           # the file object owns it now
                return _File(inj, f, file)
            if not isinstance(file, int) and inj.mine(file):
                mode = a[0] if a else kw.get('mode', 'r')
                if 'r' in mode and '+' not in mode:
                    inj.event('open', os.fspath(file))
                    f = b_open(file, *a, **kw)
                    inj.fds.add(f.fileno())
                    return _File(inj, f, os.fspath(file))
            return b_open(file, *a, **kw)

        os.open, os.stat, os.fstat, os.scandir, os.close, builtins.open = w_open, w_stat, w_fstat, w_scandir, w_close, w_bopen
        return self

    def __exit__(self, *a):
        os.open, os.stat, os.fstat, os.scandir, os.close, builtins.open = self.saved
        return False
