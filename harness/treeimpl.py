"""Real-implementation side of the L1 correspondence: run gemato on a tree, canonicalise the outcome."""
import bz2
import gzip
import logging
import lzma
import os
import zlib

from harness.common import cps


class Hang(Exception):
    pass


class time_limit:
    """turn a hanging call of the real code (e.g. a blocking open of a FIFO) into an outcome"""
    def __init__(self, seconds=20):
        self.seconds = seconds

    def __enter__(self):
        import signal

        def on_alarm(signum, frame):
            raise Hang()
        self.old = signal.signal(signal.SIGALRM, on_alarm)
        signal.alarm(self.seconds)

    def __exit__(self, *a):
        import signal
        signal.alarm(0)
        signal.signal(signal.SIGALRM, self.old)
        return False


def classify(e):
    import gemato.exceptions as ge
    if isinstance(e, Hang):
        return {'err': 'internal:HANG'}
    if isinstance(e, ge.ManifestMismatch):
        return {'err': 'mismatch', 'path': cps(e.path)}
    table = [(ge.ManifestIncompatibleEntry, 'incompatible'), (ge.ManifestCrossDevice, 'crossdev'),
             (ge.ManifestSymlinkLoop, 'symlinkloop'), (ge.ManifestInvalidPath, 'invalidpath'),
             (ge.ManifestSyntaxError, 'syntax'), (ge.ManifestUnsignedData, 'unsigned'), (ge.UnsupportedHash, 'unsupportedhash')]
    for cls, name in table:
        if isinstance(e, cls):
            return {'err': name}
    if isinstance(e, ge.GematoException):
        return {'err': 'gemato:' + type(e).__name__}
    if isinstance(e, (gzip.BadGzipFile, lzma.LZMAError, EOFError, zlib.error)):
        return {'err': 'compress'}
    if isinstance(e, FileNotFoundError):
        return {'err': 'os:Gemato.L1.Errno.ENOENT'}
    if isinstance(e, NotADirectoryError):
        return {'err': 'os:Gemato.L1.Errno.ENOTDIR'}
    if isinstance(e, IsADirectoryError):
        return {'err': 'os:Gemato.L1.Errno.EISDIR'}
    if isinstance(e, OSError):
        if e.errno is None:
            return {'err': 'compress'}
        return {'err': 'os:code:%d' % e.errno}
    if isinstance(e, UnicodeDecodeError):
        return {'err': 'compress'}
    return {'err': 'internal:' + type(e).__name__}


def is_internal(out):
    return 'err' in out and out['err'].startswith('internal:')


class Recorder:
    """keep-going fail handler with a policy; records the relative paths it is called with"""
    def __init__(self, default=False, exceptions=()):
        self.default = default
        self.exceptions = set(exceptions)
        self.calls = []

    def __call__(self, err):
        self.calls.append(err.path)
        return (not self.default) if err.path in self.exceptions else self.default


def verify_dir(root, top, path='', handler=None, last_mtime=None, xdev=True, pre_find_timestamp=False):
    from gemato.recursiveloader import ManifestRecursiveLoader
    try:
        with time_limit():
            l = ManifestRecursiveLoader(os.path.join(root, top), allow_xdev=xdev)
            if pre_find_timestamp:
                l.find_timestamp()
            kw = {}
            if handler is not None:
                kw['fail_handler'] = handler
            if last_mtime is not None:
                kw['last_mtime'] = last_mtime
            ret = l.assert_directory_verifies(path, **kw)
    except Exception as e:
        return classify(e)
    return {'ret': bool(ret), 'calls': [cps(p) for p in (handler.calls if handler is not None else [])]}


def lookup(root, top, api, path, filename=None, pre_find_timestamp=False):
    from gemato.recursiveloader import ManifestRecursiveLoader
    from harness.textimpl import canon_entry
    try:
      with time_limit():
        l = ManifestRecursiveLoader(os.path.join(root, top))
        if pre_find_timestamp:
            l.find_timestamp()
        if api == 'find_path_entry':
            e = l.find_path_entry(path)
            return {'entry': canon_entry(e) if e is not None else None}
        if api == 'verify_path':
            r, _diff = l.verify_path(path)
            return {'ret': bool(r)}
        if api == 'assert_path_verifies':
            l.assert_path_verifies(path)
            return {'ret': True}
        if api == 'find_dist_entry':
            e = l.find_dist_entry(filename, path)
            return {'entry': canon_entry(e) if e is not None else None}
    except Exception as e:
        return classify(e)
    raise KeyError(api)


def cli_verify(root, paths, extra=()):
    import gemato.cli
    logging.disable(logging.CRITICAL)
    try:
        with time_limit(40):
            return gemato.cli.main(['gemato', 'verify'] + list(extra) + [os.path.join(root, p) if p else root for p in paths])
    except SystemExit as e:
        return e.code
    except Exception as e:
        return 'exc:' + type(e).__name__
    finally:
        logging.disable(logging.NOTSET)
