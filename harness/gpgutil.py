"""real gpg through gemato's own IsolatedGPGEnvironment, with the suite's test key"""
import io
import os

from harness import keydata

VALID_PUBLIC_KEY = keydata.PUBLIC_KEY + keydata.UID + keydata.PUBLIC_KEY_SIG
PRIVATE_KEY = keydata.SECRET_KEY + keydata.UID + keydata.PUBLIC_KEY_SIG
PRIVATE_KEY_ID = '0x136880E72A7B1384'
KEY_FPR = '81E12C16BD8DCD60BE180845136880E72A7B1384'


class RecordingIsolatedEnv:
    """IsolatedGPGEnvironment that records every text handed to verify_file and every Popen env"""

    def __new__(cls, *a, **kw):
        from gemato.openpgp import IsolatedGPGEnvironment

        class _Env(IsolatedGPGEnvironment):
            __slots__ = ['seen', 'spawned']

            def verify_file(self, f):
                data = f.read()
                self.seen.append(data)
                return super().verify_file(io.StringIO(data))

        e = _Env(*a, **kw)
        e.seen = []
        e.spawned = []
        return e


def private_env():
    env = RecordingIsolatedEnv()
    env.import_key(io.BytesIO(PRIVATE_KEY))
    return env


def locked_env():
    """a keyring whose only secret key is protected by a passphrase nobody supplies (batch mode, no pinentry): gpg starts
    the cleartext message, fails at the signature and exits non-zero. The suite's public key is there for verifying."""
    import subprocess
    from gemato.openpgp import IsolatedGPGEnvironment
    env = IsolatedGPGEnvironment()
    env.import_key(io.BytesIO(VALID_PUBLIC_KEY))
    e = dict(os.environ, GNUPGHOME=env.home)
    subprocess.run(['gpg', '--batch', '--pinentry-mode', 'loopback', '--passphrase', 'nobody-knows',
                    '--quick-gen-key', 'locked@example.com', 'ed25519', 'sign', 'never'], env=e, check=True, capture_output=True)
    subprocess.run(['gpgconf', '--kill', 'gpg-agent'], env=e, capture_output=True)      # nothing cached by the agent
    return env


def clearsign(env, text, extra_args=()):
    from gemato.openpgp import GNUPG
    from gemato.exceptions import OpenPGPSigningFailure
    ex, out, err = env._spawn_gpg([GNUPG, '--batch', '--clearsign'] + list(extra_args), text.encode('utf8'),
                                  raise_on_error=OpenPGPSigningFailure)
    return out.decode('utf8')


def authenticated_cleartext(env, signed_text):
    """what gpg itself outputs as the signed document (None if it does not verify)"""
    from gemato.openpgp import GNUPG
    ex, out, err = env._spawn_gpg([GNUPG, '--batch', '--decrypt'], signed_text.encode('utf8', 'surrogatepass'))
    if ex != 0:
        return None
    return out.decode('utf8', 'replace')
