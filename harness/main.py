import argparse
import importlib
import os
import sys
import traceback

from harness import common


def main():
    ap = argparse.ArgumentParser()
    ap.add_argument('prop')
    ap.add_argument('--tier', default=os.environ.get('VERIF_TIER', 'quick'), choices=['quick', 'thorough'])
    ap.add_argument('--replay')
    ap.add_argument('--no-build', action='store_true', help='(development) skip the Lean build step')
    a = ap.parse_args()
    try:
        seed = int(os.environ.get('VERIF_SEED', '0'))
    except ValueError:
        seed = 0
    pid = a.prop.upper()
    try:
        mod = importlib.import_module(f'harness.props.{pid.lower()}')
    except ModuleNotFoundError as e:
        print(f'no check for {pid}: {e}', file=sys.stderr)
        return 2
    ctx = common.Ctx(pid, a.tier, seed)
    try:
        if a.replay:
            return mod.replay(ctx, a.replay)
        if not a.no_build:
            ctx.build = common.build(pid, bridge_modules=getattr(mod, 'BRIDGE', ()), props_modules=getattr(mod, 'PROPS', None),
                                     recheck=(a.tier == 'thorough'))
        mod.run(ctx)
        return ctx.finish()
    except common.HarnessError as e:
        print(f'HARNESS-ERROR [{pid}]: {e}', file=sys.stderr)
        return 2
    except Exception:
        traceback.print_exc()
        print(f'HARNESS-ERROR [{pid}]: unexpected exception', file=sys.stderr)
        return 2


if __name__ == '__main__':
    sys.exit(main())
