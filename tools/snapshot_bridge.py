#!/usr/bin/env python3
"""snapshot_bridge.py <BridgeModuleName> <doc> <prefix>... : writes lean/Gemato/Bridge/<Name>.lean asserting that the
extracted items with the given name prefixes equal their values on the tree as reviewed now (run once by hand, commit)."""
import os, re, sys
here = os.path.dirname(os.path.dirname(os.path.abspath(__file__)))
name, doc, prefixes = sys.argv[1], sys.argv[2].replace('/-', '/ -').replace('-/', '- /'), sys.argv[3:]
src = open(os.path.join(here, 'lean/Gemato/Extracted.lean')).read()
out = ['import Gemato.Extracted', '/-', f'  Bridge obligations: {doc}', '  The right-hand sides are the values of the reviewed tree; the left-hand sides are',
       '  re-extracted from /repo on every run.', '-/', 'namespace Gemato.Bridge', '']
for m in re.finditer(r'^def (\w+) : (.*?) := (.*)$', src, re.M):
    nm, ty, val = m.groups()
    if any(nm.startswith(p) for p in prefixes):
        out.append(f'theorem snap_{nm} : Extracted.{nm} = ({val} : {ty}) := by decide' + (' +kernel' if len(val) > 1200 else ''))
        out.append('')
out.append('end Gemato.Bridge')
open(os.path.join(here, f'lean/Gemato/Bridge/{name}.lean'), 'w').write('\n'.join(out) + '\n')
print('wrote', name, sum(1 for l in out if l.startswith('theorem')))
