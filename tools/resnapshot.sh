#!/bin/sh
# tools/resnapshot.sh: regenerate the whole-function snapshot bridges (Bridge/Src*.lean) from /repo's CURRENT source.
# Run by hand, only after the change to /repo has been reviewed (a fix: commit) and the model follows it; commit the result.
cd "$(dirname "$0")/.." || exit 2
python3 tools/enumerate_src.py
/venv/bin/python -c "from harness import extract; e = extract.write_extracted(); print('extract errors:', e)"
doc="whole-function snapshot of the source the model was read off; any edit of these functions breaks the obligation and sends the check searching for a failing input"
for g in Text:text Verify:verify Loader:loader Walk:walk Update:update Codec:codec Profile:profile FindTop:findtop Hash:hash Pgp:pgp Cli:cli; do
  n=${g%%:*}; p=${g##*:}
  python3 tools/snapshot_bridge.py Src$n "$doc ($p)" src_${p}_
done
