#!/usr/bin/env python3
"""prints the prompt for a seeding sub-agent: property text + worktree only (nothing from /verif)"""
import json, sys, os
pid = sys.argv[1]
wt = sys.argv[2]
variant = sys.argv[3] if len(sys.argv) > 3 else ''
for l in open(os.path.join(os.path.dirname(os.path.dirname(os.path.abspath(__file__))), 'properties.jsonl')):
    p = json.loads(l)
    if p['id'] == pid:
        break
print(f"""You are working on a scratch git worktree of the Python project mgorny/gemato (reference implementation of Gentoo GLEP 74 Manifest files: parser/writer, recursive tree verify/update, OpenPGP checks via gpg). The worktree is at {wt} — work ONLY there (never touch /repo or /verif). Use /venv/bin/python; run everything with the worktree as current directory so that `import gemato` resolves to the worktree (check with: cd {wt} && /venv/bin/python -c "import gemato; print(gemato.__file__)"). The existing test suite is run with: cd {wt} && /venv/bin/python -m pytest -q -p no:cacheprovider --timeout=900  (about 15 s; on the unmodified tree exactly 29 tests fail and 1127 pass — the 29 are environment-related failures that are expected; the SAME 1127 tests must still pass after your change and no additional test may fail).

Here is a semantic property the code base is supposed to satisfy:

  id: {p['id']}
  title: {p['title']}
  statement: {p['statement']}
  quantified over: {p['quantifier']['text']}
  relevant code: {json.dumps(p['anchors'].get('mechanism', []))}

YOUR TASK: produce ONE realistic source change (a plausible bug a maintainer could introduce during a refactoring or "optimisation" — 1 to 15 changed lines, in the gemato/ or utils/ sources only, not in tests) that BREAKS this property while the code still imports, and the existing test suite still passes exactly as before (same 1127 passing). {variant}
The change must need something specific to manifest — an unusual input, a particular multi-step sequence of operations, a particular tree/Manifest layout, a fault at a particular point, or two cooperating sites that each look fine alone — NOT something ordinary use would expose at once. Avoid changes that merely raise a new exception type everywhere or that break the happy path.

Deliver, inside the worktree directory:
  1. the source change itself (left applied in the working tree, uncommitted);
  2. {wt}/SEED_DEMO.py — a standalone demonstration program (run as: cd {wt} && /venv/bin/python SEED_DEMO.py) that exits 0 when the property holds and exits 1 (printing what went wrong) when it is violated. It must exit 1 with your change applied and exit 0 without it (verify both with `git diff -- gemato utils > {wt}/x.diff; git checkout -- gemato utils; ...; git apply {wt}/x.diff; rm {wt}/x.diff` — do NOT use `git stash`: the stash is shared by all worktrees of the repository and other agents work in sibling worktrees). The demo must build its own temporary input (tempfile) and clean up after itself.
  3. {wt}/SEED_META.json — {{"property": "{p['id']}", "summary": "<one line: what the change does>", "needs": "<what specific input/sequence/state is needed for it to manifest>", "files": [...], "tests_before": "<pytest summary line>", "tests_after": "<pytest summary line>"}}

Before finishing, confirm yourself: (a) pytest summary identical to the unmodified tree (29 failed, 1127 passed); (b) SEED_DEMO.py exits 1 with the change and 0 without. Leave the change applied. In your final message report the diff (git diff of gemato/ utils/), and the two confirmations. Do not write anything outside {wt} except temporary files you delete.""")
