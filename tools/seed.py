#!/usr/bin/env python3
"""seed.py collect <PID> <worktree> <name>   - store a sub-agent's change as seeded/<name>/ after confirming it
   seed.py run <name> [check ids...]         - apply seeded/<name>/patch.diff to /repo, run checks, undo"""
import json, os, subprocess, sys, shutil, re

VERIF = os.path.dirname(os.path.dirname(os.path.abspath(__file__)))
PY = '/venv/bin/python'


def sh(cmd, cwd=None, timeout=3600):
    p = subprocess.run(cmd, shell=True, cwd=cwd, stdout=subprocess.PIPE, stderr=subprocess.STDOUT, text=True, timeout=timeout)
    return p.returncode, p.stdout


def baseline_pass():
    return set(json.load(open('/root/.vp/BASELINE.json'))['stable_pass'])


def run_suite(wt):
    junit = os.path.join(wt, '.junit.xml')
    sh(f'{PY} -m pytest -q -p no:cacheprovider --timeout=900 --continue-on-collection-errors --junitxml={junit}', cwd=wt)
    import xml.etree.ElementTree as ET
    passed = set()
    for tc in ET.parse(junit).getroot().iter('testcase'):
        if not any(c.tag in ('failure', 'error', 'skipped') for c in tc):
            passed.add(f"{tc.get('classname')}::{tc.get('name')}")
    os.unlink(junit)
    return passed


def collect(pid, wt, name):
    rc, diff = sh('git diff -- gemato utils', cwd=wt)
    if not diff.strip():
        print('no diff in', wt); return 1
    dest = os.path.join(VERIF, 'seeded', name)
    os.makedirs(dest, exist_ok=True)
    open(os.path.join(dest, 'patch.diff'), 'w').write(diff)
    shutil.copy(os.path.join(wt, 'SEED_DEMO.py'), os.path.join(dest, 'demo.py'))
    meta = {}
    try:
        meta = json.load(open(os.path.join(wt, 'SEED_META.json')))
    except Exception as e:
        meta = {'note': f'agent meta unreadable: {e}'}
    # confirm in a fresh scratch worktree
    fresh = f'/tmp/wtc-{name}'
    sh(f'git -C /repo worktree remove --force {fresh}')
    rc, out = sh(f'git -C /repo worktree add -q {fresh} HEAD')
    try:
        shutil.copy(os.path.join(dest, 'demo.py'), os.path.join(fresh, 'SEED_DEMO.py'))
        rc0, out0 = sh(f'{PY} SEED_DEMO.py', cwd=fresh, timeout=900)
        rca, outa = sh(f'git apply {dest}/patch.diff', cwd=fresh)
        assert rca == 0, outa
        rc1, out1 = sh(f'{PY} SEED_DEMO.py', cwd=fresh, timeout=900)
        passed = run_suite(fresh)
        missing = sorted(baseline_pass() - passed)
        meta['confirmed'] = {
            'demo_exit_without_change': rc0, 'demo_exit_with_change': rc1,
            'baseline_tests_no_longer_passing': missing[:10], 'n_missing': len(missing),
            'demo_output_with_change_tail': out1[-600:],
            'ran': ['git worktree add (fresh, from /repo HEAD)', 'demo.py without patch', 'git apply patch.diff', 'demo.py with patch',
                    'pytest full suite with patch, compared with BASELINE.json stable_pass'],
        }
        ok = rc0 == 0 and rc1 != 0 and not missing
        meta['kept'] = ok
        meta['property'] = pid
    finally:
        sh(f'git -C /repo worktree remove --force {fresh}')
    json.dump(meta, open(os.path.join(dest, 'meta.json'), 'w'), indent=1)
    print(json.dumps(meta['confirmed'], indent=1)[:1500])
    print('KEPT' if ok else 'REJECTED', name)
    if not ok:
        shutil.move(dest, dest + '.rejected') if not os.path.exists(dest + '.rejected') else shutil.rmtree(dest)
    sh(f'git -C /repo worktree remove --force {wt}')
    return 0 if ok else 1


def reconfirm(name, newpatch=None):
    """re-confirm a stored seed against /repo's current HEAD (after fix commits moved the code), optionally with a
    rebased patch: demo passes without, fails with, the baseline tests still pass"""
    dest = os.path.join(VERIF, 'seeded', name)
    meta = json.load(open(os.path.join(dest, 'meta.json')))
    patch = newpatch or os.path.join(dest, 'patch.diff')
    fresh = f'/tmp/wtc-{name}'
    sh(f'git -C /repo worktree remove --force {fresh}')
    rc, out = sh(f'git -C /repo worktree add -q {fresh} HEAD')
    try:
        shutil.copy(os.path.join(dest, 'demo.py'), os.path.join(fresh, 'SEED_DEMO.py'))
        rc0, out0 = sh(f'{PY} SEED_DEMO.py', cwd=fresh, timeout=900)
        rca, outa = sh(f'git apply {patch}', cwd=fresh)
        assert rca == 0, outa
        rc1, out1 = sh(f'{PY} SEED_DEMO.py', cwd=fresh, timeout=900)
        missing = sorted(baseline_pass() - run_suite(fresh))
        head = sh('git -C /repo log --format=%h -1')[1].strip()
        ok = rc0 == 0 and rc1 != 0 and not missing
        meta.setdefault('reconfirmed', []).append({'repo_head': head, 'demo_exit_without_change': rc0, 'demo_exit_with_change': rc1,
                                                   'n_missing': len(missing), 'rebased_patch': bool(newpatch), 'ok': ok})
        print(name, 'without', rc0, 'with', rc1, 'missing', len(missing), 'OK' if ok else 'NOT-OK', out0[-300:] if rc0 else '')
        if ok and newpatch:
            shutil.copy(newpatch, os.path.join(dest, 'patch.diff'))
    finally:
        sh(f'git -C /repo worktree remove --force {fresh}')
    json.dump(meta, open(os.path.join(dest, 'meta.json'), 'w'), indent=1)
    return 0 if ok else 1


def run(name, checks, tier='quick', inplace=False):
    """apply the seeded change and run the checks against it. Default: in a scratch worktree of /repo's HEAD that the
    checks are pointed at through VERIF_REPO (so that /repo itself stays usable meanwhile); --inplace applies it to
    /repo itself (git -C /repo apply …) and undoes it afterwards."""
    dest = os.path.join(VERIF, 'seeded', name)
    meta = json.load(open(os.path.join(dest, 'meta.json')))
    if not checks:
        checks = [meta['property']]
    if inplace:
        repo = '/repo'
        rc, out = sh('git -C /repo status --porcelain -- gemato utils')
        assert not out.strip(), '/repo has local changes: ' + out
    else:
        repo = f'/tmp/wts-{name}'
        sh(f'git -C /repo worktree remove --force {repo}')
        rc, out = sh(f'git -C /repo worktree add -q {repo} HEAD')
        assert rc == 0, out
    rc, out = sh(f'git -C {repo} apply {dest}/patch.diff')
    assert rc == 0, out
    results = {}
    try:
        for c in checks:
            rc, out = sh(f'VERIF_REPO={repo} VERIF_EVIDENCE_DIR=/tmp/seed-evidence timeout 1800 ./check {c} --tier {tier}', cwd=VERIF, timeout=2000)
            v = [l for l in out.split('\n') if l.startswith('VIOLATION') or l.startswith('HARNESS') or l.startswith('[')]
            results[c] = {'exit': rc, 'lines': v[-4:]}
            print(name, c, 'exit', rc, *v[-3:], sep='\n   ')
    finally:
        if inplace:
            sh('git -C /repo checkout -- gemato utils')
        else:
            sh(f'git -C /repo worktree remove --force {repo}')
    meta.setdefault('detection', {}).update(results)
    json.dump(meta, open(os.path.join(dest, 'meta.json'), 'w'), indent=1)
    return 0


if __name__ == '__main__':
    if sys.argv[1] == 'collect':
        sys.exit(collect(*sys.argv[2:5]))
    if sys.argv[1] == 'reconfirm':
        sys.exit(reconfirm(*sys.argv[2:4]))
    if sys.argv[1] == 'run':
        tier = 'quick'
        args = sys.argv[3:]
        if '--thorough' in args:
            args.remove('--thorough'); tier = 'thorough'
        inplace = '--inplace' in args
        if inplace:
            args.remove('--inplace')
        sys.exit(run(sys.argv[2], args, tier, inplace))
