#!/bin/sh
# tools/setup.sh: build everything once (MANIFEST.setup_cmd): extraction from /repo, the library with all theorem and
# bridge modules, the driver. Every check re-extracts and rebuilds what changed.
cd "$(dirname "$0")/.." || exit 2
/venv/bin/python -c "from harness import extract; e = extract.write_extracted(); print('extract errors:', e)" || exit 2
cd lean && lake build Gemato driver
