#!/usr/bin/env python3
"""Regenerates MANIFEST.json from the table below (keeps it valid at all times)."""
import json
import os

HERE = os.path.dirname(os.path.dirname(os.path.abspath(__file__)))

TB = ("Trusted base: Lean 4.33.0 kernel; axioms of every property theorem audited on each run to be a subset of "
      "{propext, Classical.choice, Quot.sound}; no sorry/axiom/native_decide (grep gate); harness/extract.py (T1) and the "
      "Python correspondence harness (T2/T3) with its canonicalisation; the Lean compiler for the driver binary. "
      "The model is hand-written; between the sampled points its faithfulness to the Python is assumed. ")

CLAIMED = {
    'C09': dict(
        text=("Lean theorems over the text model of ManifestFile.load for every list of lines: only the library's two exceptions are "
              "reachable (C09_only_library_errors, C09_no_internal), each malformed class of the statement is rejected "
              "(unknown tag, arity, size, dangling checksum, bad path/escape however escaped, DIST slash, timestamp), and an unsigned "
              "text is the per-line results put together (C09_line_homomorphism). Tie: constants re-extracted from manifest.py and "
              "re-proved equal (Bridge.Text); full escape-form table; differential correspondence on grammar/token/mutation streams."),
        note=TB + "CPython int()/strptime are modelled for ASCII input; non-ASCII decimal digits: model abstains (exception-class oracle only).",
        technique="Lean 4 theorems over an executable model + extracted-constant bridge + differential correspondence",
        ref='§7 C09'),
}

CLAIMED['C08'] = dict(
    text=("Lean theorems over the text model, for entry lists and texts of any length: reader∘writer = id on well-formed entries "
          "through StringIO and universal-newline files (C08_load_dump, C08_load_dump_sorted), each entry is one line whose "
          "whitespace-split is exactly to_list() (C08_one_line, C08_one_line_fields), and every accepted unsigned text parses to "
          "well-formed entries whose dump is accepted again with equal entries (C08_fixed_point); built on decodePath_encodePath for all "
          "code points incl. surrogates. Tie: Bridge.Text, exhaustive code-point tables (escaped?/separator?/escape text for all "
          "0x110000 code points), differential dump/load incl. gz/bz2/lzma/xz through real files."),
    note=TB + "Codec round-trips (gzip/bz2/lzma) are exercised, not proved. WF bounds sizes to what str()/int() can print (4300 digits).",
    technique="Lean 4 theorems over an executable model + extracted-constant bridge + exhaustive tables + differential correspondence",
    ref='§7 C08')
CLAIMED['C04'] = dict(
    text=("Exact characterisation, for line sequences of any length: load reports a signed Manifest iff the lines have the cleartext-"
          "signature shape (C04_signed_iff = C04_signed_shape + C04_shape_accepted): only inert lines outside the block, header and "
          "signature lines never parsed, entries exactly those of the dash-unescaped cleartext, exactly BEGIN..END handed to "
          "verification; truncation and misplaced armor are syntax errors; trailing whitespace cannot influence a line's entry "
          "(C04_trailing_ws_irrelevant). Tie: Bridge.Text, exhaustive line-class sequences, and genuinely gpg-signed Manifests mutated "
          "and loaded with real verification, entries compared with the cleartext `gpg --decrypt` authenticates."),
    note=TB + "gpg itself (what it authenticates, its canonicalisation and framing) is exercised with gpg 2.2.40, not modelled.",
    technique="Lean 4 theorems (exact shape characterisation) + bridge + exhaustive class sequences + real-gpg differential oracle",
    ref='§7 C04')

CLAIMED['C05'] = dict(
    text=("Lean theorems over the model of verify_file's decision, for every list of status lines: signature data is returned iff "
          "exit status 0, a GOODSIG line, well-formed VALIDSIG lines (the last one supplies the data), a TRUST_ line whose level is "
          "marginal/fully/ultimate, and no EXPKEYSIG/REVKEYSIG line (C05_accept_iff); non-zero exit is always the verification "
          "failure; acceptance is monotone over gpg's validity vocabulary (complete table); for every caller environment gpg is "
          "started with the private GNUPGHOME (C05_isolated_home); --require-signed gate. Tie: Bridge.Pgp re-proves prefixes, the "
          "trust tuple = gpg's real tokens, field indices, argv, env composition, 'every spawn of the isolated class goes through the "
          "override' from the current source; exhaustive status sequences through the real _spawn_gpg logic; real gpg for key states, "
          "owner-trust levels, byte mutations, user-GNUPGHOME contents, CLI -s/-P/-K."),
    note=TB + "Facts about gpg (exit status / GOODSIG on changed bytes, owner-trust -> validity under trust-model direct, keyring untouched) are exercised with gpg 2.2.40, not proved.",
    technique="Lean 4 theorems (iff characterisation, complete trust table) + source-extracted bridge + exhaustive status sequences + real gpg",
    ref='§7 C05')

CLAIMED['C17'] = dict(
    text=("Lean theorems: for every hash object obeying the streaming law, every schedule of non-empty reads, every size hint and "
          "every value of the two thresholds, hash_file finalises the state after feeding the complete content once "
          "(C17_any_schedule, both the slurp and the chunked branch; C17_size for the size pseudo-hash; C17_schedule_independent); "
          "the ten GLEP 74 names resolve to distinct algorithms and any other name is reported unsupported (C17_resolve_ok, "
          "C17_unknown_name_reported). Tie: Bridge.Hash re-proves the name table = GLEP 74's, thresholds > 0 and the shape of "
          "hash_file / get_hash_by_name / SizeHash / the call site from the current source; differential runs with exact chunk control, "
          "a real BufferedReader over a short-reading raw stream and real files, against one-shot hashlib and coreutils; the bytes the "
          "model feeds (identity hash) must hash to what the implementation returned."),
    note=TB + "hashlib objects are modelled by their streaming law (a hypothesis of the theorem); that hashlib's md5 is MD5 is checked against coreutils only. XOFs (shake_*) are outside the property.",
    technique="Lean 4 theorem parametric in hash object, thresholds and read schedule + source-shape bridge + differential schedules",
    ref='§7 C17')

CLAIMED['C01'] = dict(
    text=("Lean model of load_manifests_for_path, get_file_entry_dict, verify_path, verify_entry_compatibility and "
          "assert_directory_verifies (os.walk with pruning, per-directory verification, missing-directory pass) over string paths and a "
          "finite tree. Theorems: the per-file rule as an iff incl. st_size/mtime stages (C01_file_ok_iff, C01_entry_ok_regular, "
          "C01_no_entry_ok_iff_absent), the mtime rule (C01_mtime_skip_only, C01_mtime_monotone), the complete type-compatibility "
          "table, IGNORE by whole components incl. the look-alike case (C01_ignore_component_wise over pathStartsWith_iff), and "
          "soundness of each loop of the walk under the default handler (C01_files_sound, C01_leftovers_sound, "
          "C01_missing_pass_sound: success implies every found non-hidden name and every listed entry verified; a stray has no "
          "entry and cannot verify). PARTIAL: the composition of these per-directory theorems into one 'verifyDir = ok true iff "
          "Accepts' statement over the whole recursive walk is not proved; the recursion itself is covered by the correspondence. "
          "Tie: Bridge.Tree (decision points, defaults, call shapes of verify.py / recursiveloader.py / util.py re-extracted and "
          "compared), differential runs on generated trees + mutations where the model's world is read back from the real disk."),
    note=TB + "Hypotheses: st_size is the file length in generated trees; `..` in entry paths: model abstains; verifying a directory that is itself IGNOREd or hidden is outside the by-construction oracle (library-only use, DESIGN F13).",
    technique="Lean 4 theorems over an executable tree-level model + source bridge + differential trees with by-construction oracle",
    ref='§7 C01')
CLAIMED['C07'] = dict(
    text=("Lean theorem over the same tree-level model, for every tree, sub-path and handler policy: in keep-going mode the overall "
          "result is failure iff some handler invocation returned failure, and the handler is invoked only for paths whose check "
          "failed (C07_result_iff, by an invariant carried through the mutual recursion of the walk and the missing-directory pass); "
          "cross-device and symlink-loop conditions are raised whatever the handler returns (C07_structural_still_raised, "
          "C07_error_propagates). 'Exactly once, for every offending path, after the whole tree was scanned' is decided by the "
          "correspondence: set and multiplicity of reported paths vs by-construction expectations and vs the model, 0-6 simultaneous "
          "discrepancies, three policies, CLI --keep-going."),
    note=TB + "The model walks the whole tree by construction (no short-circuit); that the code does is tied by Bridge.Tree (verify_aggregate) and the differential runs.",
    technique="Lean 4 invariant proof through the recursive walk + source bridge + differential keep-going runs",
    ref='§7 C07')

CLAIMED['C02'] = dict(
    text=("Lean theorems over the model of the loading loop (load_manifests_for_path / verify_and_load), for Manifest trees of any "
          "depth: a sub-Manifest loaded against an entry matched it (loadOne_verified); with verification on, every queued item "
          "carries a MANIFEST entry of an already loaded Manifest (toLoad_queueOK) and whatever a round adds to the loaded set was "
          "named by such an entry and matched its size and checksums before being parsed (C02_round_trusted); a non-matching "
          "sub-Manifest ends the round with the mismatch error for exactly that path (loadAll_broken_link, C02_tamper_detected) and "
          "that error is the result of directory verification, verify_path, assert_path_verifies, find_path_entry and "
          "find_dist_entry (C02_*_fail_too). PARTIAL: stated per loading round, not as one invariant over all rounds of a "
          "loader's life; the TOCTOU window between hashing and re-opening a sub-Manifest is not modelled. Tie: Bridge.Tree "
          "(verify defaults on, verify_and_load shape, lookups call the loader without verify=False); differential tampering runs: "
          "chains of depth 1..5, every compression, consistent recomputation up to level k with an independent writer, six entry points."),
    note=TB + "Assumes the parent entry lists a checksum or the size changes; fresh loader per call; no hash collisions.",
    technique="Lean 4 theorems over the loading loop + source bridge + differential tampering with an independent Manifest writer",
    ref='§7 C02')

CLAIMED['C15'] = dict(
    text=("Lean theorem over the model of find_top_level_manifest on a chain of directories of any length: whenever discovery returns "
          "normally its result equals the specification `outermost` — the outermost level contributing a Manifest among those passed "
          "before the first stopping level (a Manifest whose first matching entry IGNOREs the starting path, another device or a "
          "Manifest on another device when crossing is disallowed) or up to the root; levels without a Manifest are passed through "
          "(C15_outermost via climb_eq, by induction on the chain). Also: nothing on a foreign device is returned "
          "(C15_no_foreign_device), only offered candidate names are returned (C15_only_offered_names), IGNORE matches the start path "
          "by whole components incl. the look-alike case (C15_ignore_lookalike). Tie: Bridge.FindTop (decision points, candidate "
          "names, the only caught exception, loop tail); differential runs on real directory chains where the model's chain is read "
          "back from the disk, exhaustive small family + random chains to depth 6, st_dev overridden for device boundaries."),
    note=TB + "Hypothesis: no symlinked component in the starting path (relpath is textual). Device boundaries are simulated by overriding st_dev in stat/fstat.",
    technique="Lean 4 theorem (algorithm = outside-in specification, by induction on the directory chain) + bridge + differential chains",
    ref='§7 C15')

CLAIMED['C19'] = dict(
    text=("Lean model of the five policy functions of the three profiles and theorems that they are the documented policy: a "
          "Manifest is wanted exactly in the documented directories (C19_want_manifest_iff_documented: packages / categories / "
          "eclass, licenses, metadata, profiles / metadata/{dtd,glsa,md5-cache,news,xml-schema} / md5-cache/<category>), entry typing "
          "EBUILD/MISC/AUX under the backwards-compatible profile and DATA elsewhere (C19_entry_type_spec), the default IGNORE table, "
          "the compression policy as an iff, the loader defaults applied only to unset options. Tie: Bridge.Profile pins every method "
          "body of profile.py (re-extracted each run); T2: the real policy functions vs the model on all directory shapes to depth 3 "
          "(228k evaluations, exhaustive over the alphabet); T3: gemato create / edit / update on generated repositories checked "
          "against the Lean policy functions applied to the on-disk tree, and verification with a plain loader. PARTIAL: that the "
          "updater consults the policy at the right places (placement of new Manifests, typing of new entries) is established by "
          "the T3 runs, not by a theorem over a model of the update loop."),
    note=TB + "AUX typing applies where the path lies below files/ of the Manifest the entry goes into (else DATA, see finding F14).",
    technique="Lean 4 theorems (policy = documented table) + method-body bridge + exhaustive policy tables + create/update runs",
    ref='§7 C19')

CLAIMED['C16'] = dict(
    text=("The ancestor bookkeeping of the three walkers on a directory *graph* (identities = (device, inode), named edges include "
          "directory symlinks, so cycles exist): Gr.walk is defined by well-founded recursion on (number of identities + 1 - length "
          "of the duplicate-free ancestor list) - that Lean's kernel accepts the definition is the termination theorem for every "
          "finite graph. Proved on top: every visited directory lies at depth < number of identities and, with a device set, on that "
          "device (C16_depth_and_device); a link to an ancestor raises the loop error, a directory on another device the "
          "cross-device error (C16_loop_raises, C16_cross_device_raises, C16_loop_in_first_kid); a link to a non-ancestor is visited "
          "like any directory (C16_other_links_followed). Tie: Bridge.Tree (the three os.walk call sites, the decision points of the "
          "walk); real trees with symlinks (self, parent, ancestor, sibling, mutual, chains, IGNOREd or not) through verify, "
          "unregistered-Manifest scan and update under a wall-clock bound, against an independent ancestor-identity oracle and "
          "against the tree-level Lean model with cycles unfolded from the disk; one-file-system mode with st_dev overridden."),
    note=TB + "The graph model abstracts pruning into its kids relation; that the code's pruning/recording matches is covered by the tree-level model runs (C01/C07 model) on the same trees. File-level device checks are exercised, not part of the graph theorem.",
    technique="Lean 4 well-founded recursion (termination accepted by the kernel) + invariant theorems + bridge + real symlink trees",
    ref='§7 C16')

UPD = ("Model: an executable Lean model of update_entries_for_directory (unregistered-Manifest scan, de-duplication with Python's "
       "object identity and list.remove-by-equality semantics, the stack of governing Manifests, new Manifests with default IGNOREs, "
       "typing and placement of new entries, removal pass) and of save_manifests (order, refresh of MANIFEST entries with the "
       "before/after-write distinction, sorting in place, watermark rename/unlink). Tie: every byte of every Manifest the model "
       "writes, the set of touched files and the error class are compared with the real run on generated prior states; hashes of "
       "rewritten Manifests are supplied to the model from the real post-state. ")
CLAIMED['C03'] = dict(
    text=(UPD + "Theorems: an entry refreshed by update_entry_for_path is exact for the file - true size, exactly the requested hash "
          "names, true digests (C03_refresh_exact over freshCks_spec) - and an exact entry verifies (C03_exact_verifies); "
          "save_manifests visits deeper directories first (C03_save_children_first). PARTIAL: the statement over the whole "
          "update+save (exactly-once coverage of every file, no entry for a missing file, every Manifest in use referenced exactly) "
          "is decided by the on-disk oracle and the byte-exact correspondence, not by a theorem; it is false on the inputs of the "
          "known findings F7, F8, F20, F21."),
    note=TB + "Known findings F7 (equal duplicates in one Manifest), F8 (rename collision), F20 (FIFO named Manifest), F21 (MANIFEST entry below an IGNOREd directory) are reported as KNOWN-FINDING lines.",
    technique="Lean 4 theorems on the entry refresh and save order + byte-exact model/implementation correspondence + on-disk exactness oracle",
    ref='§7 C03')
CLAIMED['C10'] = dict(
    text=(UPD + "By the model's types only the write step of save_manifests produces file-system writes. Theorems: everything the "
          "processing of one Manifest adds to the writes is that Manifest, its renamed form, or the unlink of the old name "
          "(C10_saveOne_owned over C10_write_step_owned and refresh_fold_no_writes); list.remove removes exactly the first entry "
          "object whose value equals the one looked for and leaves every other object and every value alone "
          "(removeFirstEq_spec, C10_removal_hits_only_equal); an in-place refresh changes one object (C10_refresh_touches_one). "
          "PARTIAL: preservation of DIST/IGNORE/TIMESTAMP entries, entry types and out-of-scope entries over a whole update is decided "
          "by the correspondence and by snapshots around every operation (incl. updates failing part-way), not by a global theorem."),
    note=TB + "'Nothing else on disk changes' is observed through content+mtime snapshots of the scratch tree.",
    technique="Lean 4 theorems on the write step and the primitive edits + byte-exact correspondence + snapshots around operation sequences",
    ref='§7 C10')
CLAIMED['C12'] = dict(
    text=(UPD + "Theorems: change detection is exact - a change is reported iff size or checksum dict differ from the fresh values, an "
          "already exact entry queues nothing (C12_change_detection_exact, C12_exact_entry_unchanged); the writer's entry order is a "
          "strict weak order (entryLt = lexicographic on (tag, path/ts), asymmetric, negatively transitive) and any two arrangements "
          "of the same entries with pairwise distinct keys sort to the same list (C12_canonical over C12_sort_canonical, via "
          "Perm.eq_of_pairwise). PARTIAL: 'a second update writes nothing' and byte-equality of whole Manifests across walk orders "
          "are decided by the runs (two replicas, shuffled scandir and shuffled prior entries; bytes and st_mtime_ns)."),
    note=TB + "Byte-determinism of gzip/bz2/lzma is exercised; the deterministic gzip header (no name, mtime 0) is a Bridge.FindTop fact.",
    technique="Lean 4 theorems (exact change detection; sorted order canonical by permutation uniqueness) + two-replica runs",
    ref='§7 C12')
CLAIMED['C13'] = dict(
    text=(UPD + "Theorems on the write step with a watermark: the stored form changes exactly when the policy's verdict differs from the "
          "current suffix; then the Manifest is written under the new name, the old file unlinked, the rename recorded for the "
          "parents (C13_watermark_step, C13_no_watermark_no_rename); the policy compresses iff uncompressed size >= watermark and "
          "never a file literally named Manifest (C13_policy over C19); the size the policy sees is the UTF-8 byte length "
          "(utf8Len). PARTIAL: independence of verification/lookup results from the storage format is decided by exhaustive "
          "format assignments on small layouts, not by a theorem."),
    note=TB + "Known finding F8 (rename onto another Manifest of the same directory).",
    technique="Lean 4 theorems on the write/rename step + exhaustive format assignments + watermark boundary runs",
    ref='§7 C13')

CLAIMED['C11'] = dict(
    text=(UPD + "Plus a model of the time handling in gemato/cli.py (the mtime bound derived from the TIMESTAMP; the TIMESTAMP written = "
          "the clock read before the scan, at one-second resolution). Theorems: a file whose mtime is newer than the previous TIMESTAMP "
          "is never skipped (C11_newer_files_rehashed); a size change is never skipped (C11_size_change_always_rehashed); a skip can "
          "only happen under all of {bound given, mtime <= bound, same size, IGNORE excluded} (C11_skip_only_if) and yields the same "
          "entry as hashing when the entry was exact (C11_skip_equals_full_when_exact); the bound does not depend on the local UTC "
          "offset (C11_timezone_independent); the written TIMESTAMP is never later than the scan start "
          "(C11_timestamp_not_after_start), hence a file modified while an update runs is re-hashed by the next incremental update "
          "(C11_changed_during_run_picked_up). PARTIAL: 'incremental == full over a whole history' is composed from these per-file "
          "theorems by the two-replica harness, not proved as one theorem; sub-second mtimes and float rounding of st_mtime are not modelled."),
    note=TB + "The clock of gemato.cli is replaced by a controlled one in the harness; TZ is set with time.tzset().",
    technique="Lean 4 theorems on the mtime skip and the TIMESTAMP arithmetic + source bridge of cli.py + two-replica (incremental vs full) differential histories under five time zones + model correspondence",
    ref='§7 C11')

CLAIMED['C06'] = dict(
    text=("Two models. (1) A call-level model of get_file_metadata and its consumers verify_path / update_entry_for_path in which "
          "the outcome of every file-system call (os.open, os.fstat, os.stat, open(fd), read) is a parameter - a value or an errno - and "
          "the functions return the result together with the trace of calls issued, including the close of the descriptor. Theorems, for "
          "every assignment of outcomes: 'absent' is concluded iff os.open failed with ENOENT (C06_absent_iff_enoent); a stray path "
          "verifies iff os.open failed with ENOENT (C06_stray_ok_iff_enoent); whatever issued call failed with an errno - other than "
          "os.open with ENOENT/ENXIO/EOPNOTSUPP - that very error is the result, so never success and never a mismatch "
          "(C06_verify_raises_the_fault, C06_update_raises_the_fault); the descriptor is closed exactly once on every path "
          "(C06_verify_closes_descriptor, C06_update_closes_descriptor). (2) The tree-level model gained unreadable objects "
          "(Node.unreadable errno asDir): theorems that an unreadable, not ignored, not hidden file makes the visit of its directory "
          "raise (C06_visitDir_unreadable_file), an unreadable directory the walk reaches raises (C06_walk_unreadable_dir, "
          "C06_walkDir_unreadable_subdir), an error below propagates to the whole walk and to assert_directory_verifies "
          "(C06_walkKids_propagates, C06_walkDir_propagates, C06_assert_raises_if_walk_raises), an error in the scan fails the update "
          "command before the save step, the only source of writes (C06_scan_error_fails_update, C06_writes_only_from_save); the "
          "two models agree (C06_calls_refine_obj). Tie: Bridge/Faults pins the three function bodies statement by statement; the "
          "harness injects OSErrors into the real code: per call kind x errno x object kind against model result and call trace; one "
          "unreadable object in generated trees against the tree model; every single placement of an error at the k-th call of a whole "
          "verification (library, CLI) or update scan against the property's oracle; descriptor accounting. PARTIAL: the chain from "
          "'some reached object is unreadable' to 'the whole walk raises' is proved per level, composed by hypotheses on the state at "
          "each level; single placements at calls outside get_file_metadata (scandir iteration, Manifest reads) are covered by the "
          "oracle, not by a theorem."),
    note=TB + "Faults are injected at the Python-visible calls; errors inside C helpers (DirEntry.is_dir, decompressors) are not modelled.",
    technique="Lean 4 theorems over all call outcomes (call-level model) and over trees with unreadable objects + source bridge + fault-injection differential against the real code",
    ref='§7 C06')

CLAIMED['C14'] = dict(
    text=(UPD + "The save model's writes carry a flag 'handed to gpg --clearsign'; the loader state carries the sign option, whether "
          "the top-level Manifest was loaded with a verified signature, and whether gpg can sign with the selected key. Theorems: a "
          "Manifest is signed iff it is the top-level Manifest and signing is requested, or not disabled and the original was signed "
          "(C14_sign_decision with C14_force_sign, C14_no_sign, C14_keep); sub-Manifests are never signed "
          "(C14_sub_manifest_never_signed); every text the write step writes carries exactly that decision, also under a new name after "
          "a watermark rename (C14_write_step_flags); an unusable key makes the step raise OpenPGPSigningFailure instead of writing "
          "(C14_signing_failure_raises, C14_usable_key_writes); when the decision is 'plain', every write of a whole save_manifests is "
          "plain (C14_plain_when_not_signing, by induction over the save order). Tie: Bridge/Sign pins dump, save_manifest, "
          "clear_sign_file, the statement order of the rename block and the CLI options; the harness runs the real update+save with "
          "real gpg over sign option x original state x key id x secret key present/absent x layouts x watermarks and compares every "
          "written Manifest (for signed ones: the cleartext gpg itself authenticates), flags, renames and error class with the model. "
          "PARTIAL: that gpg's output is a cleartext-signed message over exactly the text it was given, which verifies with the "
          "signing key, is observed (real gpg verification and a verifying reload on every signed write), not proved; the global "
          "'signed stays signed over a whole save' is proved per step, composed by the correspondence."),
    note=TB + "Whether the original signature verifies (openpgp_signed) is an input taken from the real loader; gpg is trusted.",
    technique="Lean 4 theorems on the sign decision, the write step and a whole save + source bridge + real-gpg differential runs",
    ref='§7 C14')

PENDING = ['C01', 'C02', 'C03', 'C04', 'C05', 'C06', 'C07', 'C08', 'C10', 'C11', 'C12', 'C13', 'C14', 'C15', 'C16',
           'C17', 'C18', 'C19', 'C20']


def main():
    checks = []
    for pid in sorted(CLAIMED):
        c = CLAIMED[pid]
        checks.append({
            'property_id': pid,
            'quick_cmd': f'./check {pid} --tier quick',
            'thorough_cmd': f'./check {pid} --tier thorough',
            'evidence_file': f'evidence/{pid}.json',
            'replay_cmd_template': f'./check {pid} --replay {{path}}',
            'engine': 'lean-model+harness',
            'level_claimed': {'category': 'proof', 'text': c['text'], 'design_ref': c['ref']},
            'level_note': c['note'],
            'technique': c['technique'],
        })
    m = {
        'version': 1,
        'setup_cmd': 'cd lean && lake build',
        'hooks': {
            'guard': 'GEMATO_VERIF',
            'enable': 'no source hooks: faults, clock, walk order and the gpg back end are substituted from the harness process',
            'baseline_off_cmd': 'cd /repo && /venv/bin/python -m pytest -ra -q -p no:cacheprovider --timeout=900 --continue-on-collection-errors',
            'source_commits': [],
            'add_only': True,
        },
        'engines': [
            {'name': 'lean-model+harness', 'path': 'lean/ harness/ check',
             'serves_properties': sorted(CLAIMED),
             'kind_free_text': 'Lean 4 library (model, theorems, bridge), compiled JSON line-protocol driver, Python differential harness'},
        ],
        'checks': checks,
        'not_applicable': [{'property_id': p, 'reason': 'not claimed yet: check under construction (see DESIGN.md §7 for the plan)'}
                           for p in PENDING if p not in CLAIMED],
        'notes': 'All claimed checks are machine-checked Lean 4 proofs over a hand-written model tied to /repo by extraction + correspondence; see DESIGN.md.',
    }
    with open(os.path.join(HERE, 'MANIFEST.json'), 'w') as f:
        json.dump(m, f, indent=1)
    print('claimed', sorted(CLAIMED), 'pending', len(m['not_applicable']))


if __name__ == '__main__':
    main()
