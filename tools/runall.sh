#!/bin/sh
# tools/runall.sh [tier] [ids...]: run checks in parallel (development aid), print the summary lines
tier=${1:-quick}; shift
ids=${*:-C01 C02 C03 C04 C05 C06 C07 C08 C09 C10 C11 C12 C13 C14 C15 C16 C17 C18 C19 C20}
out=$(mktemp -d)
cd "$(dirname "$0")/.."
for p in $ids; do echo $p; done | xargs -P 6 -I{} sh -c "./check {} --tier $tier > $out/{}.out 2>&1; echo \"{} exit=\$?\" >> $out/{}.out"
for p in $ids; do grep -h "exit=\|^VIOLATION\|^\[C\|HARNESS" $out/$p.out | tr '\n' ' '; echo; done
rm -rf "$out"
