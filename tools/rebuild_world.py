#!/usr/bin/env python3
"""rebuild_world.py <request.json> <dir>: materialise the world of a replay request (development aid). File contents are
unknown to the world (only sizes and digests), so plain files get filler of the recorded size; Manifest files get their text."""
import json, os, sys
sys.path.insert(0, os.path.dirname(os.path.dirname(os.path.abspath(__file__))))
from harness import trees


def build(n, path):
    k = n[0]
    if k == 'd':
        os.makedirs(path, exist_ok=True)
        for nm, c in n[3]:
            build(c, os.path.join(path, ''.join(chr(x) for x in nm)))
    elif k == 'f':
        m = n[1].get('m')
        if m and m[0] == 't':
            name = os.path.basename(path)
            ext = os.path.splitext(name)[1]
            data = trees.compress(ext if ext in trees.SUFFIXES else '', ''.join(chr(x) for x in m[1]).encode('utf8', 'surrogatepass'))
        else:
            data = b'x' * n[1]['size']
        open(path, 'wb').write(data)
    elif k == 's':
        os.mkfifo(path)
    elif k == 'x':
        os.symlink('no-such-target', path)


if __name__ == '__main__':
    req = json.load(open(sys.argv[1]))
    build(req.get('world') or req.get('dir'), sys.argv[2])
