#!/usr/bin/env python3
"""enumerate_src.py: list EVERY function, method and class-/module-level statement of gemato/*.py (and the two generator
scripts) of /repo's current tree that harness/extract.py's SRC_GROUPS does not name yet, assigned to the snapshot group of its
module, and write harness/src_items.json. Run by hand when the tree has been reviewed (tools/resnapshot.sh does); the list is
committed, so that at check time a function that vanished breaks an obligation and a new one cannot hide a change."""
import ast, json, os, sys
HERE = os.path.dirname(os.path.dirname(os.path.abspath(__file__)))
sys.path.insert(0, HERE)
from harness import extract
REPO = extract.REPO
MODULE_GROUP = {'gemato/manifest.py': 'text', 'gemato/exceptions.py': 'text', 'gemato/verify.py': 'verify', 'gemato/util.py': 'verify',
                'gemato/recursiveloader.py': 'loader', 'gemato/compression.py': 'codec', 'gemato/profile.py': 'profile',
                'gemato/hash.py': 'hash', 'gemato/openpgp.py': 'pgp', 'gemato/cli.py': 'cli', 'gemato/find_top_level.py': 'findtop'}
named = set((fl, cls, fn) for items in extract.SRC_GROUPS.values() for fl, cls, fn in items)
out = []
for fl, grp in MODULE_GROUP.items():
    tree = ast.parse(open(os.path.join(REPO, fl), encoding='utf8').read())
    out.append([grp, fl, None, '<attrs>'])
    for n in tree.body:
        if isinstance(n, ast.FunctionDef) and (fl, None, n.name) not in named:
            out.append([grp, fl, None, n.name])
        elif isinstance(n, ast.ClassDef):
            out.append([grp, fl, n.name, '<attrs>'])
            seen = set()
            for m in n.body:
                if isinstance(m, ast.FunctionDef) and (fl, n.name, m.name) not in named and m.name not in seen:
                    seen.add(m.name)          # (a property setter re-using the name: the first definition stands for both)
                    out.append([grp, fl, n.name, m.name])
json.dump(out, open(os.path.join(HERE, 'harness', 'src_items.json'), 'w'), indent=0)
print(len(out), 'items')
