import Lean.Data.Json
import Gemato.Model.ManifestText
import Gemato.Model.OpenPGP
import Gemato.Model.Hash
import Gemato.Model.VerifyDir
import Gemato.Model.FindTop
import Gemato.Model.Profile
import Gemato.Model.Save
import Gemato.Model.Cli
import Gemato.Model.Faults
import Gemato.Model.FastGen
/-
  Line-protocol driver: one JSON request per input line, one JSON reply per
  output line. Strings travel as arrays of code points.
-/
open Lean Gemato

namespace Drv

def jStr (s : Str) : Json := Json.arr (s.toArray.map fun (n : Nat) => Json.num (JsonNumber.fromNat n))
def jNat (n : Nat) : Json := Json.num (JsonNumber.fromNat n)

def getNat (j : Json) : Except String Nat := j.getNat?
def getStr (j : Json) : Except String Str := do
  let a ← j.getArr?
  a.toList.mapM fun x => x.getNat?

def getStrs (j : Json) : Except String (List Str) := do
  let a ← j.getArr?
  a.toList.mapM getStr

def jTs (t : Ts) : Json := Json.arr #[jNat t.year, jNat t.month, jNat t.day, jNat t.hour, jNat t.minute, jNat t.second]

def jEntry : Entry → Json
  | .timestamp t => Json.arr #[Json.str "TIMESTAMP", jTs t]
  | .ignore p => Json.arr #[Json.str "IGNORE", jStr p]
  | .file t p n cks =>
    Json.arr #[Json.str (String.ofList (t.name.map Char.ofNat)), jStr p, jNat n,
      Json.arr (cks.toArray.map fun (k, v) => Json.arr #[jStr k, jStr v])]

def getFTag (s : String) : Except String FTag :=
  match s with
  | "MANIFEST" => .ok .MANIFEST | "DATA" => .ok .DATA | "DIST" => .ok .DIST
  | "EBUILD" => .ok .EBUILD | "MISC" => .ok .MISC | "AUX" => .ok .AUX
  | _ => .error s!"bad tag {s}"

def getEntry (j : Json) : Except String Entry := do
  let a ← j.getArr?
  let tag ← (a[0]!).getStr?
  if tag == "TIMESTAMP" then
    let f ← (a[1]!).getArr?
    let n (i : Nat) : Except String Nat := (f[i]!).getNat?
    pure (.timestamp ⟨← n 0, ← n 1, ← n 2, ← n 3, ← n 4, ← n 5⟩)
  else if tag == "IGNORE" then
    pure (.ignore (← getStr a[1]!))
  else
    let t ← getFTag tag
    let cksj ← (a[3]!).getArr?
    let cks ← cksj.toList.mapM fun kv => do
      let p ← kv.getArr?
      pure ((← getStr p[0]!), (← getStr p[1]!))
    pure (.file t (← getStr a[1]!) (← getNat a[2]!) cks)

def jLoadErr : LoadErr → Json
  | .syntax => Json.str "syntax"
  | .unsignedData => Json.str "unsigned"
  | .internal k => Json.str s!"internal:{repr k}"

def jLoaded (r : Except LoadErr Loaded) : Json :=
  match r with
  | .error e => Json.mkObj [("err", jLoadErr e)]
  | .ok l => Json.mkObj [("entries", Json.arr (l.entries.toArray.map jEntry)),
      ("signed", match l.signedBlock with | none => Json.null | some b => jStr b)]

def jBool (b : Bool) : Json := Json.bool b

/-- per-code-point table for a block [lo, hi): escaped?, space?, escape text -/
def opCpTable (req : Json) : Except String Json := do
  let lo ← (← req.getObjVal? "lo").getNat?
  let hi ← (← req.getObjVal? "hi").getNat?
  let cps := (List.range (hi - lo)).map (· + lo)
  let esc := cps.map fun c => if disallowed c then 1 else 0
  let sp := cps.map fun c => if isSpace c then 1 else 0
  let enc := cps.filterMap fun c => if disallowed c then some (Json.arr #[jNat c, jStr (encodePath [c]),
      match decodePath (encodePath [c]) with | .ok s => jStr s | .error _ => Json.null]) else none
  pure (Json.mkObj [("esc", jStr esc), ("sp", jStr sp), ("enc", Json.arr enc.toArray)])

def opLoadText (req : Json) : Except String Json := do
  let text ← getStr (← req.getObjVal? "text")
  let mode ← (← req.getObjVal? "mode").getStr?
  let r := if mode == "file" then loadFile text else loadText text
  pure (Json.mkObj [("model", jLoaded r)])

/-- entries → dumped text → reloaded -/
def opDump (req : Json) : Except String Json := do
  let es ← (← (← req.getObjVal? "entries").getArr?).toList.mapM getEntry
  let sort ← (← req.getObjVal? "sort").getBool?
  let text := dumpEntries sort es
  pure (Json.mkObj [("text", jStr text), ("reload", jLoaded (loadFile text))])

def opDecode (req : Json) : Except String Json := do
  let f ← getStr (← req.getObjVal? "field")
  pure (Json.mkObj [("model", match decodePath f with
    | .ok s => jStr s
    | .error .invalidEscape => Json.str "invalid"
    | .error .outOfRange => Json.str "range")])

def jFailure : PGP.Failure → String
  | .verification => "OpenPGPVerificationFailure"
  | .expiredKey => "OpenPGPExpiredKeyFailure"
  | .revokedKey => "OpenPGPRevokedKeyFailure"
  | .unknownSig => "OpenPGPUnknownSigFailure"
  | .untrustedSig => "OpenPGPUntrustedSigFailure"
  | .internal => "AssertionError"

def opVerifyStatus (req : Json) : Except String Json := do
  let exit ← (← req.getObjVal? "exit").getNat?
  let lines ← getStrs (← req.getObjVal? "lines")
  pure (Json.mkObj [("model", match PGP.verifyStatus exit lines with
    | .ok d => Json.mkObj [("ok", Json.arr #[jStr d.fingerprint, jStr d.timestamp, jStr d.expire, jStr d.primary])]
    | .error f => Json.mkObj [("err", Json.str (jFailure f))]),
    ("kinds", Json.arr (lines.toArray.map fun l => Json.str (toString (repr (PGP.classify l)))))])

def getEnv (j : Json) : Except String PGP.Env := do
  let a ← j.getArr?
  a.toList.mapM fun kv => do
    let p ← kv.getArr?
    pure ((← getStr p[0]!), (← getStr p[1]!))

def opSpawnEnv (req : Json) : Except String Json := do
  let caller ← getEnv (← req.getObjVal? "caller")
  let home ← getStr (← req.getObjVal? "home")
  let proxy ← match req.getObjVal? "proxy" with
    | .ok Json.null => pure none
    | .ok j => (getStr j).map some
    | .error _ => pure none
  let e := PGP.spawnEnv caller (PGP.isolatedOverride home proxy)
  let g (k : Str) : Json := match PGP.envGet k e with | some v => jStr v | none => Json.null
  pure (Json.mkObj [("GNUPGHOME", g PGP.sGNUPGHOME), ("TZ", g PGP.sTZ), ("http_proxy", g PGP.sHttpProxy),
    ("n", jNat e.length)])

/-- the identity "hash": the digest is the content that was fed -/
def idHash : Hash.HashAlg := { State := List Nat, init := [], update := fun s b => s ++ b, final := id }

def rle : List Nat → List (Nat × Nat)
  | [] => []
  | x :: xs => match rle xs with
    | (y, n) :: rest => if x == y then (y, n + 1) :: rest else (x, 1) :: (y, n) :: rest
    | [] => [(x, 1)]

/-- chunks arrive as lists of [byte, count] runs -/
def opHashSchedule (req : Json) : Except String Json := do
  let hint ← (← req.getObjVal? "hint").getNat?
  let slurp ← (← req.getObjVal? "slurp_max").getNat?
  let cj ← (← req.getObjVal? "chunks").getArr?
  let chunks ← cj.toList.mapM fun c => do
    let runs ← c.getArr?
    let parts ← runs.toList.mapM fun r => do
      let p ← r.getArr?
      pure (List.replicate (← (p[1]!).getNat?) (← (p[0]!).getNat?))
    pure parts.flatten
  let fed := Hash.hashFile idHash slurp hint chunks
  let size := Hash.hashFile Hash.sizeHash slurp hint chunks
  pure (Json.mkObj [("fed", Json.arr ((rle fed).toArray.map fun (b, n) => Json.arr #[jNat b, jNat n])), ("size", jNat size)])

def opResolveNames (req : Json) : Except String Json := do
  let names ← getStrs (← req.getObjVal? "names")
  let avail ← getStrs (← req.getObjVal? "available")
  pure (Json.mkObj [("model", match Hash.resolveNames (fun a => avail.contains a) names with
    | .ok r => Json.mkObj [("ok", Json.arr (r.toArray.map fun (n, a) => Json.arr #[jStr n, jStr a]))]
    | .error (.unsupported n) => Json.mkObj [("unsupported", jStr n)])])

-- L1 -----------------------------------------------------------------------------------
open L1 in
partial def getNode (j : Json) : Except String L1.Node := do
  let a ← j.getArr?
  let k ← (a[0]!).getStr?
  match k with
  | "x" => pure .dangling
  | "u" => pure (.unreadable (← (a[1]!).getNat?) (← (a[2]!).getBool?))
  | "s" => pure (.special (← (a[1]!).getNat?))
  | "d" =>
    let kids ← (← (a[3]!).getArr?).toList.mapM fun kv => do
      let p ← kv.getArr?
      pure ((← getStr p[0]!), (← getNode p[1]!))
    pure (.dir (← (a[1]!).getNat?) (← (a[2]!).getNat?) kids)
  | "f" =>
    let o := a[1]!
    let dig ← (← (← o.getObjVal? "dig").getArr?).toList.mapM fun kv => do
      let p ← kv.getArr?
      pure ((← getStr p[0]!), (← getStr p[1]!))
    let m ← match o.getObjVal? "m" with
      | .ok Json.null => pure none
      | .ok mj => do
        let ma ← mj.getArr?
        let mk ← (ma[0]!).getStr?
        if mk == "c" then pure (some MContent.corrupt)
        else if mk == "b" then pure (some (MContent.broken (← getStr ma[1]!)))
        else pure (some (MContent.text (← getStr ma[1]!)))
      | .error _ => pure none
    pure (.file { dev := ← (← o.getObjVal? "dev").getNat?, stSize := ← (← o.getObjVal? "stsize").getNat?,
                  size := ← (← o.getObjVal? "size").getNat?, mtime := ← (← o.getObjVal? "mtime").getInt?,
                  digests := dig, manifest := m })
  | _ => .error s!"bad node kind {k}"

def jErr : L1.Err → Json
  | .mismatch p => Json.mkObj [("err", "mismatch"), ("path", jStr p)]
  | .incompatible => Json.mkObj [("err", "incompatible")]
  | .crossDevice _ => Json.mkObj [("err", "crossdev")]
  | .symlinkLoop _ => Json.mkObj [("err", "symlinkloop")]
  | .invalidPath _ => Json.mkObj [("err", "invalidpath")]
  | .syntax => Json.mkObj [("err", "syntax")]
  | .unsigned => Json.mkObj [("err", "unsigned")]
  | .unsupportedHash => Json.mkObj [("err", "unsupportedhash")]
  | .signing => Json.mkObj [("err", "gemato:OpenPGPSigningFailure")]
  | .os (.code 2) => Json.mkObj [("err", "os:Gemato.L1.Errno.ENOENT")]
  | .os (.code 20) => Json.mkObj [("err", "os:Gemato.L1.Errno.ENOTDIR")]
  | .os (.code 21) => Json.mkObj [("err", "os:Gemato.L1.Errno.EISDIR")]
  | .os (.code k) => Json.mkObj [("err", Json.str s!"os:code:{k}")]
  | .os e => Json.mkObj [("err", Json.str s!"os:{repr e}")]
  | .internal k => Json.mkObj [("err", Json.str (match k with
      | .index => "internal:IndexError" | .assertion => "internal:AssertionError" | .attribute => "internal:AttributeError"
      | .key => "internal:KeyError" | .valueError => "internal:ValueError" | .overflowError => "internal:OverflowError"
      | .type => "internal:TypeError" | .other => "internal:NotImplementedError"))]
  | .abstain => Json.mkObj [("err", "abstain")]

def jExit : Cli.Exit → Json
  | .status n => Json.mkObj [("status", jNat n)]
  | .oserror (.code 2) => Json.mkObj [("oserror", "ENOENT")]
  | .oserror (.code 20) => Json.mkObj [("oserror", "ENOTDIR")]
  | .oserror (.code 21) => Json.mkObj [("oserror", "EISDIR")]
  | .oserror (.code k) => Json.mkObj [("oserror", Json.str s!"code:{k}")]
  | .oserror .ENOENT => Json.mkObj [("oserror", "ENOENT")]
  | .oserror .ENOTDIR => Json.mkObj [("oserror", "ENOTDIR")]
  | .oserror .EISDIR => Json.mkObj [("oserror", "EISDIR")]
  | .oserror .other => Json.mkObj [("oserror", "other")]
  | .traceback k => Json.mkObj [("traceback", Json.str (match k with
      | .index => "IndexError" | .assertion => "AssertionError" | .attribute => "AttributeError"
      | .key => "KeyError" | .valueError => "ValueError" | .overflowError => "OverflowError"
      | .type => "TypeError" | .other => "NotImplementedError"))]
  | .abstain => Json.mkObj [("abstain", Json.bool true)]

def getHandler (req : Json) : Except String L1.Handler := do
  match req.getObjVal? "handler" with
  | .error _ => pure .raise
  | .ok Json.null => pure .raise
  | .ok h =>
    -- {"default": bool, "false_for": [paths]} : returns false for the listed paths (or for all but the listed)
    let dflt ← (← h.getObjVal? "default").getBool?
    let exc ← getStrs (← h.getObjVal? "except")
    pure (.policy fun p => if exc.contains p then !dflt else dflt)

def getOptInt (req : Json) (k : String) : Except String (Option Int) :=
  match req.getObjVal? k with
  | .error _ => pure none
  | .ok Json.null => pure none
  | .ok j => (j.getInt?).map some

/-- `find_timestamp()` called first on the same loader (what `gemato verify` does): loads the chain for '' -/
def preTs (req : Json) (w : L1.World) (l : L1.Loader) : Except L1.Err L1.Loader :=
  match req.getObjVal? "pre_find_timestamp" with
  | .ok (Json.bool true) =>
    match L1.loadManifestsForPath w [] false true L1.defaultFuel l.loaded with
    | .error e => .error e
    | .ok lm => .ok { l with loaded := lm }
  | _ => .ok l

/-- verify_dir: {world, top, path, xdev, handler, last_mtime} -/
def opVerifyDir (req : Json) : Except String Json := do
  let root ← getNode (← req.getObjVal? "world")
  let w : L1.World := ⟨root⟩
  let top ← getStr (← req.getObjVal? "top")
  let path ← getStr (← req.getObjVal? "path")
  let xdev ← (match req.getObjVal? "xdev" with | .ok j => j.getBool? | .error _ => pure true)
  let h ← getHandler req
  let lm ← getOptInt req "last_mtime"
  let r := do
    let l ← L1.openLoader w top xdev
    let l ← preTs req w l
    l.assertDirectoryVerifies w path h lm
  pure (Json.mkObj [("model", match r with
    | .error e => jErr e
    | .ok (_, v) => Json.mkObj [("ret", Json.bool v.ret), ("calls", Json.arr (v.calls.toArray.map jStr))])])

/-- verify_main: {world, top, path, keep_going, xdev}: how `gemato verify` ends -/
def opVerifyMain (req : Json) : Except String Json := do
  let root ← getNode (← req.getObjVal? "world")
  let w : L1.World := ⟨root⟩
  let top ← getStr (← req.getObjVal? "top")
  let path ← getStr (← req.getObjVal? "path")
  let xdev ← (match req.getObjVal? "xdev" with | .ok j => j.getBool? | .error _ => pure true)
  let kg ← (← req.getObjVal? "keep_going").getBool?
  pure (Json.mkObj [("model", jExit (Cli.verifyMain w top path kg xdev)),
    ("detail", match Cli.verifyCommand w top path kg xdev with | .error e => jErr e | .ok b => Json.mkObj [("ret", Json.bool b)])])

/-- lookup: {world, top, api, path, filename} for verify_path / assert_path_verifies / find_path_entry / find_dist_entry -/
def opLookup (req : Json) : Except String Json := do
  let root ← getNode (← req.getObjVal? "world")
  let w : L1.World := ⟨root⟩
  let top ← getStr (← req.getObjVal? "top")
  let path ← getStr (← req.getObjVal? "path")
  let api ← (← req.getObjVal? "api").getStr?
  let jOptEntry (e : Option Entry) : Json := match e with | none => Json.null | some e => jEntry e
  let r : Except L1.Err Json := do
    let l ← L1.openLoader w top
    let l ← preTs req w l
    match api with
    | "find_path_entry" => let (_, e) ← l.findPathEntry w path; pure (Json.mkObj [("entry", jOptEntry e)])
    | "verify_path" => let (_, b) ← l.verifyPath w path; pure (Json.mkObj [("ret", Json.bool b)])
    | "assert_path_verifies" => let _ ← l.assertPathVerifies w path; pure (Json.mkObj [("ret", Json.bool true)])
    | "find_dist_entry" =>
      let fnj ← (match req.getObjVal? "filename" with | .ok j => (match getStr j with | .ok s => pure s | .error _ => throw L1.Err.abstain) | .error _ => throw L1.Err.abstain)
      let (_, e) ← l.findDistEntry w fnj path
      pure (Json.mkObj [("entry", jOptEntry e)])
    | _ => throw .abstain
  pure (Json.mkObj [("model", match r with | .error e => jErr e | .ok j => j)])

/-- find_top: {allow_xdev, levels:[{dev, root, rel, cands:[[name, kind, fdev, text]]}]} -/
def opFindTop (req : Json) : Except String Json := do
  let xdev ← (← req.getObjVal? "allow_xdev").getBool?
  let lv ← (← (← req.getObjVal? "levels").getArr?).toList.mapM fun l => do
    let cands ← (← (← l.getObjVal? "cands").getArr?).toList.mapM fun c => do
      let a ← c.getArr?
      let nm ← getStr a[0]!
      let kind ← (a[1]!).getStr?
      let cand : FT.Cand ← match kind with
        | "absent" => pure FT.Cand.absent
        | "text" =>
          let fdev ← (a[2]!).getNat?
          let t ← getStr a[3]!
          pure (match loadFile t with
            | .ok l => FT.Cand.present fdev l.entries
            | .error .syntax => FT.Cand.broken .syntax
            | .error .unsignedData => FT.Cand.broken .unsigned
            | .error (.internal k) => FT.Cand.broken (.internal k))
        | "corrupt" => pure (FT.Cand.broken .syntax)
        | "isdir" => pure (FT.Cand.broken (.os .EISDIR))
        -- a special file (named pipe, socket, device) is passed over like a missing one (repair of finding F31:
        -- opening a named pipe blocked for good)
        | "special" => pure FT.Cand.absent
        | _ => throw s!"bad cand kind {kind}"
      pure (nm, cand)
    pure ({ dev := ← (← l.getObjVal? "dev").getNat?, isRoot := ← (← l.getObjVal? "root").getBool?,
            rel := ← getStr (← l.getObjVal? "rel"), cands := cands } : FT.Level)
  pure (Json.mkObj [("model", match FT.findTop xdev lv with
    | .error e => jErr e
    | .ok none => Json.mkObj [("found", Json.null)]
    | .ok (some (i, nm)) => Json.mkObj [("found", Json.arr #[jNat i, jStr nm])]),
    ("spec", match lv with
      | [] => Json.null
      | l0 :: _ => match C15spec xdev l0.dev 0 lv with
        | none => Json.null
        | some (i, nm) => Json.arr #[jNat i, jStr nm])])

def getProfile (s : String) : Except String Prof.Profile :=
  match s with
  | "default" => .ok .default | "ebuild" => .ok .ebuild | "old-ebuild" => .ok .oldEbuild
  | _ => .error s!"bad profile {s}"

def ftagName (t : FTag) : Json := Json.str (String.ofList (t.name.map Char.ofNat))

/-- profile_fn: {profile, fn, ...} -/
def opProfileFn (req : Json) : Except String Json := do
  let p ← getProfile (← (← req.getObjVal? "profile").getStr?)
  let fn ← (← req.getObjVal? "fn").getStr?
  match fn with
  | "want_manifest" =>
    let items ← (← req.getObjVal? "items").getArr?
    let rs ← items.toList.mapM fun it => do
      let a ← it.getArr?
      pure (Json.bool (Prof.wantManifest p (← getStr a[0]!) (← getStrs a[1]!) (← getStrs a[2]!)))
    pure (Json.mkObj [("model", Json.arr rs.toArray)])
  | "entry_type" =>
    let ps ← getStrs (← req.getObjVal? "items")
    pure (Json.mkObj [("model", Json.arr (ps.toArray.map fun q => ftagName (Prof.entryType p q)))])
  | "ignore_paths" =>
    let ps ← getStrs (← req.getObjVal? "items")
    pure (Json.mkObj [("model", Json.arr (ps.toArray.map fun q => Json.arr ((Prof.ignorePaths p q).toArray.map jStr)))])
  | "want_compressed" =>
    let items ← (← req.getObjVal? "items").getArr?
    let rs ← items.toList.mapM fun it => do
      let a ← it.getArr?
      pure (Json.bool (Prof.wantCompressed p (← getStr a[0]!) (← (a[1]!).getBool?) (← (a[2]!).getNat?) (← (a[3]!).getNat?)))
    pure (Json.mkObj [("model", Json.arr rs.toArray)])
  | "loader_options" =>
    let o := Prof.loaderOptions p ⟨none, none, none, none⟩
    pure (Json.mkObj [("model", Json.arr #[
      match o.hashes with | some h => Json.arr (h.toArray.map jStr) | none => Json.null,
      match o.sort with | some b => Json.bool b | none => Json.null,
      match o.watermark with | some n => jNat n | none => Json.null,
      match o.format with | some f => jStr f | none => Json.null])])
  | _ => .error s!"bad fn {fn}"

open L1 in
def getFileMeta (o : Json) : Except String L1.FileMeta := do
  let dig ← (← (← o.getObjVal? "dig").getArr?).toList.mapM fun kv => do
    let p ← kv.getArr?
    pure ((← getStr p[0]!), (← getStr p[1]!))
  pure { dev := ← (← o.getObjVal? "dev").getNat?, stSize := ← (← o.getObjVal? "stsize").getNat?,
         size := ← (← o.getObjVal? "size").getNat?, mtime := ← (← o.getObjVal? "mtime").getInt?,
         digests := dig, manifest := none }

def jWrite : U.Write → Json
  | .file p t sg => Json.arr #[Json.str "w", jStr p, jStr t, Json.bool sg]
  | .unlink p => Json.arr #[Json.str "u", jStr p]

/-- update: {world, top, path, create, xdev, hashes, profile, last_mtime, save:{force, sort, watermark, format}, post:[[path, meta]]} -/
structure UReq where
  w : L1.World
  post : Str → Option L1.FileMeta
  top : Str
  path : Str
  create : Bool
  xdev : Bool
  prof : Prof.Profile
  o : U.Opts
  setTs : Option (Ts × Bool)
  so : U.SaveOpts
  doSave : Bool
  sign : Cli.SignCfg

def getUReq (req : Json) : Except String UReq := do
  let root ← getNode (← req.getObjVal? "world")
  let w : L1.World := ⟨root⟩
  let top ← getStr (← req.getObjVal? "top")
  let path ← getStr (← req.getObjVal? "path")
  let create ← (← req.getObjVal? "create").getBool?
  let xdev ← (match req.getObjVal? "xdev" with | .ok j => j.getBool? | .error _ => pure true)
  let hashes ← getStrs (← req.getObjVal? "hashes")
  let prof ← getProfile (← (← req.getObjVal? "profile").getStr?)
  let lm ← getOptInt req "last_mtime"
  let sv ← req.getObjVal? "save"
  let wm ← (match sv.getObjVal? "watermark" with | .ok Json.null => pure none | .ok j => (j.getNat?).map some | .error _ => pure none)
  let so : U.SaveOpts := { hashes := hashes, force := ← (← sv.getObjVal? "force").getBool?, sort := ← (← sv.getObjVal? "sort").getBool?,
                           watermark := wm, format := ← getStr (← sv.getObjVal? "format"), profile := prof,
                           signedSize := ← (match sv.getObjVal? "signed_size" with | .ok Json.null => pure none | .ok j => (j.getNat?).map some | .error _ => pure none) }
  let postL ← (← (← req.getObjVal? "post").getArr?).toList.mapM fun kv => do
    let a ← kv.getArr?
    pure ((← getStr a[0]!), (← getFileMeta a[1]!))
  let post : Str → Option L1.FileMeta := fun p => (postL.find? (·.1 == p)).map (·.2)
  let doSave ← (match req.getObjVal? "do_save" with | .ok j => j.getBool? | .error _ => pure true)
  let setTs : Option (Ts × Bool) ← (match req.getObjVal? "set_ts" with
    | .ok Json.null => pure none
    | .ok j => do
      let a ← j.getArr?
      let f ← (a[0]!).getArr?
      let n (i : Nat) : Except String Nat := (f[i]!).getNat?
      pure (some (⟨← n 0, ← n 1, ← n 2, ← n 3, ← n 4, ← n 5⟩, ← (a[1]!).getBool?))
    | .error _ => pure none)
  let sign : Cli.SignCfg ← (match req.getObjVal? "sign" with
    | .ok Json.null => pure {}
    | .ok j => do
      let opt ← (match j.getObjVal? "opt" with | .ok Json.null => pure none | .ok b => (b.getBool?).map some | .error _ => pure none)
      pure { opt := opt, topSigned := ← (← j.getObjVal? "top_signed").getBool?, keyUsable := ← (← j.getObjVal? "key_usable").getBool? }
    | .error _ => pure {})
  pure { w := w, post := post, top := top, path := path, create := create, xdev := xdev, prof := prof,
         o := { hashes := hashes, profile := prof, lastMtime := lm }, setTs := setTs, so := so, doSave := doSave, sign := sign }

def jUpdateResult (r : Except L1.Err (U.St × List U.Write)) : Json :=
  Json.mkObj [("exit", jExit (Cli.mainExit r fun _ => 0)), ("model", match r with
    | .error e => jErr e
    | .ok (s, ws) => Json.mkObj [
        ("writes", Json.arr (ws.toArray.map jWrite)),
        ("top", jStr s.top),
        ("updated", Json.arr (s.updated.toArray.map jStr)),
        ("loaded", Json.arr (s.loaded.toArray.map fun (k, _) => Json.arr #[jStr k, Json.arr ((s.entriesOf k).toArray.map fun ie => jEntry ie.2)]))])]

def opUpdate (req : Json) : Except String Json := do
  let u ← getUReq req
  pure (jUpdateResult (Cli.updateCommand u.w u.post u.top u.path u.create u.prof u.xdev u.o u.setTs u.so u.doSave u.sign))

/-- update_path: an update request plus {new_type, entry_hashes|null}: open the loader,
    `update_entry_for_path(path, new_type, hashes)`, then `save_manifests` -/
def opUpdatePath (req : Json) : Except String Json := do
  let u ← getUReq req
  let nt ← (← req.getObjVal? "new_type").getStr?
  let t : FTag ← (match nt with
    | "DATA" => pure .DATA | "MISC" => pure .MISC | "EBUILD" => pure .EBUILD | "AUX" => pure .AUX
    | "MANIFEST" => pure .MANIFEST | "DIST" => pure .DIST | _ => .error "new_type")
  let hs ← (match req.getObjVal? "entry_hashes" with
    | .ok Json.null => pure none
    | .ok j => (getStrs j).map some
    | .error _ => pure none)
  let r : Except L1.Err (U.St × List U.Write) :=
    match U.openForUpdate u.w u.top u.create u.prof u.xdev with
    | .error e => .error e
    | .ok s0 =>
      match U.updateEntryForPath u.w s0 u.path t hs with
      | .error e => .error e
      | .ok s1 => if u.doSave then U.saveAll u.w u.post s1 u.so else .ok (s1, [])
  pure (jUpdateResult r)

/-- session: {rounds: [update request ...]}: ONE loader object through several rounds of
    `update_entries_for_directory(path)` + `save_manifests(...)`; every round brings the world as it is on disk
    when the round starts (the edits made meanwhile included). The first round opens the loader. -/
def opSession (req : Json) : Except String Json := do
  let rounds ← (← (← req.getObjVal? "rounds").getArr?).toList.mapM getUReq
  let rec go (st : Option U.St) (rs : List UReq) (acc : Array Json) : Array Json :=
    match rs with
    | [] => acc
    | u :: rest =>
      let r : Except L1.Err (U.St × List U.Write) :=
        match st with
        | none => Cli.updateCommand u.w u.post u.top u.path u.create u.prof u.xdev u.o u.setTs u.so u.doSave u.sign
        | some s =>
          match U.updateDir u.w s u.path u.o with
          | .error e => .error e
          | .ok s1 => if u.doSave then U.saveAll u.w u.post (Cli.applyTimestamp s1 u.setTs) u.so else .ok (Cli.applyTimestamp s1 u.setTs, [])
      match r with
      | .error _ => acc.push (jUpdateResult r)          -- the session ends with the first error
      | .ok (s', _) => go (some s') rest (acc.push (jUpdateResult r))
  pure (Json.mkObj [("rounds", Json.arr (go none rounds #[]))])

-- call-level model (C06) -------------------------------------------------------------------
def getOutcome {α : Type} (j : Json) (f : Json → Except String α) : Except String (Except Nat α) :=
  match j.getObjVal? "err" with
  | .ok e => do pure (.error (← e.getNat?))
  | .error _ => do pure (.ok (← f (← j.getObjVal? "ok")))

def getSt (j : Json) : Except String Faults.St := do
  let a ← j.getArr?
  pure { kind := if (← (a[0]!).getStr?) == "r" then .reg else .nonreg, dev := ← (a[1]!).getNat?,
         size := ← (a[2]!).getNat?, mtime := ← (a[3]!).getInt? }

def getCalls (j : Json) : Except String Faults.Calls := do
  let rd (x : Json) : Except String (Nat × List (Str × Str)) := do
    let a ← x.getArr?
    let dig ← (← (a[1]!).getArr?).toList.mapM fun kv => do
      let p ← kv.getArr?
      pure ((← getStr p[0]!), (← getStr p[1]!))
    pure ((← (a[0]!).getNat?), dig)
  pure { open_ := ← getOutcome (← j.getObjVal? "open") (fun _ => pure ()),
         fstat := ← getOutcome (← j.getObjVal? "fstat") getSt,
         stat := ← getOutcome (← j.getObjVal? "stat") getSt,
         fdopen := ← getOutcome (← j.getObjVal? "fdopen") (fun _ => pure ()),
         read := ← getOutcome (← j.getObjVal? "read") rd,
         badHash := ← (← j.getObjVal? "bad_hash").getBool? }

def jCall : Faults.Call → Json
  | .open_ => "open" | .fstat => "fstat" | .stat => "stat" | .fdopen => "fdopen" | .read => "read" | .close => "close"

/-- verify_calls: {calls, entry|null, dev|null, last_mtime|null, update: bool} -/
def opVerifyCalls (req : Json) : Except String Json := do
  let c ← getCalls (← req.getObjVal? "calls")
  let e ← (match req.getObjVal? "entry" with
    | .ok Json.null => pure none
    | .ok j => (getEntry j).map some
    | .error _ => pure none)
  let dev ← (match req.getObjVal? "dev" with | .ok Json.null => pure none | .ok j => (j.getNat?).map some | .error _ => pure none)
  let lm ← getOptInt req "last_mtime"
  let upd ← (← req.getObjVal? "update").getBool?
  if upd then
    match e with
    | none => .error "update needs an entry"
    | some e =>
      let (r, tr) := Faults.updateEntryC c e dev lm
      pure (Json.mkObj [("trace", Json.arr (tr.toArray.map jCall)), ("model", match r with
        | .error err => jErr err
        | .ok none => Json.mkObj [("changed", Json.bool false)]
        | .ok (some (n, cks)) => Json.mkObj [("changed", Json.bool true), ("size", jNat n),
            ("cks", Json.arr (cks.toArray.map fun (a, b) => Json.arr #[jStr a, jStr b]))])])
  else
    let (r, tr) := Faults.verifyPathC c e dev lm
    pure (Json.mkObj [("trace", Json.arr (tr.toArray.map jCall)), ("model", match r with
      | .error err => jErr err
      | .ok b => Json.mkObj [("ret", Json.bool b)])])

-- fast generator scripts (C20) ------------------------------------------------------------------
def jItem (it : FG.Item) : Json := Json.arr #[ftagName it.tag, jStr it.path, jStr it.file]

/-- fastgen: {dir: node (the directory to generate, as it is now), old: text|null} -/
def opFastgen (req : Json) : Except String Json := do
  let n ← getNode (← req.getObjVal? "dir")
  let old ← (match req.getObjVal? "old" with | .ok Json.null => pure none | .ok j => (getStr j).map some | .error _ => pure none)
  match n with
  | .dir _ _ kids =>
    pure (Json.mkObj [("items", Json.arr ((FG.genItems kids).toArray.map jItem)),
      ("compat", Json.bool (FG.compatMode kids)),
      ("model", match FG.genManifest kids old with
        | none => Json.mkObj [("err", "abstain")]
        | some o => Json.mkObj [("name", jStr o.name), ("text", jStr o.text), ("unlink_plain", Json.bool o.unlinkPlain)])])
  | _ => .error "fastgen: not a directory"

/-- fg_order: {cats: [..], pkgs: [[cat, [pkg..]]..], cache_exists: [cat..], cat_exists: [cat..]} -/
def opFgOrder (req : Json) : Except String Json := do
  let cats ← getStrs (← req.getObjVal? "cats")
  let pk ← (← (← req.getObjVal? "pkgs").getArr?).toList.mapM fun kv => do
    let a ← kv.getArr?
    pure ((← getStr a[0]!), (← getStrs a[1]!))
  let ce ← getStrs (← req.getObjVal? "cache_exists")
  let xe ← getStrs (← req.getObjVal? "cat_exists")
  let pkgs : Str → List Str := fun c => ((pk.find? (·.1 == c)).map (·.2)).getD []
  pure (Json.mkObj [("model", Json.arr ((FG.metaOrder cats pkgs (fun c => ce.contains c) (fun c => xe.contains c)).toArray.map jStr))])

/-- fg_split: {generated, size, b2, s5, ts} -/
def opFgSplit (req : Json) : Except String Json := do
  let g ← getStr (← req.getObjVal? "generated")
  let size ← (← req.getObjVal? "size").getNat?
  let b2 ← getStr (← req.getObjVal? "b2")
  let s5 ← getStr (← req.getObjVal? "s5")
  let ts ← getStr (← req.getObjVal? "ts")
  pure (Json.mkObj [("model", match FG.makeToplevel g size b2 s5 ts with
    | none => Json.null
    | some sp => Json.mkObj [("files_name", jStr sp.filesName), ("top_text", jStr sp.topText)])])

def dispatch (req : Json) : Except String Json := do
  let op ← (← req.getObjVal? "op").getStr?
  match op with
  | "cp_table" => opCpTable req
  | "load_text" => opLoadText req
  | "dump" => opDump req
  | "decode" => opDecode req
  | "verify_status" => opVerifyStatus req
  | "spawn_env" => opSpawnEnv req
  | "hash_schedule" => opHashSchedule req
  | "resolve_names" => opResolveNames req
  | "verify_dir" => opVerifyDir req
  | "lookup" => opLookup req
  | "verify_main" => opVerifyMain req
  | "find_top" => opFindTop req
  | "profile_fn" => opProfileFn req
  | "update" => opUpdate req
  | "session" => opSession req
  | "update_path" => opUpdatePath req
  | "verify_calls" => opVerifyCalls req
  | "fastgen" => opFastgen req
  | "fg_order" => opFgOrder req
  | "fg_split" => opFgSplit req
  | _ => .error s!"unknown op {op}"

end Drv

partial def loop (hin : IO.FS.Stream) (hout : IO.FS.Stream) : IO Unit := do
  let line ← hin.getLine
  if line.isEmpty then return ()
  let reply : Json :=
    match Json.parse line with
    | .error e => Json.mkObj [("error", Json.str s!"parse: {e}")]
    | .ok req =>
      match Drv.dispatch req with
      | .ok j => j
      | .error e => Json.mkObj [("error", Json.str e)]
  hout.putStrLn reply.compress
  hout.flush
  loop hin hout

def main : IO Unit := do
  loop (← IO.getStdin) (← IO.getStdout)
