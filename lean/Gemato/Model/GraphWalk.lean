import Gemato.Model.Basic
/-
  The ancestor bookkeeping shared by the three tree walkers
  (gemato/recursiveloader.py:638-685, 1012-1056, 1133-1192) on a directory
  *graph*: directories are identified by (device, inode), named edges include
  directory symlinks, so cycles exist.
-/
namespace Gemato.Gr

structure G where
  /-- number of distinct directories (identities are `0 … n-1`) -/
  n : Nat
  /-- the sub-directories (real ones and symlinks to directories) a walker descends into,
      i.e. after hidden names and names with an entry (IGNORE …) have been pruned -/
  kids : Nat → List (Str × Nat)
  closed : ∀ v, ∀ p ∈ kids v, p.2 < n
  dev : Nat → Nat

inductive Err
  | loop (path : List Str)
  | crossDevice (path : List Str)
deriving Repr, DecidableEq

/-- the identities recorded for the chain of directories above the current one:
    duplicate-free, because a repeated identity raises -/
structure Anc (g : G) where
  ids : List Nat
  nodup : ids.Nodup
  bound : ∀ a ∈ ids, a < g.n

theorem Anc.length_le {g : G} (a : Anc g) : a.ids.length ≤ g.n := by
  have : a.ids ⊆ List.range g.n := fun x hx => List.mem_range.mpr (a.bound x hx)
  simpa using a.nodup.length_le_of_subset this

def Anc.push {g : G} (a : Anc g) (v : Nat) (hv : v < g.n) (hn : v ∉ a.ids) : Anc g :=
  ⟨a.ids ++ [v], by
      rw [List.nodup_append]
      refine ⟨a.nodup, by simp, ?_⟩
      intro x hx y hy; simp at hy; subst hy; intro e; subst e; exact hn hx,
    by intro x hx; simp at hx; rcases hx with hx | hx; exact a.bound x hx; subst hx; exact hv⟩

def Anc.empty (g : G) : Anc g := ⟨[], by simp, by simp⟩

mutual
/-- visit directory `v` reached under path `p`; `xdev` = the device the walk must
    stay on in one-file-system mode; returns all visited (path, identity) pairs -/
def walk (g : G) (xdev : Option Nat) (a : Anc g) (v : Nat) (hv : v < g.n) (p : List Str) :
    Except Err (List (List Str × Nat)) :=
  if (match xdev with | some d => g.dev v != d | none => false) then .error (.crossDevice p)
  else if hm : v ∈ a.ids then .error (.loop p)
  else
    match walkKids g xdev (a.push v hv hm) (g.kids v) (fun q hq => g.closed v q hq) p with
    | .error e => .error e
    | .ok sub => .ok ((p, v) :: sub)
termination_by (g.n + 1 - a.ids.length, 0)
decreasing_by
  all_goals simp_wf
  have := (a.push v hv hm).length_le
  simp [Anc.push] at this ⊢
  left; omega
def walkKids (g : G) (xdev : Option Nat) (a : Anc g) (ks : List (Str × Nat)) (hk : ∀ q ∈ ks, q.2 < g.n)
    (p : List Str) : Except Err (List (List Str × Nat)) :=
  match ks, hk with
  | [], _ => .ok []
  | (nm, c) :: rest, hk =>
    match walk g xdev a c (hk (nm, c) (by simp)) (p ++ [nm]) with
    | .error e => .error e
    | .ok r1 =>
      match walkKids g xdev a rest (fun q hq => hk q (by simp [hq])) p with
      | .error e => .error e
      | .ok r2 => .ok (r1 ++ r2)
termination_by (g.n + 1 - a.ids.length, ks.length + 1)
decreasing_by
  all_goals simp_wf
  · right; omega
  · right; omega
end

/-- a whole walk from the top directory `v0` -/
def walkTop (g : G) (xdev : Option Nat) (v0 : Nat) (hv : v0 < g.n) : Except Err (List (List Str × Nat)) :=
  walk g xdev (Anc.empty g) v0 hv []

end Gemato.Gr
