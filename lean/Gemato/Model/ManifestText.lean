import Gemato.Model.Entry
/-
  `ManifestFile.load` / `ManifestFile.dump`, gemato/manifest.py:323-480.
  A text is first cut into lines the way a Python text file iterates them
  (each line keeps its terminating "\n"; universal newlines translate "\r"
  and "\r\n"), then a state machine runs over the lines.
-/
namespace Gemato

/-- universal-newline translation of `open(..., 'r')` (newline=None) -/
def univNewlines : Str → Str
  | [] => []
  | 13 :: 10 :: rest => 10 :: univNewlines rest
  | 13 :: rest => 10 :: univNewlines rest
  | c :: rest => c :: univNewlines rest

/-- `for line in f`: cut after every "\n"; a last line without "\n" is kept -/
def splitLinesGo : Str → Str → List Str
  | cur, [] => if cur.isEmpty then [] else [cur]
  | cur, c :: cs => if c == 10 then (cur ++ [10]) :: splitLinesGo [] cs else splitLinesGo (cur ++ [c]) cs

def splitLines (t : Str) : List Str := splitLinesGo [] t

-- the three armor lines compared with `==` in `load` (with their "\n")
def dashes5 : Str := [45, 45, 45, 45, 45]
def lnBeginMsg : Str :=
  dashes5 ++ [66, 69, 71, 73, 78, 32, 80, 71, 80, 32, 83, 73, 71, 78, 69, 68, 32, 77, 69, 83, 83, 65, 71, 69] ++ dashes5 ++ [10]
def lnBeginSig : Str :=
  dashes5 ++ [66, 69, 71, 73, 78, 32, 80, 71, 80, 32, 83, 73, 71, 78, 65, 84, 85, 82, 69] ++ dashes5 ++ [10]
def lnEndSig : Str :=
  dashes5 ++ [69, 78, 68, 32, 80, 71, 80, 32, 83, 73, 71, 78, 65, 84, 85, 82, 69] ++ dashes5 ++ [10]

/-- the armor header key of messages whose cleartext is not dash-escaped -/
def sNotDashEscaped : Str := [78, 111, 116, 68, 97, 115, 104, 69, 115, 99, 97, 112, 101, 100, 58]

/-- `line.startswith('-----') and line.rstrip().endswith('-----')` -/
def armorLike (line : Str) : Bool := startsWith line dashes5 && endsWith (rstrip line) dashes5

/-- `line.startswith('- ')` then `line[2:]` -/
def dashUnescape (line : Str) : Str :=
  match line with
  | 45 :: 32 :: rest => rest
  | _ => line

/-- `line.strip()` is falsy -/
def isBlank (line : Str) : Bool := line.all isSpace

inductive MState | data | preamble | signed | signature | post
deriving DecidableEq, Repr

structure LoadSt where
  st : MState := .data
  entries : List Entry := []      -- in file order
  pgpData : Str := []             -- `openpgp_data`
deriving Repr

/-- the part of the loop body after the per-state prologue: armor check,
    skipping, splitting, tag dispatch (manifest.py:410-429) -/
def loadCommon (s : LoadSt) (line : Str) : Except LoadErr LoadSt :=
  if armorLike line then .error .syntax
  else match s.st with
    | .preamble => .ok s
    | .signature => .ok s
    | .post => if (splitWs line).isEmpty then .ok s else .error .unsignedData
    | _ =>
      if (splitWs line).isEmpty then .ok s
      else match entryFromList (splitWs line) with
        | .ok e => .ok { s with entries := s.entries ++ [e] }
        | .error err => .error err

/-- one iteration of `for line in f` -/
def loadStep (s : LoadSt) (line : Str) : Except LoadErr LoadSt :=
  match s.st with
  | .data =>
    if line = lnBeginMsg then
      if !s.entries.isEmpty then .error .unsignedData
      else .ok { s with st := .preamble, pgpData := s.pgpData ++ line }
    else loadCommon s line
  | .preamble =>
    let s := { s with pgpData := s.pgpData ++ line }
    if !isBlank line then
      -- header lines are skipped; a NotDashEscaped message is refused, because
      -- the loader always undoes dash-escaping (repair of finding F11)
      (if startsWith line sNotDashEscaped then .error .syntax else .ok s)
    else loadCommon { s with st := .signed } line
  | .signed =>
    let s := { s with pgpData := s.pgpData ++ line }
    if line = lnBeginSig then .ok { s with st := .signature }
    else loadCommon s (dashUnescape line)
  | .signature =>
    let s := { s with pgpData := s.pgpData ++ line }
    if line = lnEndSig then .ok { s with st := .post }
    else loadCommon s line
  | .post => loadCommon s line

def loadLines : LoadSt → List Str → Except LoadErr LoadSt
  | s, [] => .ok s
  | s, l :: ls => match loadStep s l with
    | .ok s' => loadLines s' ls
    | .error e => .error e

structure Loaded where
  entries : List Entry
  /-- `some text` iff the file carried a complete cleartext signature; the
      text is what is handed to `openpgp_env.verify_file` -/
  signedBlock : Option Str
deriving Repr, DecidableEq

/-- `ManifestFile.load` up to (not including) the call of the OpenPGP back end -/
def loadFromLines (ls : List Str) : Except LoadErr Loaded :=
  match loadLines {} ls with
  | .error e => .error e
  | .ok s =>
    match s.st with
    | .preamble | .signed | .signature => .error .syntax
    | .post => .ok ⟨s.entries, some s.pgpData⟩
    | .data => .ok ⟨s.entries, none⟩

/-- load from a text held in an `io.StringIO` (no newline translation) -/
def loadText (t : Str) : Except LoadErr Loaded := loadFromLines (splitLines t)

/-- load from a text file opened in text mode (universal newlines) -/
def loadFile (t : Str) : Except LoadErr Loaded := loadFromLines (splitLines (univNewlines t))

-- sorting ----------------------------------------------------------------
def tsLt (a b : Ts) : Bool :=
  let ka := [a.year, a.month, a.day, a.hour, a.minute, a.second]
  let kb := [b.year, b.month, b.day, b.hour, b.minute, b.second]
  strLt ka kb

/-- `__lt__` of the entry classes: tag first, then path (timestamps: ts) -/
def entryLt (a b : Entry) : Bool :=
  strLt a.tagName b.tagName ||
  (a.tagName == b.tagName &&
    match a, b with
    | .timestamp x, .timestamp y => tsLt x y
    | _, _ => strLt a.fullPath b.fullPath)

/-- insertion in front of the first element that is not smaller (so an element
    inserted later — i.e. standing earlier in the input — precedes its equals) -/
def insertSorted (lt : α → α → Bool) (x : α) : List α → List α
  | [] => [x]
  | y :: ys => if lt y x then y :: insertSorted lt x ys else x :: y :: ys

/-- a stable sort using only `<` (= what Python's `sorted` computes) -/
def stableSort (lt : α → α → Bool) (xs : List α) : List α :=
  xs.foldr (fun x acc => insertSorted lt x acc) []

/-- unsigned `dump` -/
def dumpEntries (sort : Bool) (es : List Entry) : Str :=
  ((if sort then stableSort entryLt es else es).map entryLine).flatten

end Gemato
