import Gemato.Model.Basic
/-
  `hash_file` (gemato/hash.py:44-71), the size pseudo-hash, and the Manifest
  name → algorithm table (gemato/manifest.py:539-559).
-/
namespace Gemato.Hash

abbrev Bytes := List Nat

/-- a hashlib-like object, abstractly -/
structure HashAlg where
  State : Type
  init : State
  update : State → Bytes → State
  final : State → Str

/-- what hashlib guarantees: feeding data in pieces is feeding the concatenation,
    and feeding nothing changes nothing -/
structure HashAlg.Streaming (H : HashAlg) : Prop where
  update_update : ∀ s a b, H.update (H.update s a) b = H.update s (a ++ b)
  update_nil : ∀ s, H.update s [] = s

/-- `SizeHash` -/
def sizeHash : HashAlg := { State := Nat, init := 0, update := fun s b => s + b.length, final := toDec }

/-- `for block in iter(lambda: f.read1(BUF), b'')`: stops at the first empty read -/
def readLoop (H : HashAlg) : H.State → List Bytes → H.State
  | s, [] => s
  | s, c :: cs => if c.isEmpty then s else readLoop H (H.update s c) cs

/-- `hash_file` for one hash object. `chunks` is what successive `read1` calls
    return (`f.read()` gathers all of them); `hint` is `_apparent_size`;
    `slurpMax` is `MAX_SLURP_SIZE`. -/
def hashFile (H : HashAlg) (slurpMax hint : Nat) (chunks : List Bytes) : H.State :=
  if hint ≠ 0 ∧ hint < slurpMax then H.update H.init chunks.flatten
  else readLoop H H.init chunks

-- the name table ---------------------------------------------------------------
def s (x : List Nat) : Str := x

/-- GLEP 74 hash names and the hashlib algorithm each denotes -/
def nameTable : List (Str × Str) :=
  [ ([77, 68, 53], [109, 100, 53]),                                               -- MD5 md5
    ([83, 72, 65, 49], [115, 104, 97, 49]),                                        -- SHA1 sha1
    ([83, 72, 65, 50, 53, 54], [115, 104, 97, 50, 53, 54]),                        -- SHA256 sha256
    ([83, 72, 65, 53, 49, 50], [115, 104, 97, 53, 49, 50]),                        -- SHA512 sha512
    ([82, 77, 68, 49, 54, 48], [114, 105, 112, 101, 109, 100, 49, 54, 48]),        -- RMD160 ripemd160
    ([87, 72, 73, 82, 76, 80, 79, 79, 76], [119, 104, 105, 114, 108, 112, 111, 111, 108]),  -- WHIRLPOOL whirlpool
    ([66, 76, 65, 75, 69, 50, 66], [98, 108, 97, 107, 101, 50, 98]),               -- BLAKE2B blake2b
    ([66, 76, 65, 75, 69, 50, 83], [98, 108, 97, 107, 101, 50, 115]),              -- BLAKE2S blake2s
    ([83, 72, 65, 51, 95, 50, 53, 54], [115, 104, 97, 51, 95, 50, 53, 54]),        -- SHA3_256 sha3_256
    ([83, 72, 65, 51, 95, 53, 49, 50], [115, 104, 97, 51, 95, 53, 49, 50]) ]       -- SHA3_512 sha3_512

def hashlibName? (n : Str) : Option Str := (nameTable.find? (·.1 == n)).map (·.2)

inductive NameErr | unsupported (name : Str)
deriving DecidableEq, Repr

/-- `manifest_hashes_to_hashlib` followed by `get_hash_by_name`: a name outside
    the table, or one the running hashlib lacks, is reported as unsupported
    (with the repair of finding F10; a KeyError without it) -/
def resolveNames (available : Str → Bool) : List Str → Except NameErr (List (Str × Str))
  | [] => .ok []
  | n :: ns =>
    match hashlibName? n with
    | none => .error (.unsupported n)
    | some a =>
      if !available a then .error (.unsupported a)
      else match resolveNames available ns with
        | .error e => .error e
        | .ok r => .ok ((n, a) :: r)

end Gemato.Hash
