import Gemato.Model.Update
/-
  Call-level model of `get_file_metadata` and its two consumers `verify_path`
  and `update_entry_for_path` (gemato/verify.py:17-285).

  Every file-system call the generator may issue is a parameter (`Calls`): it
  either yields a value or fails with an errno.  The functions return the
  result *and* the trace of calls issued, including the `close` of the
  descriptor, so that "which error surfaces", "what counts as absent" and "the
  descriptor is closed on every path" are statements about one definition.

  The generator is lazy: a stage is only evaluated when the consumer asks for
  it, and a consumer that stops early closes the generator
  (`contextlib.closing`), which raises GeneratorExit at the pending `yield`.
-/
namespace Gemato.Faults
open Gemato.L1

abbrev Code := Nat
def ENOENT : Code := 2
def ENXIO : Code := 6
def EOPNOTSUPP : Code := 95

/-- `S_ISREG` / anything else (`directory`, `named pipe`, ... only differ in the diagnostic text) -/
inductive Kind | reg | nonreg
deriving DecidableEq, Repr

structure St where
  kind : Kind
  dev : Nat
  size : Nat
  mtime : Int
deriving DecidableEq, Repr

/-- the outcomes of the calls `get_file_metadata(path, hashes)` can issue -/
structure Calls where
  /-- `os.open(path, O_RDONLY | O_NONBLOCK)` -/
  open_ : Except Code Unit
  /-- `os.fstat(fd)` (when the open succeeded) -/
  fstat : Except Code St
  /-- `os.stat(path)` (when the open failed with ENXIO / EOPNOTSUPP) -/
  stat : Except Code St
  /-- `open(fd, 'rb')` -/
  fdopen : Except Code Unit
  /-- reading and hashing the content: bytes read, digests for the requested names -/
  read : Except Code (Nat × List (Str × Str))
  /-- the translation of the requested Manifest hash names fails (UnsupportedHash) -/
  badHash : Bool

inductive Call | open_ | fstat | stat | fdopen | read | close
deriving DecidableEq, Repr

def osErr (k : Code) : Err := .os (.code k)

/-- `os.close(fd)` in the `except` clause of the generator, when a descriptor is held -/
def closeIf (opened : Bool) : List Call := if opened then [.close] else []

/-- what stage 1 (`os.open`) establishes: `none` = the error is re-raised -/
def openStage (c : Calls) : Except Code (Bool × Bool) :=
  match c.open_ with
  | .ok () => .ok (true, true)                                      -- exists, opened
  | .error k =>
    if k = ENOENT then .ok (false, false)
    else if k = ENXIO ∨ k = EOPNOTSUPP then .ok (true, false)
    else .error k

def statCall (opened : Bool) : Call := if opened then .fstat else .stat
def statOf (c : Calls) (opened : Bool) : Except Code St := if opened then c.fstat else c.stat

/-- stages 6-7: `open(fd, 'rb')`, then hashing inside `with f:`; `k` consumes the outcome of the read -/
def readStage {α : Type} (c : Calls) (tr : List Call) (k : Nat × List (Str × Str) → Except Err α) :
    Except Err α × List Call :=
  match c.fdopen with
  | .error e => (.error (osErr e), tr ++ [.fdopen, .close])
  | .ok () =>
    if c.badHash then (.error .unsupportedHash, tr ++ [.fdopen, .close])
    else match c.read with
      | .error e => (.error (osErr e), tr ++ [.fdopen, .read, .close])
      | .ok r => (k r, tr ++ [.fdopen, .read, .close])

/-- `last_mtime is not None and st_mtime <= last_mtime and st_size != 0` -/
def skipSt (st : St) (lastMtime : Option Int) : Bool :=
  match lastMtime with
  | some t => decide (st.mtime ≤ t) && st.size != 0
  | none => false

/-- `verify_path(path, e, expected_dev, last_mtime)`; `ok true` = `(True, [])` -/
def verifyPathC (c : Calls) (e : Option Entry) (dev? : Option Nat) (lastMtime : Option Int) :
    Except Err Bool × List Call :=
  match e with
  | some (.timestamp _) => (.error (.internal .assertion), [])
  | some (.ignore _) => (.ok true, [])
  | _ =>
    match openStage c with
    | .error k => (.error (osErr k), [.open_])
    | .ok (false, _) => (.ok e.isNone, [.open_])
    | .ok (true, opened) =>
      match e with
      | none => (.ok false, [.open_] ++ closeIf opened)
      | some (.timestamp _) => (.error (.internal .assertion), [])
      | some (.ignore _) => (.ok true, [])
      | some (.file _ _ esize cks) =>
        let tr := [.open_, statCall opened]
        match statOf c opened with
        | .error k => (.error (osErr k), tr ++ closeIf opened)
        | .ok st =>
          if devBad dev? st.dev then (.error (.crossDevice []), tr ++ closeIf opened)
          else if st.kind ≠ .reg then (.ok false, tr ++ closeIf opened)
          else if st.size ≠ 0 ∧ st.size ≠ esize then (.ok false, tr ++ closeIf opened)
          else if skipSt st lastMtime then (.ok true, tr ++ closeIf opened)
          else if !opened then (.error (.internal .other), tr)     -- `open(fd)` with fd unbound: UnboundLocalError
          else readStage c tr fun (n, got) =>
            .ok (decide (n = esize) && cks.all fun kv => (got.find? (·.1 == kv.1)).map (·.2) == some kv.2)

/-- `update_entry_for_path(path, e, hashes, expected_dev, last_mtime)`:
    `ok none` = nothing to change, `ok (some (size, cks))` = the entry's new values -/
def updateEntryC (c : Calls) (e : Entry) (dev? : Option Nat) (lastMtime : Option Int) :
    Except Err (Option (Nat × List (Str × Str))) × List Call :=
  match e with
  | .timestamp _ => (.error (.internal .assertion), [])
  | .ignore _ => (.error (.internal .assertion), [])
  | .file _ _ esize cks =>
    match openStage c with
    | .error k => (.error (osErr k), [.open_])
    | .ok (false, _) => (.error (.invalidPath []), [.open_])
    | .ok (true, opened) =>
      let tr := [.open_, statCall opened]
      match statOf c opened with
      | .error k => (.error (osErr k), tr ++ closeIf opened)
      | .ok st =>
        if devBad dev? st.dev then (.error (.crossDevice []), tr ++ closeIf opened)
        else if st.kind ≠ .reg then (.error (.invalidPath []), tr ++ closeIf opened)
        else if skipSt st lastMtime && st.size == esize then (.ok none, tr ++ closeIf opened)
        else if !opened then (.error (.internal .other), tr)
        else readStage c tr fun (n, got) =>
          if st.size ≠ 0 ∧ st.size ≠ n then .error (.internal .assertion)
          else if esize ≠ n ∨ cks ≠ got then .ok (some (n, got)) else .ok none

end Gemato.Faults
