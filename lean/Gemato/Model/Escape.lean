import Gemato.Model.Basic
/-
  Path escaping (`ManifestPathEntry.encoded_path`) and unescaping
  (`process_path` / `decode_char`), gemato/manifest.py:57-101.
-/
namespace Gemato

def hexDigit (n : Nat) : Nat := if n < 10 then 48 + n else 55 + n

/-- `[0-9a-fA-F]` -/
def hexVal? (c : Nat) : Option Nat :=
  if 48 ≤ c ∧ c ≤ 57 then some (c - 48)
  else if 65 ≤ c ∧ c ≤ 70 then some (c - 55)
  else if 97 ≤ c ∧ c ≤ 102 then some (c - 87)
  else none

/-- `f'{n:0{w}X}'`, big-endian, fixed width (n < 16^w at every call site) -/
def toHex : Nat → Nat → Str
  | 0, _ => []
  | w+1, n => toHex w (n / 16) ++ [hexDigit (n % 16)]

/-- `int(ds, base=16)` on a string already known to consist of hex digits -/
def fromHex? (ds : Str) : Option Nat :=
  ds.foldlM (fun acc d => (hexVal? d).map (fun v => acc * 16 + v)) 0

/-- `disallowed_path_re = [\x00-\x1F\x7F-\x9F\s\\\uD800-\uDFFF]` (the surrogate range: repair of finding F12b,
    a lone surrogate cannot be written to a UTF-8 file) -/
def disallowedRanges : List (Nat × Nat) :=   -- sorted, merged (normal form of the class)
  [(0, 32), (92, 92), (127, 160), (5760, 5760), (8192, 8202), (8232, 8233), (8239, 8239),
   (8287, 8287), (12288, 12288), (55296, 57343)]

def disallowed (c : Nat) : Bool := inRanges disallowedRanges c

/-- `encode_char` -/
def encodeChar (c : Nat) : Str :=
  if c ≤ 0x7F then 92 :: 120 :: toHex 2 c
  else if c ≤ 0xFFFF then 92 :: 117 :: toHex 4 c
  else 92 :: 85 :: toHex 8 c

/-- `encoded_path` -/
def encodePath (s : Str) : Str :=
  s.flatMap fun c => if disallowed c then encodeChar c else [c]

/-- what `decode_char` can do: a bare/short/invalid escape is the library's
    syntax error; a value `chr()` rejects is an *internal* error on a tree
    without the repair (ValueError / OverflowError), a syntax error with it.
    `maxCp` is the exclusive upper bound of `chr()` (0x110000). -/
inductive DecErr | invalidEscape | outOfRange
deriving DecidableEq, Repr

/-- width of the escape introduced by marker char: `x` 2, `u` 4, `U` 8 -/
def escWidth? (m : Nat) : Option Nat :=
  if m = 120 then some 2 else if m = 117 then some 4 else if m = 85 then some 8 else none

/-- `escape_seq_re.sub(decode_char, field)` -/
def decodePath : Str → Except DecErr Str
  | [] => .ok []
  | c :: rest =>
    if c ≠ 92 then (decodePath rest).map (c :: ·)
    else match rest with
      | [] => .error .invalidEscape
      | m :: tl =>
        match escWidth? m with
        | none => .error .invalidEscape
        | some w =>
          if tl.length < w then .error .invalidEscape else
          match fromHex? (tl.take w) with
          | none => .error .invalidEscape
          | some v =>
            if v < 0x110000 then (decodePath (tl.drop w)).map (v :: ·) else .error .outOfRange
termination_by s => s.length
decreasing_by all_goals (simp only [List.length_cons, List.length_drop]; omega)

end Gemato
