import Gemato.Model.Loader
/-
  `assert_directory_verifies` with `_walk_directory` and `SubprocessVerifier`
  (gemato/recursiveloader.py:102-168, 597-704).
-/
namespace Gemato.L1

/-- the fail handler: the default raises; a keep-going handler returns a verdict -/
inductive Handler
  | raise
  | policy (f : Str → Bool)

structure WalkSt where
  ed : EntryDict
  /-- `directory_ids`: system path of a directory → identities of its ancestors and itself -/
  ids : List (Str × List (Nat × Nat)) := []
  /-- relative paths handed to the fail handler, in order -/
  calls : List Str := []
  ret : Bool := true

structure VCfg where
  w : World
  topName : Str                 -- `top_level_manifest_filename`
  dev? : Option Nat
  handler : Handler
  lastMtime : Option Int

/-- the absolute prefix standing for `root_directory` -/
def sysRoot : Str := [47, 82]

def isHidden (nm : Str) : Bool := nm.head? == some 46

/-- `_verify_one_file` -/
def verifyOne (c : VCfg) (st : WalkSt) (rel : Str) (e : Option Entry) : Except Err WalkSt :=
  match c.w.verifyPath rel e c.dev? c.lastMtime with
  | .error err => .error err
  | .ok true => .ok st
  | .ok false =>
    match c.handler with
    | .raise => .error (.mismatch rel)
    | .policy f => .ok { st with calls := st.calls ++ [rel], ret := st.ret && f rel }

def edPop (d : EntryDict) (dir : Str) : List (Str × Entry) × EntryDict :=
  (edGet d dir, d.filter (·.1 != dir))

def ddGet (dd : List (Str × Entry)) (nm : Str) : Option Entry := (dd.find? (·.1 == nm)).map (·.2)

/-- is `nm` listed as a directory / as something else in `kids` (what `os.walk`
    puts into `dirnames` / `filenames`) -/
def Node.isDirNode : Node → Bool
  | .dir _ _ _ => true
  | .unreadable _ asDir => asDir
  | _ => false

def relJoin (rel nm : Str) : Str := if rel.isEmpty then nm else rel ++ slash :: nm

/-- `for x in xs: acc = step(acc, x)` where a step may raise -/
def foldE {σ α : Type} (f : σ → α → Except Err σ) : σ → List α → Except Err σ
  | s, [] => .ok s
  | s, a :: as => match f s a with
    | .error e => .error e
    | .ok s' => foldE f s' as

def parentIds (st : WalkSt) (sysPath : Str) : List (Nat × Nat) :=
  ((st.ids.find? (·.1 == dirname sysPath)).map (·.2)).getD []

structure Pruned where
  st1 : WalkSt
  dirdict1 : List (Str × Entry)
  filenames : List Str
  keep : List Str

/-- the pruning part of `_walk_directory`: the directory's dict is popped; hidden
    directories and directories with an entry are not descended; an IGNORE
    entry for a directory is consumed; the directory is recorded as an
    ancestor if anything is left to descend into -/
def prune (st : WalkSt) (sysPath rel : Str) (dev ino : Nat) (kids : List (Str × Node)) : Pruned :=
  let dirdict0 := (edPop st.ed rel).1
  let dirnames := (kids.filter (·.2.isDirNode)).map (·.1)
  let keep := dirnames.filter fun d => !isHidden d && (ddGet dirdict0 d).isNone
  { st1 := { st with
      ed := (edPop st.ed rel).2,
      ids := if keep.isEmpty then st.ids
             else (st.ids.filter (·.1 != sysPath)) ++ [(sysPath, parentIds st sysPath ++ [(dev, ino)])] },
    dirdict1 := dirdict0.filter fun (nm, e) => !(dirnames.contains nm && !isHidden nm && e.isIgnore),
    filenames := (kids.filter (!·.2.isDirNode)).map (·.1),
    keep := keep }

/-- one iteration of `for f in filenames` in `SubprocessVerifier.__call__` -/
def filesStep (c : VCfg) (rel : Str) (acc : WalkSt × List (Str × Entry)) (f : Str) :
    Except Err (WalkSt × List (Str × Entry)) :=
  if isHidden f then .ok acc
  else if relJoin rel f == c.topName then .ok acc
  else match verifyOne c acc.1 (relJoin rel f) (ddGet acc.2 f) with
    | .error e => .error e
    | .ok st' => .ok (st', acc.2.filter (·.1 != f))

/-- `for f, e in dirdict.items()`: entries left over (missing files, entries for
    hidden names, entries naming directories) -/
def leftoverStep (c : VCfg) (pf : Str → Str) (acc : WalkSt) (fe : Str × Entry) : Except Err WalkSt :=
  verifyOne c acc (pf fe.1) (some fe.2)

/-- the per-directory part: checks and pruning in `_walk_directory`, then
    `SubprocessVerifier.__call__`. Returns the new state and the names of the
    directories still to be descended. -/
def visitDir (c : VCfg) (st : WalkSt) (sysPath rel : Str) (dev ino : Nat) (kids : List (Str × Node)) :
    Except Err (WalkSt × List Str) :=
  if devBad c.dev? dev then .error (.crossDevice sysPath)
  else if (parentIds st sysPath).contains (dev, ino) then .error (.symlinkLoop sysPath)
  else
    let pr := prune st sysPath rel dev ino kids
    match foldE (filesStep c rel) (pr.st1, pr.dirdict1) pr.filenames with
    | .error e => .error e
    | .ok (st2, dd2) =>
      match foldE (leftoverStep c (relJoin rel)) st2 dd2 with
      | .error e => .error e
      | .ok st3 => .ok (st3, pr.keep)

mutual
/-- `os.walk` top-down over the tree below a directory node -/
def walkDir (c : VCfg) (st : WalkSt) (sysPath rel : Str) : Node → Except Err WalkSt
  | .dir dev ino kids =>
    match visitDir c st sysPath rel dev ino kids with
    | .error e => .error e
    | .ok (st', keep) => walkKids c st' sysPath rel keep kids
  /- `os.walk` reaches a directory it cannot list: `onerror=throw_exception` -/
  | .unreadable k true => .error (.os (.code k))
  | _ => .ok st
def walkKids (c : VCfg) (st : WalkSt) (sysPath rel : Str) (keep : List Str) : List (Str × Node) → Except Err WalkSt
  | [] => .ok st
  | (nm, ch) :: rest =>
    if keep.contains nm then
      match walkDir c st (pjoin sysPath nm) (relJoin rel nm) ch with
      | .error e => .error e
      | .ok st' => walkKids c st' sysPath rel keep rest
    else walkKids c st sysPath rel keep rest
end

/-- the pass over entries whose directory the walk never visited -/
def missingDirsPass (c : VCfg) (st : WalkSt) : Except Err WalkSt :=
  foldE (fun (acc : WalkSt) (dd : Str × List (Str × Entry)) => foldE (leftoverStep c (pjoin dd.1)) acc dd.2)
    { st with ed := [] } st.ed

structure VerifyResult where
  ret : Bool
  calls : List Str
deriving Repr, DecidableEq

/-- the walk proper, from the object found at `path` -/
def walkFrom (c : VCfg) (st0 : WalkSt) (path rel : Str) : Option Obj → Except Err WalkSt
  | none => .error .abstain
  | some (.dir d i ks) =>
    -- `os.path.normpath(os.path.join(root_directory, path))` (repair of finding F9: without the
    -- normalisation a walk from '' starts at "root/", whose children do not find it as their parent)
    walkDir c st0 (if rel.isEmpty then sysRoot else sysRoot ++ slash :: rel) rel (.dir d i ks)
  | some .absent => .error (.os .ENOENT)
  | some (.fault k) => .error (.os (.code k))
  | some _ => .error (.os .ENOTDIR)

/-- `assert_directory_verifies(path, fail_handler, last_mtime)` -/
def Loader.assertDirectoryVerifies (w : World) (l : Loader) (path : Str) (h : Handler) (lastMtime : Option Int) :
    Except Err (Loader × VerifyResult) :=
  match l.getFileEntryDict w path with
  | .error e => .error e
  | .ok (l', ed) =>
    match relpathOrEmpty? path [] with
    | none => .error .abstain
    | some rel =>
      let c : VCfg := { w := w, topName := l.top, dev? := l.dev?, handler := h, lastMtime := lastMtime }
      match walkFrom c { ed := ed } path rel (w.obj? path) with
      | .error e => .error e
      | .ok st1 =>
        match missingDirsPass c st1 with
        | .error e => .error e
        | .ok st2 => .ok (l', { ret := st2.ret, calls := st2.calls })

end Gemato.L1
