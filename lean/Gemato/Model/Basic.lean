/-
  L0 basics: Python `str` values are lists of code points (`Nat`), because a
  Python `str` may hold lone surrogates and Lean's `String`/`Char` may not.
  Nothing here imports anything outside core Lean.
-/
namespace Gemato

abbrev Cp  := Nat
abbrev Str := List Nat

/-- `str.isspace()` / regex `\s` / the separator set of `str.split()` and
    `str.strip()` — one set in CPython (Py_UNICODE_ISSPACE); tied to the
    running interpreter by the T2 code-point table and to the source regex by
    `Bridge`. -/
def spaceRanges : List (Nat × Nat) :=
  [(9, 13), (28, 32), (133, 133), (160, 160), (5760, 5760), (8192, 8202), (8232, 8233),
   (8239, 8239), (8287, 8287), (12288, 12288)]

def inRanges (rs : List (Nat × Nat)) (c : Nat) : Bool :=
  rs.any fun r => r.1 ≤ c && c ≤ r.2

def isSpace (c : Nat) : Bool := inRanges spaceRanges c

/-- `str.startswith` -/
def startsWith : Str → Str → Bool
  | _, [] => true
  | [], _ :: _ => false
  | a :: as, b :: bs => a == b && startsWith as bs

def endsWith (s suf : Str) : Bool := startsWith s.reverse suf.reverse

/-- `str.lstrip()` -/
def lstrip : Str → Str
  | [] => []
  | c :: cs => if isSpace c then lstrip cs else c :: cs

/-- `str.rstrip()` -/
def rstrip (s : Str) : Str := (lstrip s.reverse).reverse

def strip (s : Str) : Str := rstrip (lstrip s)

/-- `str.split()` with no argument: maximal runs of non-space characters. -/
def splitGo : Str → Str → List Str
  | cur, [] => if cur.isEmpty then [] else [cur]
  | cur, c :: cs =>
    if isSpace c then (if cur.isEmpty then splitGo [] cs else cur :: splitGo [] cs)
    else splitGo (cur ++ [c]) cs

def splitWs (s : Str) : List Str := splitGo [] s

/-- `' '.join(fields)` -/
def joinSp : List Str → Str
  | [] => []
  | [f] => f
  | f :: g :: fs => f ++ 32 :: joinSp (g :: fs)

/-- lexicographic `<` on strings = Python's `str.__lt__` (code point order) -/
def strLt : Str → Str → Bool
  | [], [] => false
  | [], _ :: _ => true
  | _ :: _, [] => false
  | a :: as, b :: bs => a < b || (a == b && strLt as bs)

/-- `str.rstrip('/')` -/
def rstripSlash (s : Str) : Str := (s.reverse.dropWhile (· == 47)).reverse

/-- split on a single separator character, `str.split(sep)` (always ≥ 1 piece) -/
def splitOnGo (sep : Nat) : Str → Str → List Str
  | cur, [] => [cur]
  | cur, c :: cs => if c == sep then cur :: splitOnGo sep [] cs else splitOnGo sep (cur ++ [c]) cs

def splitOn (sep : Nat) (s : Str) : List Str := splitOnGo sep [] s

/-- `str(n)` for a non-negative int -/
def toDec (n : Nat) : Str :=
  if n < 10 then [48 + n] else toDec (n / 10) ++ [48 + n % 10]
termination_by n
decreasing_by omega

end Gemato
