import Gemato.Model.Save
/-
  The time handling of `gemato update` (gemato/cli.py:390-417) and exit-status folding.
  Times are integers: seconds for TIMESTAMP values, nanoseconds for clock and mtimes.
-/
namespace Gemato.Cli

def nsPerSec : Int := 1000000000

/-- `last_ts.ts.replace(tzinfo=timezone.utc).timestamp()`: the TIMESTAMP (whole
    seconds UTC) as an mtime bound — independent of the local time zone (repair
    of finding F5; the naive `.timestamp()` subtracted the local UTC offset) -/
def lastMtime (tsSeconds : Int) (_localOffset : Int) : Int := tsSeconds * nsPerSec

/-- the TIMESTAMP written by an update whose scan started at `startNs`
    (`datetime.utcnow()` taken before the scan, written with one-second resolution) -/
def writtenTimestamp (startNs : Int) : Int := startNs / nsPerSec

/-- `return 0 if ret else 1` after `ret &= …` over the requested paths -/
def verifyExit (rets : List Bool) : Nat := if rets.all id then 0 else 1

end Gemato.Cli
