import Gemato.Model.Save
/-
  The time handling of `gemato update` (gemato/cli.py:390-417) and exit-status folding.
  Times are integers: seconds for TIMESTAMP values, nanoseconds for clock and mtimes.
-/
namespace Gemato.Cli

def nsPerSec : Int := 1000000000

/-- `last_ts.ts.replace(tzinfo=timezone.utc).timestamp()`: the TIMESTAMP (whole
    seconds UTC) as an mtime bound — independent of the local time zone (repair
    of finding F5; the naive `.timestamp()` subtracted the local UTC offset) -/
def lastMtime (tsSeconds : Int) (_localOffset : Int) : Int := tsSeconds * nsPerSec

/-- the TIMESTAMP written by an update whose scan started at `startNs`
    (`datetime.utcnow()` taken before the scan, written with one-second resolution) -/
def writtenTimestamp (startNs : Int) : Int := startNs / nsPerSec

/-- `return 0 if ret else 1` after `ret &= …` over the requested paths -/
def verifyExit (rets : List Bool) : Nat := if rets.all id then 0 else 1

/-- the TIMESTAMP refresh between scan and save: `ts.ts = start_ts` on the first
    TIMESTAMP entry found (deepest Manifest for '' first), or `set_timestamp`
    appending one to the top-level Manifest when `--timestamp` was given -/
def applyTimestamp (s1 : U.St) (setTs : Option (Ts × Bool)) : U.St :=
  match setTs with
  | none => s1
  | some (ts, addIfMissing) =>
    let found := ((L1.iterManifests s1.plain [] false).flatMap fun (k, _, _) =>
      (s1.entriesOf k).filter fun ie => match ie.2 with | .timestamp _ => true | _ => false).head?
    match found with
    | some (id, _) => s1.setVal id (.timestamp ts)
    | none => if addIfMissing then s1.append s1.top (.timestamp ts) else s1

/-- the OpenPGP side of an update: `--sign` / `--no-sign` / neither, whether the top-level Manifest was
    loaded with a verified signature, whether gpg can sign with the selected key -/
structure SignCfg where
  opt : Option Bool := none
  topSigned : Bool := false
  keyUsable : Bool := true
deriving Repr

/-- `UpdateCommand.__call__` / `CreateCommand.__call__` for one path: open the
    loader, scan (`update_entries_for_directory`), refresh the TIMESTAMP, save.
    All file-system writes are in the result of the save step. -/
def updateCommand (w : L1.World) (post : Str → Option L1.FileMeta) (top path : Str) (create : Bool)
    (prof : Prof.Profile) (xdev : Bool) (o : U.Opts) (setTs : Option (Ts × Bool)) (so : U.SaveOpts) (doSave : Bool)
    (sign : SignCfg := {}) :
    Except L1.Err (U.St × List U.Write) :=
  match U.openForUpdate w top create prof xdev with
  | .error e => .error e
  | .ok s0 =>
    let s : U.St := { s0 with signOpt := sign.opt, topSigned := sign.topSigned, keyUsable := sign.keyUsable }
    match U.updateDir w s path o with
    | .error e => .error e
    | .ok s1 =>
      if doSave then U.saveAll w post (applyTimestamp s1 setTs) so else .ok (applyTimestamp s1 setTs, [])

-- how the command-line tool ends (gemato/cli.py:602-634 `main`) --------------------------------------

/-- the ways `gemato.cli.main` can end -/
inductive Exit
  /-- `main` returns an exit status -/
  | status (n : Nat)
  /-- an `OSError` of the object that cannot be accessed propagates -/
  | oserror (e : L1.Errno)
  /-- any other exception propagates as a traceback: the internal error C18 excludes -/
  | traceback (k : IntKind)
  /-- outside what the model covers -/
  | abstain
deriving DecidableEq, Repr

/-- the error values that are instances of `GematoException` (gemato/exceptions.py) -/
def isGemato : L1.Err → Bool
  | .mismatch _ | .incompatible | .crossDevice _ | .symlinkLoop _ | .invalidPath _ | .syntax | .unsigned
  | .unsupportedHash | .signing => true
  | _ => false

/-- `try: return vals.cmd() … except GematoException as e: logging.error(e); return 1` -/
def mainExit {α : Type} (r : Except L1.Err α) (ok : α → Nat) : Exit :=
  match r with
  | .ok a => .status (ok a)
  | .error e =>
    if isGemato e then .status 1
    else match e with
      | .os x => .oserror x
      | .internal k => .traceback k
      | _ => .abstain

/-- `verify_failure`: the keep-going handler logs the mismatch and returns False -/
def keepGoingHandler : L1.Handler := .policy fun _ => false

/-- `VerifyCommand.__call__` for one path, after top-level discovery returned `top`:
    open the loader, `assert_directory_verifies(relpath, **kwargs)` -/
def verifyCommand (w : L1.World) (top path : Str) (keepGoing xdev : Bool) : Except L1.Err Bool :=
  match L1.openLoader w top xdev with
  | .error e => .error e
  | .ok l =>
    match l.assertDirectoryVerifies w path (if keepGoing then keepGoingHandler else .raise) none with
    | .error e => .error e
    | .ok (_, r) => .ok r.ret

/-- `gemato verify [-k] [-x] <path>` -/
def verifyMain (w : L1.World) (top path : Str) (keepGoing xdev : Bool) : Exit :=
  mainExit (verifyCommand w top path keepGoing xdev) fun b => if b then 0 else 1

/-- `gemato update` / `gemato create` for one path (both return 0 when nothing raised) -/
def updateMain (w : L1.World) (post : Str → Option L1.FileMeta) (top path : Str) (create : Bool)
    (prof : Prof.Profile) (xdev : Bool) (o : U.Opts) (setTs : Option (Ts × Bool)) (so : U.SaveOpts)
    (sign : SignCfg := {}) : Exit :=
  mainExit (updateCommand w post top path create prof xdev o setTs so true sign) fun _ => 0

end Gemato.Cli
