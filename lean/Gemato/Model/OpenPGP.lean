import Gemato.Model.Basic
/-
  `SystemGPGEnvironment.verify_file` — the decision over gpg's exit status and
  status lines (gemato/openpgp.py:137-187) — the environment handed to gpg
  (`_spawn_gpg`, :210-229 and :474-485), and the `--require-signed-manifest`
  test of the CLI.
-/
namespace Gemato.PGP

-- "[GNUPG:] " followed by the keyword
def pGOODSIG : Str := [91, 71, 78, 85, 80, 71, 58, 93, 32, 71, 79, 79, 68, 83, 73, 71]
def pEXPKEYSIG : Str := [91, 71, 78, 85, 80, 71, 58, 93, 32, 69, 88, 80, 75, 69, 89, 83, 73, 71]
def pREVKEYSIG : Str := [91, 71, 78, 85, 80, 71, 58, 93, 32, 82, 69, 86, 75, 69, 89, 83, 73, 71]
def pVALIDSIG : Str := [91, 71, 78, 85, 80, 71, 58, 93, 32, 86, 65, 76, 73, 68, 83, 73, 71]
def pTRUST : Str := [91, 71, 78, 85, 80, 71, 58, 93, 32, 84, 82, 85, 83, 84, 95]

-- gpg's validity vocabulary (doc/DETAILS: TRUST_UNDEFINED, TRUST_NEVER,
-- TRUST_MARGINAL, TRUST_FULLY, TRUST_ULTIMATE)
def tUNDEFINED : Str := [84, 82, 85, 83, 84, 95, 85, 78, 68, 69, 70, 73, 78, 69, 68]
def tNEVER : Str := [84, 82, 85, 83, 84, 95, 78, 69, 86, 69, 82]
def tMARGINAL : Str := [84, 82, 85, 83, 84, 95, 77, 65, 82, 71, 73, 78, 65, 76]
def tFULLY : Str := [84, 82, 85, 83, 84, 95, 70, 85, 76, 76, 89]
def tULTIMATE : Str := [84, 82, 85, 83, 84, 95, 85, 76, 84, 73, 77, 65, 84, 69]

/-- the tokens accepted as "key validity at least marginal" -/
def trustedTokens : List Str := [tMARGINAL, tFULLY, tULTIMATE]

inductive Failure
  | verification      -- OpenPGPVerificationFailure: gpg exited non-zero
  | expiredKey        -- OpenPGPExpiredKeyFailure
  | revokedKey        -- OpenPGPRevokedKeyFailure
  | unknownSig        -- OpenPGPUnknownSigFailure: no GOODSIG or no VALIDSIG
  | untrustedSig      -- OpenPGPUntrustedSigFailure
  | internal          -- AssertionError on a VALIDSIG line with fewer than 12 fields
deriving DecidableEq, Repr

/-- the four fields `verify_file` takes out of a VALIDSIG line -/
structure SigData where
  fingerprint : Str
  timestamp : Str
  expire : Str
  primary : Str
deriving DecidableEq, Repr

inductive Kind | good | expkey | revkey | valid | trust | other
deriving DecidableEq, Repr

/-- the `if / elif` chain of prefix tests, in source order -/
def classify (line : Str) : Kind :=
  if startsWith line pGOODSIG then .good
  else if startsWith line pEXPKEYSIG then .expkey
  else if startsWith line pREVKEYSIG then .revkey
  else if startsWith line pVALIDSIG then .valid
  else if startsWith line pTRUST then .trust
  else .other

/-- `line.split(b' ')[2], [4], [5], [11]`; `none` = fewer than 12 fields -/
def validFields (line : Str) : Option SigData :=
  let spl := splitOn 32 line
  if spl.length ≥ 12 then
    some ⟨spl.getD 2 [], spl.getD 4 [], spl.getD 5 [], spl.getD 11 []⟩
  else none

/-- `line.split(b' ', 2)[1] in (TRUST_…)` -/
def trustToken (line : Str) : Str := (splitOn 32 line).getD 1 []

def lineTrusted (line : Str) : Bool := trustedTokens.contains (trustToken line)

structure Acc where
  good : Bool := false
  trusted : Bool := false
  sig : Option SigData := none
deriving Repr

/-- the loop over the status lines -/
def scan : Acc → List Str → Except Failure Acc
  | a, [] => .ok a
  | a, l :: ls =>
    match classify l with
    | .good => scan { a with good := true } ls
    | .expkey => .error .expiredKey
    | .revkey => .error .revokedKey
    | .valid => (match validFields l with
        | none => .error .internal
        | some d => scan { a with sig := some d } ls)
    | .trust => scan (if lineTrusted l then { a with trusted := true } else a) ls
    | .other => scan a ls

/-- `verify_file`, given gpg's exit status and its status lines -/
def verifyStatus (exit : Nat) (lines : List Str) : Except Failure SigData :=
  if exit ≠ 0 then .error .verification
  else match scan {} lines with
    | .error f => .error f
    | .ok a =>
      match a.good, a.sig with
      | true, some d => if a.trusted then .ok d else .error .untrustedSig
      | _, _ => .error .unknownSig

-- environment ---------------------------------------------------------------------
abbrev Env := List (Str × Str)

/-- `dict[k] = v` -/
def envSet (k v : Str) : Env → Env
  | [] => [(k, v)]
  | (k', v') :: rest => if k' = k then (k, v) :: rest else (k', v') :: envSet k v rest

def envGet (k : Str) : Env → Option Str
  | [] => none
  | (k', v') :: rest => if k' = k then some v' else envGet k rest

/-- `dict.update(other)` -/
def envUpdate (e : Env) (other : Env) : Env := other.foldl (fun acc kv => envSet kv.1 kv.2 acc) e

def sTZ : Str := [84, 90]
def sUTC : Str := [85, 84, 67]
def sGNUPGHOME : Str := [71, 78, 85, 80, 71, 72, 79, 77, 69]
def sHttpProxy : Str := [104, 116, 116, 112, 95, 112, 114, 111, 120, 121]

/-- `SystemGPGEnvironment._spawn_gpg`: caller's environment, TZ, overrides -/
def spawnEnv (caller : Env) (override : Env) : Env := envUpdate (envSet sTZ sUTC caller) override

/-- `IsolatedGPGEnvironment._spawn_gpg`: the private home (and the proxy) -/
def isolatedOverride (home : Str) (proxy : Option Str) : Env :=
  (sGNUPGHOME, home) :: (match proxy with | none => [] | some p => [(sHttpProxy, p)])

/-- `verify --require-signed-manifest` up to the point where verification of
    the tree starts: `some 1` = exit status 1 -/
def requireSignedGate (requireSigned : Bool) (loaderSigned : Bool) : Option Nat :=
  if requireSigned && !loaderSigned then some 1 else none

end Gemato.PGP
