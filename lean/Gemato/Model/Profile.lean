import Gemato.Model.Path
import Gemato.Model.Entry
/-
  The three profiles (gemato/profile.py): where Manifests are wanted, default
  IGNOREs, entry typing, compression policy, loader defaults.
-/
namespace Gemato.Prof

inductive Profile | default | ebuild | oldEbuild
deriving DecidableEq, Repr

def n (s : List Nat) : Str := s
def sMetadataXml : Str := [109, 101, 116, 97, 100, 97, 116, 97, 46, 120, 109, 108]
def sEbuildExt : Str := [46, 101, 98, 117, 105, 108, 100]
def sEclass : Str := [101, 99, 108, 97, 115, 115]
def sLicenses : Str := [108, 105, 99, 101, 110, 115, 101, 115]
def sMetadata : Str := [109, 101, 116, 97, 100, 97, 116, 97]
def sProfiles : Str := [112, 114, 111, 102, 105, 108, 101, 115]
def sDtd : Str := [100, 116, 100]
def sGlsa : Str := [103, 108, 115, 97]
def sMd5Cache : Str := [109, 100, 53, 45, 99, 97, 99, 104, 101]
def sNews : Str := [110, 101, 119, 115]
def sXmlSchema : Str := [120, 109, 108, 45, 115, 99, 104, 101, 109, 97]
def sFiles : Str := [102, 105, 108, 101, 115]
def sManifest : Str := [77, 97, 110, 105, 102, 101, 115, 116]
def sDistfiles : Str := [100, 105, 115, 116, 102, 105, 108, 101, 115]
def sLocal : Str := [108, 111, 99, 97, 108]
def sLostFound : Str := [108, 111, 115, 116, 43, 102, 111, 117, 110, 100]
def sPackages : Str := [112, 97, 99, 107, 97, 103, 101, 115]
def sTimestamp : Str := [116, 105, 109, 101, 115, 116, 97, 109, 112]
def sTimestampChk : Str := sTimestamp ++ [46, 99, 104, 107]
def sTimestampCommit : Str := sTimestamp ++ [46, 99, 111, 109, 109, 105, 116]
def sTimestampX : Str := sTimestamp ++ [46, 120]

def standardTop : List Str := [sEclass, sLicenses, sMetadata, sProfiles]
def metadataSubdirs : List Str := [sDtd, sGlsa, sMd5Cache, sNews, sXmlSchema]

/-- `want_manifest_in_directory(relpath, dirnames, filenames)` -/
def wantManifest (p : Profile) (relpath : Str) (dirnames filenames : List Str) : Bool :=
  match p with
  | .default => false
  | _ =>
    if filenames.contains sMetadataXml then true else
    let spl := comps relpath
    if spl.length == 1 then
      !dirnames.isEmpty || standardTop.contains relpath
    else if spl.length == 2 then
      filenames.any (fun f => endsWith f sEbuildExt) ||
        (spl.getD 0 [] == sMetadata && metadataSubdirs.contains (spl.getD 1 []))
    else if spl.length == 3 then
      spl.take 2 == [sMetadata, sMd5Cache]
    else false

/-- `get_ignore_paths_for_new_manifest(relpath)` -/
def ignorePaths (p : Profile) (relpath : Str) : List Str :=
  match p with
  | .default => []
  | _ =>
    if relpath.isEmpty then [sDistfiles, sLocal, sLostFound, sPackages]
    else if relpath == sMetadata then [sTimestamp, sTimestampChk, sTimestampCommit, sTimestampX]
    else if [sMetadata ++ slash :: sDtd, sMetadata ++ slash :: sGlsa, sMetadata ++ slash :: sNews,
             sMetadata ++ slash :: sXmlSchema].contains relpath then [sTimestampChk, sTimestampCommit]
    else []

/-- `get_entry_type_for_path(path)` -/
def entryType (p : Profile) (path : Str) : FTag :=
  match p with
  | .oldEbuild =>
    let spl := comps path
    if spl.length == 3 && endsWith path sEbuildExt then .EBUILD
    else if spl.length == 3 && spl.getD 2 [] == sMetadataXml then .MISC
    else if (spl.drop 2).take 1 == [sFiles] then .AUX
    else .DATA
  | _ => .DATA

/-- `want_compressed_manifest(relpath, manifest, unc_size, compress_watermark)`;
    `hasEbuild` = the Manifest holds an EBUILD entry -/
def wantCompressed (p : Profile) (relpath : Str) (hasEbuild : Bool) (uncSize watermark : Nat) : Bool :=
  match p with
  | .oldEbuild => if hasEbuild then false else (decide (uncSize ≥ watermark) && relpath != sManifest)
  | _ => decide (uncSize ≥ watermark) && relpath != sManifest

structure LoaderOpts where
  hashes : Option (List Str)
  sort : Option Bool
  watermark : Option Nat
  format : Option Str
deriving DecidableEq, Repr

def sBLAKE2B : Str := [66, 76, 65, 75, 69, 50, 66]
def sSHA512 : Str := [83, 72, 65, 53, 49, 50]
def sGz : Str := [103, 122]

/-- `set_loader_options`: fills in what the user left unset -/
def loaderOptions (p : Profile) (o : LoaderOpts) : LoaderOpts :=
  match p with
  | .default => o
  | _ => { hashes := some (o.hashes.getD [sBLAKE2B, sSHA512]), sort := some (o.sort.getD true),
           watermark := some (o.watermark.getD 128), format := some (o.format.getD sGz) }

end Gemato.Prof
