import Gemato.Model.Loader
/-
  `find_top_level_manifest` (gemato/find_top_level.py:16-87) over the chain of
  directories from the starting directory up to the file-system root.
-/
namespace Gemato.FT
open Gemato.L1

/-- what opening one candidate Manifest name in a directory yields -/
inductive Cand
  | absent                                     -- FileNotFoundError: try the next name
  | present (fileDev : Nat) (entries : List Entry)
  | broken (e : Err)                           -- any other exception propagates
deriving Repr

/-- one directory on the way up; `rel` is the starting path relative to it
    (`os.path.relpath(path, cur_path)`, `''` for the starting directory itself) -/
structure Level where
  dev : Nat
  isRoot : Bool
  rel : Str
  /-- the candidates in the order of `manifest_filenames` (only `Manifest` unless
      compressed Manifests are allowed) -/
  cands : List (Str × Cand)
deriving Repr

/-- `ManifestFile.find_path_entry(path)`: first matching entry in file order -/
def findPathEntry (es : List Entry) (path : Str) : Option Entry :=
  es.find? fun e => match e with
    | .ignore p => pathStartsWith path p
    | .timestamp _ => false
    | .file .DIST _ _ _ => false
    | .file _ _ _ _ => e.fullPath == path

inductive Step
  | next (found : Option Str)     -- go on to the parent; `found` = a Manifest taken at this level
  | stop                          -- return `last_found`
  | raise (e : Err)

/-- the `for m_name in manifest_filenames` loop at one level -/
def scanLevel (allowXdev : Bool) (dev0 : Nat) (rel : Str) : List (Str × Cand) → Step
  | [] => .next none
  | (_, .absent) :: rest => scanLevel allowXdev dev0 rel rest
  | (_, .broken e) :: _ => .raise e
  | (nm, .present fdev es) :: _ =>
    if fdev != dev0 && !allowXdev then .stop
    else match findPathEntry es rel with
      | some (.ignore _) => .stop
      | _ => .next (some nm)

/-- the `while True` loop; `idx` counts levels; the result is (level index, file name) -/
def climb (allowXdev : Bool) (dev0 : Nat) : Nat → Option (Nat × Str) → List Level → Except Err (Option (Nat × Str))
  | _, last, [] => .ok last
  | idx, last, lv :: rest =>
    if idx != 0 && lv.dev != dev0 && !allowXdev then .ok last
    else match scanLevel allowXdev dev0 lv.rel lv.cands with
      | .raise e => .error e
      | .stop => .ok last
      | .next found =>
        let last' := match found with | some nm => some (idx, nm) | none => last
        if lv.isRoot then .ok last' else climb allowXdev dev0 (idx + 1) last' rest

def findTop (allowXdev : Bool) (levels : List Level) : Except Err (Option (Nat × Str)) :=
  match levels with
  | [] => .ok none
  | l0 :: _ => climb allowXdev l0.dev 0 none levels

-- the specification of C15, written as a search from the outside in (the theorems of
-- Props/C15 relate `findTop` to it) --------------------------------------------------

/-- a level at which the upward walk ends without looking further: another
    device (crossing disallowed), a Manifest on another device, or a Manifest
    that IGNOREs the starting path -/
def stopsAt (allowXdev : Bool) (dev0 : Nat) (idx : Nat) (lv : Level) : Bool :=
  (idx != 0 && lv.dev != dev0 && !allowXdev) ||
  (match scanLevel allowXdev dev0 lv.rel lv.cands with | .stop => true | _ => false)

/-- the Manifest a level contributes when the walk passes through it -/
def taken (allowXdev : Bool) (dev0 : Nat) (lv : Level) : Option Str :=
  match scanLevel allowXdev dev0 lv.rel lv.cands with
  | .next f => f
  | _ => none

/-- among the levels passed before the first stopping level (or up to the
    root), the outermost one that contributes a Manifest -/
def outermost (allowXdev : Bool) (dev0 : Nat) : Nat → List Level → Option (Nat × Str)
  | _, [] => none
  | idx, lv :: rest =>
    if stopsAt allowXdev dev0 idx lv then none
    else
      let here := (taken allowXdev dev0 lv).map fun nm => (idx, nm)
      if lv.isRoot then here
      else match outermost allowXdev dev0 (idx + 1) rest with
        | some r => some r
        | none => here

end Gemato.FT

def Drv.C15spec := @Gemato.FT.outermost
