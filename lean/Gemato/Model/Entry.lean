import Gemato.Model.Escape
/-
  Manifest entries and their field-list forms (`from_list` / `to_list` of the
  eight entry classes), gemato/manifest.py:21-320.
-/
namespace Gemato

/-- the six tags whose entries carry a path, a size and checksums -/
inductive FTag | MANIFEST | DATA | DIST | EBUILD | MISC | AUX
deriving DecidableEq, Repr, Inhabited

/-- naive `datetime` with whole seconds -/
structure Ts where
  year : Nat
  month : Nat
  day : Nat
  hour : Nat
  minute : Nat
  second : Nat
deriving DecidableEq, Repr, Inhabited

/-- An entry. For `AUX` the stored `path` is the `aux_path` (the text after the
    implicit `files/`); `Entry.fullPath` is what gemato keeps in `.path`.
    `cks` is the checksum dict, kept sorted by name with unique names (dict
    equality is then list equality; `to_list` emits names in sorted order). -/
inductive Entry
  | timestamp (ts : Ts)
  | ignore (path : Str)
  | file (tag : FTag) (path : Str) (size : Nat) (cks : List (Str × Str))
deriving DecidableEq, Repr, Inhabited

inductive IntKind | valueError | overflowError | assertion | attribute | key | index | type | other
deriving DecidableEq, Repr

/-- what loading can end in: the library's two exceptions, or an internal
    Python error that must never escape (C09, C18) -/
inductive LoadErr | syntax | unsignedData | internal (k : IntKind)
deriving DecidableEq, Repr

-- tag names ------------------------------------------------------------
def sTIMESTAMP : Str := [84, 73, 77, 69, 83, 84, 65, 77, 80]
def sMANIFEST : Str := [77, 65, 78, 73, 70, 69, 83, 84]
def sIGNORE : Str := [73, 71, 78, 79, 82, 69]
def sDATA : Str := [68, 65, 84, 65]
def sDIST : Str := [68, 73, 83, 84]
def sEBUILD : Str := [69, 66, 85, 73, 76, 68]
def sMISC : Str := [77, 73, 83, 67]
def sAUX : Str := [65, 85, 88]
def sFilesSlash : Str := [102, 105, 108, 101, 115, 47]   -- "files/"

def FTag.name : FTag → Str
  | .MANIFEST => sMANIFEST | .DATA => sDATA | .DIST => sDIST
  | .EBUILD => sEBUILD | .MISC => sMISC | .AUX => sAUX

def Entry.tagName : Entry → Str
  | .timestamp _ => sTIMESTAMP
  | .ignore _ => sIGNORE
  | .file t _ _ _ => t.name

/-- `MANIFEST_TAG_MAPPING` lookup -/
inductive TagK | ts | ign | f (t : FTag)
deriving DecidableEq, Repr

def tagOf? (s : Str) : Option TagK :=
  if s = sTIMESTAMP then some .ts
  else if s = sMANIFEST then some (.f .MANIFEST)
  else if s = sIGNORE then some .ign
  else if s = sDATA then some (.f .DATA)
  else if s = sDIST then some (.f .DIST)
  else if s = sEBUILD then some (.f .EBUILD)
  else if s = sMISC then some (.f .MISC)
  else if s = sAUX then some (.f .AUX)
  else none

/-- the path gemato stores in `.path` (AUX: `os.path.join('files', aux_path)`;
    an absolute aux_path cannot be parsed) -/
def Entry.fullPath : Entry → Str
  | .timestamp _ => []
  | .ignore p => p
  | .file .AUX p _ _ => sFilesSlash ++ p
  | .file _ p _ _ => p

-- integers -------------------------------------------------------------
def isDigit (c : Nat) : Bool := 48 ≤ c && c ≤ 57

/-- value of a string of ASCII digits (no check) -/
def digitsVal (ds : Str) : Nat := ds.foldl (fun a d => a * 10 + (d - 48)) 0

/-- CPython's digit grammar for `int(s)` in base 10 after the sign:
    `digit (["_"] digit)*`; returns the digits with underscores removed. -/
def intBodyGo : Bool → Str → Option Str
  | prevDigit, [] => if prevDigit then some [] else none
  | prevDigit, c :: cs =>
    if isDigit c then (intBodyGo true cs).map (c :: ·)
    else if c == 95 && prevDigit then intBodyGo false cs
    else none

def intBody? (s : Str) : Option Str := intBodyGo false s

/-- `sys.int_info.default_max_str_digits` -/
def maxStrDigits : Nat := 4300

/-- `int(field)` followed by the `size < 0` test of `process_checksums`, for
    fields of ASCII characters: the accepted size, or none (⇒ syntax error). -/
def parseSize? (f : Str) : Option Nat :=
  match f with
  | 43 :: body => (intBody? body).bind fun ds => if ds.length > maxStrDigits then none else some (digitsVal ds)
  | 45 :: body => (intBody? body).bind fun ds =>
      if ds.length > maxStrDigits then none else if digitsVal ds = 0 then some 0 else none
  | _ => (intBody? f).bind fun ds => if ds.length > maxStrDigits then none else some (digitsVal ds)

-- timestamps -----------------------------------------------------------
def isLeap (y : Nat) : Bool := (y % 4 == 0 && y % 100 != 0) || y % 400 == 0

def daysInMonth (y m : Nat) : Nat :=
  if m == 2 then (if isLeap y then 29 else 28)
  else if m == 4 || m == 6 || m == 9 || m == 11 then 30 else 31

def Ts.valid (t : Ts) : Bool :=
  1 ≤ t.year && t.year ≤ 9999 && 1 ≤ t.month && t.month ≤ 12 &&
  1 ≤ t.day && t.day ≤ daysInMonth t.year t.month &&
  t.hour < 24 && t.minute < 60 && t.second < 60

/-- one numeric `strptime` field: 1–2 ASCII digits with value in [lo, hi] -/
def field12? (lo hi : Nat) (ds : Str) : Option Nat :=
  if (ds.length == 1 || ds.length == 2) && ds.all isDigit then
    let v := digitsVal ds
    if lo ≤ v && v ≤ hi then some v else none
  else none

/-- split at the first occurrence of a character accepted by `p` -/
def breakAt (p : Nat → Bool) : Str → Option (Str × Str)
  | [] => none
  | c :: cs => if p c then some ([], cs) else (breakAt p cs).map fun (a, b) => (c :: a, b)

def isDash (c : Nat) : Bool := c == 45
def isTee (c : Nat) : Bool := c == 84 || c == 116
def isColon (c : Nat) : Bool := c == 58
def isZed (c : Nat) : Bool := c == 90 || c == 122

/-- `datetime.strptime(field, '%Y-%m-%dT%H:%M:%SZ')` for ASCII fields
    (the format regex is compiled with IGNORECASE, so `t`/`z` are accepted). -/
def parseTs? (f : Str) : Option Ts :=
  match breakAt isDash f with
  | none => none
  | some (y, r1) =>
  match breakAt isDash r1 with
  | none => none
  | some (mo, r2) =>
  match breakAt isTee r2 with
  | none => none
  | some (d, r3) =>
  match breakAt isColon r3 with
  | none => none
  | some (h, r4) =>
  match breakAt isColon r4 with
  | none => none
  | some (mi, r5) =>
  match breakAt isZed r5 with
  | none => none
  | some (s, r6) =>
    if !r6.isEmpty then none
    else if !(y.length == 4 && y.all isDigit) then none
    else match field12? 1 12 mo, field12? 1 31 d, field12? 0 23 h, field12? 0 59 mi, field12? 0 61 s with
      | some mo, some d, some h, some mi, some s =>
        if (Ts.mk (digitsVal y) mo d h mi s).valid then some (Ts.mk (digitsVal y) mo d h mi s) else none
      | _, _, _, _, _ => none

def pad2 (n : Nat) : Str := [48 + n / 10, 48 + n % 10]
def pad4 (n : Nat) : Str := [48 + n / 1000, 48 + n / 100 % 10, 48 + n / 10 % 10, 48 + n % 10]

/-- `ts.strftime('%Y-%m-%dT%H:%M:%SZ')` with the year zero-padded to four
    digits (ISO 8601; what the parser requires) -/
def fmtTs (t : Ts) : Str :=
  pad4 t.year ++ 45 :: pad2 t.month ++ 45 :: pad2 t.day ++ 84 :: pad2 t.hour ++ 58 ::
    pad2 t.minute ++ 58 :: pad2 t.second ++ [90]

-- checksums ------------------------------------------------------------
/-- `checksums[name] = value` on the sorted association list -/
def ckInsert (k v : Str) : List (Str × Str) → List (Str × Str)
  | [] => [(k, v)]
  | (k', v') :: rest =>
    if k = k' then (k, v) :: rest
    else if strLt k k' then (k, v) :: (k', v') :: rest
    else (k', v') :: ckInsert k v rest

/-- the name/value loop of `process_checksums`; `none` = a name without value -/
def parseCks? : List Str → List (Str × Str) → Option (List (Str × Str))
  | [], acc => some acc
  | [_], _ => none
  | k :: v :: rest, acc => parseCks? rest (ckInsert k v acc)

-- from_list -------------------------------------------------------------
/-- leading `/` -/
def isAbs (p : Str) : Bool := p.head? == some 47

/-- `process_path(data[:2])`: one field, non-empty, relative before and after
    unescaping; escapes decoded. An escape value `chr()` rejects is a syntax
    error (with the repair of finding F3; an internal error without it). -/
def processPath (fields : List Str) : Except LoadErr Str :=
  match fields with
  | [_, p] =>
    if p.isEmpty || isAbs p then .error .syntax
    else match decodePath p with
      | .error _ => .error .syntax
      | .ok q => if isAbs q then .error .syntax else .ok q
  | _ => .error .syntax

def processChecksums (fields : List Str) : Except LoadErr (Nat × List (Str × Str)) :=
  match fields with
  | _ :: _ :: sz :: rest =>
    match parseSize? sz with
    | none => .error .syntax
    | some n => match parseCks? rest [] with
      | none => .error .syntax
      | some cks => .ok (n, cks)
  | _ => .error .syntax

/-- `from_list` of the six checksum-carrying classes -/
def fileFromList (t : FTag) (fields : List Str) : Except LoadErr Entry :=
  match processPath (fields.take 2) with
  | .error e => .error e
  | .ok p =>
    if t = .DIST ∧ 47 ∈ p then .error .syntax
    else match processChecksums fields with
      | .error e => .error e
      | .ok (n, cks) => .ok (.file t p n cks)

def timestampFromList (fields : List Str) : Except LoadErr Entry :=
  match fields with
  | [_, v] => match parseTs? v with
    | some t => .ok (.timestamp t)
    | none => .error .syntax
  | _ => .error .syntax

def ignoreFromList (fields : List Str) : Except LoadErr Entry :=
  match processPath fields with
  | .error e => .error e
  | .ok p => .ok (.ignore p)

/-- `MANIFEST_TAG_MAPPING[tag].from_list(fields)`; an unknown tag (KeyError in
    the source) is the syntax error -/
def entryFromList (fields : List Str) : Except LoadErr Entry :=
  match fields with
  | [] => .error .syntax
  | tag :: _ =>
    match tagOf? tag with
    | none => .error .syntax
    | some .ts => timestampFromList fields
    | some .ign => ignoreFromList fields
    | some (.f t) => fileFromList t fields

-- to_list ---------------------------------------------------------------
def cksFields : List (Str × Str) → List Str
  | [] => []
  | (k, v) :: rest => k :: v :: cksFields rest

def entryToList : Entry → List Str
  | .timestamp t => [sTIMESTAMP, fmtTs t]
  | .ignore p => [sIGNORE, encodePath p]
  | .file t p n cks => t.name :: encodePath p :: toDec n :: cksFields cks

/-- one written line: `' '.join(e.to_list()) + '\n'` -/
def entryLine (e : Entry) : Str := joinSp (entryToList e) ++ [10]

end Gemato
