import Gemato.Model.Path
import Gemato.Model.ManifestText
import Gemato.Model.Hash
/-
  L1: a finite file-system tree, the objects gemato's file-system calls see in
  it, and the error values of the tree-level algorithms.
-/
namespace Gemato.L1

/-- what reading a file as a (possibly compressed, by suffix) Manifest yields -/
inductive MContent
  | text (t : Str)      -- the decompressed, decoded text
  | corrupt             -- not valid data for the codec its suffix names
  /-- the codec (or the UTF-8 decoder) fails part-way: the text delivered, line by line, before it does -/
  | broken (pre : Str)
deriving DecidableEq, Repr, Inhabited

structure FileMeta where
  dev : Nat
  /-- `st_size` as stat reports it (0 on "weird" file systems) -/
  stSize : Nat
  /-- the number of bytes reading the file yields -/
  size : Nat
  /-- `st_mtime`, in an integral unit -/
  mtime : Int
  /-- Manifest hash name → digest of the content (supplied for every supported
      name the scenario uses; hashing itself is not modelled) -/
  digests : List (Str × Str)
  manifest : Option MContent
deriving DecidableEq, Repr, Inhabited

inductive Node
  | file (m : FileMeta)
  | dir (dev ino : Nat) (kids : List (Str × Node))
  | special (dev : Nat)        -- FIFO, socket, device node: exists, is not a regular file
  | dangling                   -- a symlink whose target does not exist
  /-- an object that a directory listing shows (as a directory iff `asDir`) but on
      which every open, stat or scandir fails with errno `code` (permission denied,
      I/O error, ...); everything beneath it fails the same way -/
  | unreadable (code : Nat) (asDir : Bool)
deriving Repr, Inhabited

inductive Errno | ENOENT | ENOTDIR | EISDIR | other | code (n : Nat)
deriving DecidableEq, Repr

/-- outcomes other than a plain result -/
inductive Err
  | mismatch (path : Str)                 -- ManifestMismatch
  | incompatible                          -- ManifestIncompatibleEntry
  | crossDevice (path : Str)              -- ManifestCrossDevice
  | symlinkLoop (path : Str)              -- ManifestSymlinkLoop
  | invalidPath (path : Str)              -- ManifestInvalidPath
  | syntax                                -- ManifestSyntaxError (loading a Manifest)
  | unsigned                              -- ManifestUnsignedData
  | unsupportedHash                       -- UnsupportedHash
  | signing                               -- OpenPGPSigningFailure
  | os (e : Errno)                        -- a genuine OSError
  | internal (k : IntKind)                -- AttributeError, KeyError, IndexError, AssertionError …
  | abstain                               -- outside what the model covers (reported, never compared)
deriving DecidableEq, Repr

/-- what `os.open` / `os.fstat` find at a path -/
inductive Obj
  | absent                                -- ENOENT
  | notdir                                -- ENOTDIR: a non-directory on the way
  | file (m : FileMeta)
  | dir (dev ino : Nat) (kids : List (Str × Node))
  | special (dev : Nat)
  | fault (code : Nat)                    -- any other errno, from every call on the path
deriving Repr, Inhabited

def Node.child (kids : List (Str × Node)) (nm : Str) : Option Node :=
  (kids.find? (·.1 == nm)).map (·.2)

/-- resolve path components from a node; `.` and empty components are skipped
    as the kernel does; `..` is not modelled (`none`) -/
def Node.resolve : Node → List Str → Option Obj
  | .file m, [] => some (.file m)
  | .dir d i ks, [] => some (.dir d i ks)
  | .special d, [] => some (.special d)
  | .dangling, _ => some .absent
  | .unreadable c _, _ => some (if c == 2 then .absent else .fault c)
  | n, c :: rest =>
    if c.isEmpty || c == [46] then n.resolve rest
    else if c == [46, 46] then none
    else match n with
      | .dir _ _ ks => (match Node.child ks c with
          | none => some .absent
          | some ch => ch.resolve rest)
      | _ => some .notdir

structure World where
  root : Node
deriving Repr, Inhabited

/-- the object at a path relative to the top directory -/
def World.obj? (w : World) (p : Str) : Option Obj := w.root.resolve (comps p)

end Gemato.L1
