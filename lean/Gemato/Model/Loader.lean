import Gemato.Model.VerifyPath
/-
  `ManifestRecursiveLoader`: loading the chain of Manifests for a path, the
  lookups, and the entry dictionary (gemato/recursiveloader.py:302-595).
-/
namespace Gemato.L1

/-- `loaded_manifests`: an insertion-ordered dict path → entries -/
abbrev LoadedMs := List (Str × List Entry)

def lmGet (lm : LoadedMs) (k : Str) : Option (List Entry) := (lm.find? (·.1 == k)).map (·.2)
def lmHas (lm : LoadedMs) (k : Str) : Bool := lm.any (·.1 == k)

/-- `dict[k] = v` (an existing key keeps its position) -/
def lmSet (lm : LoadedMs) (k : Str) (v : List Entry) : LoadedMs :=
  if lmHas lm k then lm.map (fun kv => if kv.1 == k then (k, v) else kv) else lm ++ [(k, v)]

structure Loader where
  /-- file name of the top-level Manifest (relative to the top directory) -/
  top : Str
  loaded : LoadedMs
  /-- `manifest_device` (`some` in one-file-system mode) -/
  dev? : Option Nat := none
deriving Repr

/-- `ManifestLoader.verify_and_load`: check against the MANIFEST entry, then read and parse -/
def loadOne (w : World) (relpath : Str) (verifyEntry : Option Entry) : Except Err (List Entry) := do
  (match verifyEntry with
   | none => pure ()
   | some e => do
     let ok ← w.verifyPath relpath (some e) none none
     if !ok then throw (.mismatch relpath))
  match w.obj? relpath with
  | none => throw .abstain
  | some .absent => throw (.os .ENOENT)
  | some .notdir => throw (.os .ENOTDIR)
  | some (.fault k) => throw (.os (.code k))
  | some (.dir _ _ _) => throw (.os .EISDIR)
  -- with an entry to verify against the type mismatch was reported above; without one (update, create, the top-level
  -- Manifest) the type is looked at before the open (repair of finding F20: a named pipe blocked for good)
  | some (.special _) => throw (.invalidPath relpath)
  | some (.file m) =>
    match m.manifest with
    | none => throw .abstain
    -- data the codec (or the UTF-8 decoder) rejects is reported by `ManifestFile.load` as a syntax error
    -- (repair of finding F25; BadGzipFile, LZMAError, EOFError, UnicodeDecodeError escaped before)
    | some .corrupt => throw .syntax
    | some (.broken pre) =>
      -- the lines are parsed as they arrive: a syntax error in the part delivered comes first
      match loadLines {} (splitLines (univNewlines pre)) with
      | .error .syntax => throw .syntax
      | .error .unsignedData => throw .unsigned
      | .error (.internal k) => throw (.internal k)
      | .ok _ => throw .syntax
    | some (.text t) =>
      match loadFile t with
      | .ok l => pure l.entries
      | .error .syntax => throw .syntax
      | .error .unsignedData => throw .unsigned
      | .error (.internal k) => throw (.internal k)

/-- stable sort of (path, dir, entries) by length of the directory, longest first -/
def sortByDirLenDesc (xs : List (Str × Str × List Entry)) : List (Str × Str × List Entry) :=
  stableSort (fun a b => decide (a.2.1.length > b.2.1.length)) xs

/-- `_iter_manifests_for_path(path, recursive)` -/
def iterManifests (lm : LoadedMs) (path : Str) (recursive : Bool) : List (Str × Str × List Entry) :=
  sortByDirLenDesc (lm.filterMap fun (k, v) =>
    let d := dirname k
    if pathStartsWith path d then some (k, d, v)
    else if recursive && pathStartsWith d path then some (k, d, v)
    else none)

def _root_.Gemato.Entry.isManifest : Entry → Bool
  | .file .MANIFEST _ _ _ => true
  | _ => false

/-- one round of the `while True` loop: the list of (path, entry-or-None) to load -/
def toLoad (lm : LoadedMs) (path : Str) (recursive verify : Bool) : List (Str × Option Entry) :=
  (iterManifests lm path recursive).flatMap fun (cur, rel, es) =>
    es.filterMap fun e =>
      if !e.isManifest then none else
      let mpath := pjoin rel e.fullPath
      if cur == mpath || lmHas lm mpath then none else
      let mdir := dirname mpath
      if pathStartsWith path mdir || (recursive && pathStartsWith mdir path)
      then some (mpath, if verify then some e else none) else none

/-- `loaded_manifests.update(map(loader, to_load))`: loads in order, inserting as it goes -/
def loadAll (w : World) : LoadedMs → List (Str × Option Entry) → Except Err LoadedMs
  | lm, [] => .ok lm
  | lm, (p, e) :: rest =>
    match loadOne w p e with
    | .error err => .error err
    | .ok es => loadAll w (lmSet lm p es) rest

/-- `load_manifests_for_path`; `fuel` bounds the number of rounds (a Manifest
    chain that keeps producing new path strings does not terminate in the code;
    the model abstains when the fuel runs out) -/
def loadManifestsForPath (w : World) (path : Str) (recursive verify : Bool) : Nat → LoadedMs → Except Err LoadedMs
  | 0, _ => .error .abstain
  | fuel + 1, lm =>
    match toLoad lm path recursive verify with
    | [] => .ok lm
    | tl => match loadAll w lm tl with
      | .error e => .error e
      | .ok lm' => loadManifestsForPath w path recursive verify fuel lm'

def defaultFuel : Nat := 64

/-- `ManifestRecursiveLoader.__init__` (no allow_create): load the top-level Manifest -/
def openLoader (w : World) (top : Str) (xdev : Bool := true) : Except Err Loader := do
  let es ← loadOne w top none
  let dev? ← (if xdev then pure none else
    match w.obj? top with
    | some (.file m) => pure (some m.dev)
    | _ => throw .abstain)
  pure { top := top, loaded := [(top, es)], dev? := dev? }

/-- `find_path_entry(path)` on the loaded chain (first match in iteration order) -/
def findInLoaded (lm : LoadedMs) (path : Str) : Option Entry :=
  ((iterManifests lm path false).flatMap fun (_, rel, es) =>
    es.filterMap fun e =>
      match e with
      | .ignore p => if pathStartsWith path (pjoin rel p) then some e else none
      | .timestamp _ => none
      | .file .DIST _ _ _ => none
      | .file _ _ _ _ => if pjoin rel e.fullPath == path then some e else none).head?

def Loader.findPathEntry (w : World) (l : Loader) (path : Str) : Except Err (Loader × Option Entry) := do
  let lm ← loadManifestsForPath w path false true defaultFuel l.loaded
  pure ({ l with loaded := lm }, findInLoaded lm path)

/-- `verify_path(relpath)` of the loader (no device check) -/
def Loader.verifyPath (w : World) (l : Loader) (path : Str) : Except Err (Loader × Bool) := do
  let (l', e) ← l.findPathEntry w path
  let r ← w.verifyPath path e none none
  pure (l', r)

/-- `assert_path_verifies(relpath)` -/
def Loader.assertPathVerifies (w : World) (l : Loader) (path : Str) : Except Err Loader := do
  let (l', e) ← l.findPathEntry w path
  let r ← w.verifyPath path e l.dev? none
  if r then pure l' else throw (.mismatch path)

/-- `find_dist_entry(filename, relpath)` -/
def Loader.findDistEntry (w : World) (l : Loader) (filename relpath : Str) : Except Err (Loader × Option Entry) := do
  let p := relpath ++ [slash]
  let lm ← loadManifestsForPath w p false true defaultFuel l.loaded
  let r := ((iterManifests lm p false).flatMap fun (_, _, es) =>
    es.filter fun e => match e with
      | .file .DIST q _ _ => q == filename
      | _ => false).head?
  pure ({ l with loaded := lm }, r)

-- the entry dictionary ----------------------------------------------------------------
/-- `out`: directory → (file name → entry), both insertion-ordered -/
abbrev EntryDict := List (Str × List (Str × Entry))

def edGet (d : EntryDict) (dir : Str) : List (Str × Entry) := ((d.find? (·.1 == dir)).map (·.2)).getD []

def edSet (d : EntryDict) (dir name : Str) (e : Entry) : EntryDict :=
  let upd (fs : List (Str × Entry)) : List (Str × Entry) :=
    if fs.any (·.1 == name) then fs.map (fun kv => if kv.1 == name then (name, e) else kv) else fs ++ [(name, e)]
  if d.any (·.1 == dir) then d.map (fun kv => if kv.1 == dir then (dir, upd kv.2) else kv)
  else d ++ [(dir, upd [])]

/-- one iteration of the inner loop of `get_file_entry_dict` (only_types=None): entry `e` of a Manifest in directory `rel` -/
def edStep (path rel : Str) (out : EntryDict) (e : Entry) : Except Err EntryDict :=
  match e with
  | .timestamp _ => .ok out
  | .file .DIST _ _ _ => .ok out
  | _ =>
    let full := pjoin rel e.fullPath
    if !pathStartsWith full path then .ok out else
    let dirp := dirname full
    let name := basename e.fullPath
    match (edGet out dirp).find? (·.1 == name) with
    | none => .ok (edSet out dirp name e)
    | some (_, old) =>
      match entryCompat old e with
      | .error err => .error err
      | .ok (.ok extra) => .ok (edSet out dirp name (if extra then mergeEntries old e else e))
      | .ok _ => .error .incompatible

/-- the double loop of `get_file_entry_dict` -/
def entryDictFold (path : Str) (ms : List (Str × Str × List Entry)) : Except Err EntryDict :=
  ms.foldlM (fun out (_, rel, es) => es.foldlM (edStep path rel) out) []

/-- `get_file_entry_dict(path)` -/
def Loader.getFileEntryDict (w : World) (l : Loader) (path : Str) (verify : Bool := true) :
    Except Err (Loader × EntryDict) := do
  let lm ← loadManifestsForPath w path true verify defaultFuel l.loaded
  let d ← entryDictFold path (iterManifests lm path true)
  pure ({ l with loaded := lm }, d)

end Gemato.L1
