import Gemato.Model.Basic
/-
  String-level path functions: gemato/util.py `path_starts_with` /
  `path_inside_dir`, and the `os.path` functions gemato calls on relative
  POSIX paths (join, dirname, basename, relpath via normalisation).
-/
namespace Gemato

def slash : Nat := 47

/-- `path_starts_with(path, prefix)` -/
def pathStartsWith (path pre : Str) : Bool :=
  pre.isEmpty || startsWith (path ++ [slash]) (rstripSlash pre ++ [slash])

/-- `path_inside_dir(path, directory)` -/
def pathInsideDir (path dir : Str) : Bool :=
  (dir.isEmpty && !path.isEmpty) || startsWith (rstripSlash path) (rstripSlash dir ++ [slash])

/-- `os.path.join(a, b)` (two arguments) -/
def pjoin (a b : Str) : Str :=
  if isAbsPath b then b
  else if a.isEmpty || a.getLast? == some slash then a ++ b
  else a ++ slash :: b
where isAbsPath (p : Str) : Bool := p.head? == some slash

/-- index-free `rfind('/')`: split into (head including the last slash, tail) -/
def splitLastSlash (p : Str) : Str × Str :=
  let r := p.reverse
  let tailRev := r.takeWhile (· != slash)
  let headRev := r.dropWhile (· != slash)
  (headRev.reverse, tailRev.reverse)

/-- `os.path.basename` -/
def basename (p : Str) : Str := (splitLastSlash p).2

/-- `os.path.dirname` -/
def dirname (p : Str) : Str :=
  let head := (splitLastSlash p).1
  if !head.isEmpty && !head.all (· == slash) then rstripSlash head else head

/-- components of a path, `p.split('/')` -/
def comps (p : Str) : List Str := splitOn slash p

/-- `os.path.normpath` on a relative path, as component list; `none` when a
    `..` climbs above the starting point (the model abstains there) -/
def normComps (p : Str) : Option (List Str) :=
  (comps p).foldl (fun acc c =>
    match acc with
    | none => none
    | some st =>
      if c.isEmpty || c == [46] then some st
      else if c == [46, 46] then (if st.isEmpty then none else some st.dropLast)
      else some (st ++ [c])) (some [])

def joinComps : List Str → Str
  | [] => []
  | [c] => c
  | c :: d :: rest => c ++ slash :: joinComps (d :: rest)

def commonPrefixLen : List Str → List Str → Nat
  | a :: as, b :: bs => if a == b then 1 + commonPrefixLen as bs else 0
  | _, _ => 0

/-- `os.path.relpath(path, start)` for two paths relative to the same directory;
    `.` is returned for equal paths, as Python does -/
def relpath? (path start : Str) : Option Str := do
  let pl ← normComps path
  let sl ← normComps start
  let i := commonPrefixLen sl pl
  let rel := List.replicate (sl.length - i) [46, 46] ++ pl.drop i
  if rel.isEmpty then some [46] else some (joinComps rel)

/-- the idiom `relpath(..); if relpath == '.': relpath = ''` -/
def relpathOrEmpty? (path start : Str) : Option Str :=
  (relpath? path start).map fun r => if r == [46] then [] else r

/-- a normalised relative path: components non-empty, none of them `.` or `..`
    (the empty path is the top directory) -/
def Normalised (p : Str) : Prop := p = [] ∨ ∀ c ∈ comps p, c ≠ [] ∧ c ≠ [46] ∧ c ≠ [46, 46]

end Gemato
