import Gemato.Model.Update
/-
  `save_manifests` / `save_manifest` (gemato/recursiveloader.py:346-377, 706-814).
  Hashing of freshly written Manifests is not modelled: the digests of what a
  path holds *after this save wrote it* come from `post` (read back from the
  real run); a path not yet written in this save is looked up in the world as
  it was before — so the order of refresh and write is modelled faithfully.
-/
namespace Gemato.U
open Gemato.L1 Gemato.Prof

structure SaveOpts where
  hashes : List Str
  force : Bool := false
  sort : Bool := false
  watermark : Option Nat := none
  format : Str := sGz
  profile : Profile := .default
  /-- the number of bytes `gpg --clearsign` makes of the top-level Manifest (header, dash-escapes and signature
      included): what `f.buffer.tell()` reports for a signed Manifest and the watermark is compared with.
      Read back from the real run, like `post`; `none` = not signed in this scenario. -/
  signedSize : Option Nat := none
deriving Repr

inductive Write
  /-- a Manifest written: its path, the dumped entries (uncompressed; the suffix tells the codec), and whether
      that text is wrapped into an OpenPGP cleartext signature -/
  | file (path : Str) (text : Str) (signed : Bool)
  | unlink (path : Str)
deriving Repr, DecidableEq

def utf8Len (t : Str) : Nat :=
  t.foldl (fun n c => n + (if c < 0x80 then 1 else if c < 0x800 then 2 else if c < 0x10000 then 3 else 4)) 0

/-- `get_compressed_suffix_from_filename`: the extension without its dot, if it is one of the four -/
def compressedSuffix? (p : Str) : Option Str :=
  let base := basename p
  let exts : List Str := [[46, 103, 122], [46, 98, 122, 50], [46, 108, 122, 109, 97], [46, 120, 122]]
  (exts.find? fun e => endsWith base e && base.length > e.length).map (·.drop 1)

structure SSt where
  st : St
  fixed : List Str := []
  renamed : List (Str × Str) := []
  written : List Str := []              -- paths holding content written by this save
  writes : List Write := []

def hasEbuildEntry (es : List IEntry) : Bool := es.any fun ie => match ie.2 with | .file .EBUILD _ _ _ => true | _ => false

/-- the object a MANIFEST entry is refreshed from: what this save wrote there, else what was there before -/
def objForRefresh (w : World) (post : Str → Option FileMeta) (ss : SSt) (p : Str) : Except Err Obj :=
  if ss.written.contains p then
    match post p with
    | some m => .ok (.file m)
    | none => .error .abstain
  else objAt w p

/-- the size `want_compressed_manifest` is asked about: what was written, i.e. the signed message for a signed Manifest -/
def uncSizeFor (o : SaveOpts) (sg : Bool) (text : Str) : Nat :=
  if sg then o.signedSize.getD (utf8Len text) else utf8Len text

/-- `save_manifest`'s sign decision with `ManifestFile.dump`'s default: only the Manifest that currently is
    the top-level one is ever signed - when signing is requested, or not disabled and it was loaded signed -/
def signFor (s : St) (mp : Str) : Bool :=
  if mp == s.top then s.signOpt.getD s.topSigned else false

/-- the part of `saveOne` after the MANIFEST entries were refreshed: write, then maybe rename -/
def writeStep (o : SaveOpts) (ss1 : SSt) (mp : Str) : SSt :=
  let es := ss1.st.entriesOf mp
  let es' := if o.sort then stableSort (fun a b => entryLt a.2 b.2) es else es
  let text := dumpEntries false (es'.map (·.2))
  let sg := signFor ss1.st mp
  let ss2 : SSt := { ss1 with st := ss1.st.setIds mp (es'.map (·.1)), written := setAdd ss1.written mp,
                              writes := ss1.writes ++ [.file mp text sg] }
  match o.watermark with
  | none => ss2
  | some wm =>
    let compr := compressedSuffix? mp
    let want := wantCompressed o.profile mp (hasEbuildEntry es') (uncSizeFor o sg text) wm
    if compr.isSome == want then ss2
    else
      let newMp := if want then mp ++ 46 :: o.format else mp.take (mp.length - ((compr.getD []).length + 1))
      -- never onto another Manifest in use (repair of finding F8: `Manifest.xz` renamed onto an unrelated `Manifest` of the
      -- same directory lost one Manifest's content and left two MANIFEST entries naming one file)
      if ss2.st.loaded.any (·.1 == newMp) then ss2
      else
      let st' : St := { ss2.st with
        -- the renamed Manifest keeps its position in the load order (repair of finding F29: re-inserted at the
        -- end, a later save of the same loader processed it before a same-directory Manifest it references)
        loaded := ss2.st.loaded.map (fun kv => if kv.1 == mp then (newMp, es'.map (·.1)) else kv),
        top := if ss2.st.top == mp then newMp else ss2.st.top }
      { ss2 with st := st', renamed := ss2.renamed ++ [(mp, newMp)],
                 written := setAdd (ss2.written.filter (· != mp)) newMp,
                 -- the renamed top-level Manifest is the top-level Manifest when it is written
                 -- (repair of finding F23: the name was switched only after the write, which lost the signature)
                 writes := ss2.writes ++ [.file newMp text (signFor st' newMp), .unlink mp] }

/-- refresh one entry of the Manifest being saved, if it is a MANIFEST entry whose target was updated -/
def refreshStep (w : World) (post : Str → Option FileMeta) (o : SaveOpts) (mp rel : Str) (acc : SSt) (ie : IEntry) :
    Except Err SSt :=
  match ie.2 with
  | .file .MANIFEST p n c =>
    let full := pjoin rel p
    if !o.force && !acc.st.updated.contains full then .ok acc
    else
      let (full', p') : Str × Option Str :=
        match acc.renamed.find? (·.1 == full) with
        | some (_, nw) => (nw, relpath? nw rel)
        | none => (full, some p)
      match p' with
      | none => .error .abstain
      | some pnew =>
        match objForRefresh w post acc full' with
        | .error e => .error e
        | .ok ob =>
          match refreshEntry ob full' (.file .MANIFEST pnew n c) (some o.hashes) acc.st.dev? none with
          | .error e => .error e
          | .ok (e', _) =>
            .ok { acc with
              st := (acc.st.setVal ie.1 e').markUpdated mp,
              fixed := setAdd acc.fixed full' }
  | _ => .ok acc

def saveOne (w : World) (post : Str → Option FileMeta) (o : SaveOpts) (ss : SSt) (mp rel : Str) : Except Err SSt :=
  -- refresh the MANIFEST entries of this Manifest whose target was updated
  match foldE (refreshStep w post o mp rel) ss (ss.st.entriesOf mp) with
  | .error e => .error e
  | .ok ss1 =>
    if !(o.force || ss1.st.updated.contains mp) then .ok ss1
    -- `clear_sign_file`: a failing gpg raises OpenPGPSigningFailure; nothing unsigned is written instead
    else if signFor ss1.st mp && !ss1.st.keyUsable then .error .signing
    else .ok (writeStep o ss1 mp)

/-- the Manifests of `x`'s own directory that its MANIFEST entries refer to, in entry order -/
def sameDirRefsOf (x : Str × Str × List Entry) : List Str :=
  x.2.2.filterMap fun e =>
    match e with
    | .file .MANIFEST p _ _ =>
      let full := pjoin x.2.1 p
      if dirname full == x.2.1 then some full else none
    | _ => none

/-- the accumulator of `queue_manifest`: the order built so far, and the paths queued -/
abbrev QAcc := List (Str × Str × List Entry) × List Str

/-- one reference of the Manifest being queued: `if fullpath in by_path …: queue_manifest(by_path[fullpath])` -/
def queueStep (all : List (Str × Str × List Entry)) (recur : QAcc → (Str × Str × List Entry) → QAcc)
    (a : QAcc) (r : Str) : QAcc :=
  match all.find? (·.1 == r) with
  | some y => recur a y
  | none => a

/-- `queue_manifest(kdv)` (gemato/recursiveloader.py, in `save_manifests`): the Manifests of the same
    directory that `x` references are queued first, then `x` itself; the fuel bounds the recursion depth
    (at most one level per loaded Manifest) -/
def queueManifest (all : List (Str × Str × List Entry)) : Nat → QAcc → (Str × Str × List Entry) → QAcc
  | 0, acc, _ => acc
  | fuel + 1, acc, x =>
    if acc.2.contains x.1 then acc
    else
      let acc1 := (sameDirRefsOf x).foldl (queueStep all (queueManifest all fuel)) (acc.1, x.1 :: acc.2)
      (acc1.1 ++ [x], acc1.2)

/-- the order in which `save_manifests` visits the loaded Manifests: deepest directory first, within
    one directory in *reverse* load order (repair of finding F16), and then every Manifest referenced
    from its own directory moved before its referrer explicitly (repair of finding F30: it can have
    been loaded first when yet another Manifest lists it too), so that a Manifest referenced by a
    sibling is written before the sibling's entry for it is refreshed -/
def saveOrder (lm : LoadedMs) : List (Str × Str × List Entry) :=
  let byDepth := sortByDirLenDesc ((lm.map fun (k, v) => (k, dirname k, v)).reverse)
  (byDepth.foldl (queueManifest byDepth (byDepth.length + 1)) ([], [])).1

/-- `save_manifests(...)`; the final assertion ("Unlinked but updated Manifests") is the internal error -/
def saveAll (w : World) (post : Str → Option FileMeta) (s : St) (o : SaveOpts) : Except Err (St × List Write) :=
  let s0 : Except Err St := if o.force then s.load w [] true true else .ok s
  match s0 with
  | .error e => .error e
  | .ok s1 =>
    match foldE (fun (ss : SSt) (kdv : Str × Str × List Entry) => saveOne w post o ss kdv.1 kdv.2.1)
        { st := s1 } (saveOrder s1.plain) with
    | .error e => .error e
    | .ok ss =>
      let left := ss.st.updated.filter fun u =>
        !ss.fixed.contains u && !(ss.renamed.any (·.1 == u)) && u != ss.st.top
      if !left.isEmpty then .error (.internal .assertion)
      else .ok ({ ss.st with updated := [] }, ss.writes)

/-- `ManifestRecursiveLoader(top, allow_create=…)` for update-class commands -/
def openForUpdate (w : World) (top : Str) (allowCreate : Bool) (profile : Profile) (xdev : Bool := true) : Except Err St :=
  match loadOne w top none with
  | .ok es =>
    (match w.obj? top with
     | some (.file m) => .ok { (({ top := top, loaded := [] } : St).sync [(top, es)]) with dev? := if xdev then none else some m.dev }
     | _ => .error .abstain)
  | .error (.os .ENOENT) =>
    if !allowCreate then .error (.os .ENOENT)
    else
      let igs := if top == sManifest then (ignorePaths profile []).map Entry.ignore else []
      (match w.obj? (dirname top) with
       | some (.dir d _ _) =>
         .ok { (({ top := top, loaded := [] } : St).sync [(top, igs)]) with updated := [top], dev? := if xdev then none else some d }
       | _ => .error .abstain)
  | .error e => .error e

end Gemato.U
