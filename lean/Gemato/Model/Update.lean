import Gemato.Model.VerifyDir
import Gemato.Model.Profile
/-
  `update_entries_for_directory` with its helpers (`load_unregistered_manifests`,
  `get_deduplicated_file_entry_dict_for_update`, `update_entry_for_path`) and
  `save_manifests` (gemato/recursiveloader.py:706-814, 926-1318; verify.py:219-286).
  Entries carry an identity (Python object identity) because the code removes
  entries with `list.remove` (first *equal* element) and mutates kept ones in place.
-/
namespace Gemato.U
open Gemato.L1 Gemato.Prof

abbrev IEntry := Nat × Entry

structure St where
  top : Str
  /-- every entry object ever created: identity → current value (an entry removed from its
      Manifest's list may still be referenced, and updated, through the entry dict) -/
  heap : List IEntry := []
  loaded : List (Str × List Nat)          -- `loaded_manifests`, insertion ordered: the identities in each list
  updated : List Str := []                -- `updated_manifests`
  nextId : Nat := 0
  dev? : Option Nat := none
  /-- the loader's `sign_openpgp` option: `none` = keep what the top-level Manifest had -/
  signOpt : Option Bool := none
  /-- `openpgp_signed` of the top-level Manifest object: loaded with a verified signature -/
  topSigned : Bool := false
  /-- whether `gpg --clearsign` with the configured key succeeds -/
  keyUsable : Bool := true
deriving Repr

def St.val (s : St) (id : Nat) : Option Entry := (s.heap.find? (·.1 == id)).map (·.2)

def St.setVal (s : St) (id : Nat) (e : Entry) : St :=
  { s with heap := s.heap.map fun ie => if ie.1 == id then (id, e) else ie }

def St.idsOf (s : St) (mp : Str) : List Nat := ((s.loaded.find? (·.1 == mp)).map (·.2)).getD []

/-- the entries of a Manifest, with their identities, in list order -/
def St.entriesOf (s : St) (mp : Str) : List IEntry := (s.idsOf mp).filterMap fun id => (s.val id).map fun e => (id, e)

def St.plain (s : St) : LoadedMs := s.loaded.map fun (k, _) => (k, (s.entriesOf k).map (·.2))

def setAdd (l : List Str) (x : Str) : List Str := if l.contains x then l else l ++ [x]

def St.markUpdated (s : St) (mp : Str) : St := { s with updated := setAdd s.updated mp }

def St.setIds (s : St) (mp : Str) (ids : List Nat) : St :=
  if s.loaded.any (·.1 == mp) then { s with loaded := s.loaded.map fun kv => if kv.1 == mp then (mp, ids) else kv }
  else { s with loaded := s.loaded ++ [(mp, ids)] }

/-- create a new entry object and append it to a Manifest's list -/
def St.append (s : St) (mp : Str) (e : Entry) : St :=
  let id := s.nextId
  ({ s with nextId := id + 1, heap := s.heap ++ [(id, e)] }).setIds mp (s.idsOf mp ++ [id])

/-- after a call of the plain loader: Manifests that are new get entry objects -/
def St.sync (s : St) (lm : LoadedMs) : St :=
  lm.foldl (fun (acc : St) (kv : Str × List Entry) =>
    if acc.loaded.any (·.1 == kv.1) then acc
    else
      let ids := (List.range kv.2.length).map (· + acc.nextId)
      { acc with loaded := acc.loaded ++ [(kv.1, ids)], heap := acc.heap ++ ids.zip kv.2,
                 nextId := acc.nextId + kv.2.length }) s

/-- `load_manifests_for_path(path, recursive, verify=False)` on the identified state -/
def St.load (w : World) (s : St) (path : Str) (recursive verify : Bool) : Except Err St :=
  match loadManifestsForPath w path recursive verify defaultFuel s.plain with
  | .error e => .error e
  | .ok lm => .ok (s.sync lm)

/-- `list.remove(x)`: drop the first element *equal* to `x` (ValueError if none) -/
def St.removeFirstEq (s : St) (mp : Str) (x : Entry) : Option St :=
  let rec go : List Nat → Option (List Nat)
    | [] => none
    | id :: rest => if s.val id == some x then some rest else (go rest).map (id :: ·)
  (go (s.idsOf mp)).map fun ids => s.setIds mp ids

-- update_entry_for_path ----------------------------------------------------------------

/-- the digests of the file for the requested names (sorted by name, as `get_file_metadata` does) -/
def freshCks (m : FileMeta) (hashes : List Str) : Except Err (List (Str × Str)) :=
  if hashes.any (fun h => (Hash.hashlibName? h).isNone) then .error .unsupportedHash
  else if hashes.any (fun h => (m.digests.find? (·.1 == h)).isNone) then .error .abstain
  else .ok (hashes.foldl (fun acc h => match m.digests.find? (·.1 == h) with
      | some (_, v) => ckInsert h v acc
      | none => acc) [])

/-- `update_entry_for_path(path, e, hashes, expected_dev, last_mtime)` on the object found;
    returns the refreshed entry and whether anything changed. `hashes = none` = keep the entry's own names. -/
def refreshEntry (o : Obj) (path : Str) (e : Entry) (hashes : Option (List Str)) (dev? : Option Nat)
    (lastMtime : Option Int) : Except Err (Entry × Bool) :=
  match e with
  | .timestamp _ => .error (.internal .assertion)
  | .ignore _ => .error (.internal .assertion)
  | .file t p esize cks =>
    match o with
    | .notdir => .error (.os .ENOTDIR)
    | .fault k => .error (.os (.code k))
    | .absent => .error (.invalidPath path)
    | .dir d _ _ => if devBad dev? d then .error (.crossDevice path) else .error (.invalidPath path)
    | .special d => if devBad dev? d then .error (.crossDevice path) else .error (.invalidPath path)
    | .file m =>
      if devBad dev? m.dev then .error (.crossDevice path)
      else if mtimeSkip m lastMtime && m.stSize == esize then .ok (e, false)
      else
        match freshCks m (hashes.getD (cks.map (·.1))) with
        | .error err => .error err
        | .ok newCks =>
          if m.stSize != 0 && m.stSize != m.size then .error (.internal .assertion)
          else if esize != m.size || cks != newCks then .ok (.file t p m.size newCks, true)
          else .ok (e, false)

def objAt (w : World) (p : Str) : Except Err Obj :=
  match w.obj? p with
  | none => .error .abstain
  | some o => .ok o

-- options -------------------------------------------------------------------------------
structure Opts where
  hashes : List Str
  profile : Profile := .default
  lastMtime : Option Int := none
deriving Repr

/-- the five candidate names of a top-level Manifest, `get_potential_compressed_names('Manifest')` -/
def manifestNames : List Str :=
  [sManifest, sManifest ++ [46, 103, 122], sManifest ++ [46, 98, 122, 50], sManifest ++ [46, 108, 122, 109, 97],
   sManifest ++ [46, 120, 122]]

-- load_unregistered_manifests -------------------------------------------------------------

/-- only the IGNORE entries of `get_file_entry_dict(path, only_types=['IGNORE'], verify_manifests=False)` -/
def ignoreDict (path : Str) (ms : List (Str × Str × List Entry)) : Except Err EntryDict :=
  entryDictFold path (ms.map fun (k, d, es) => (k, d, es.filter (·.isIgnore)))

structure ScanSt where
  st : St
  ids : List (Str × List (Nat × Nat)) := []
  newManifests : List Str := []

/-- try to load an unregistered Manifest: syntax errors and invalid compressed data are passed over -/
def tryLoadUnregistered (w : World) (s : St) (fpath : Str) : Except Err (St × Bool) :=
  match loadOne w fpath none with
  | .ok es => .ok ((s.sync [(fpath, es)]), true)
  | .error .syntax => .ok (s, false)
  | .error e => .error e

/-- `not S_ISREG(os.stat(path).st_mode)` on something `os.walk` listed among the files: a named pipe, socket or device
    (a dangling link or an unreadable object make the `stat` itself - as before the `open` - raise) -/
def isSpecialAt (w : World) (p : Str) : Bool :=
  match w.obj? p with
  | some (.special _) => true
  | _ => false

/-- one candidate Manifest name in a scanned directory: `for m in manifest_filenames: if m in filenames: …` -/
def scanNameStep (w : World) (rel : Str) (filenames : List Str) (acc : ScanSt) (mname : Str) : Except Err ScanSt :=
  if !filenames.contains mname then .ok acc
  else
    let fpath := pjoin rel mname
    if acc.st.loaded.any (·.1 == fpath) then .ok acc
    -- only a regular file can be a Manifest: anything else (a named pipe, a socket, a dangling link) is left to the walk,
    -- which reports it like any other non-regular object (repair of finding F20: opening a FIFO blocked for good)
    else if isSpecialAt w fpath then .ok acc
    else match tryLoadUnregistered w acc.st fpath with
      | .error e => .error e
      | .ok (st', true) => .ok { acc with st := st', newManifests := acc.newManifests ++ [fpath] }
      | .ok (st', false) => .ok { acc with st := st' }

def scanDir (w : World) (ed : EntryDict) (ss : ScanSt) (sysPath rel : Str) (dev ino : Nat) (kids : List (Str × Node)) :
    Except Err (ScanSt × List Str) :=
  if devBad ss.st.dev? dev then .error (.crossDevice sysPath)
  else
    let parentIds := ((ss.ids.find? (·.1 == dirname sysPath)).map (·.2)).getD []
    if parentIds.contains (dev, ino) then .error (.symlinkLoop sysPath)
    else
      let dirdict := edGet ed rel
      let dirnames := (kids.filter (·.2.isDirNode)).map (·.1)
      let filenames := (kids.filter (!·.2.isDirNode)).map (·.1)
      let keep := dirnames.filter fun d => !isHidden d && (ddGet dirdict d).isNone
      let ids' := if keep.isEmpty then ss.ids else (ss.ids.filter (·.1 != sysPath)) ++ [(sysPath, parentIds ++ [(dev, ino)])]
      let ss1 : ScanSt := { ss with ids := ids' }
      match foldE (scanNameStep w rel filenames) ss1 manifestNames with
      | .error e => .error e
      | .ok ss2 => .ok (ss2, keep)

mutual
def scanWalk (w : World) (ed : EntryDict) (ss : ScanSt) (sysPath rel : Str) : Node → Except Err ScanSt
  | .dir dev ino kids =>
    match scanDir w ed ss sysPath rel dev ino kids with
    | .error e => .error e
    | .ok (ss', keep) => scanKids w ed ss' sysPath rel keep kids
  | .unreadable k true => .error (.os (.code k))
  | _ => .ok ss
def scanKids (w : World) (ed : EntryDict) (ss : ScanSt) (sysPath rel : Str) (keep : List Str) :
    List (Str × Node) → Except Err ScanSt
  | [] => .ok ss
  | (nm, ch) :: rest =>
    if keep.contains nm then
      match scanWalk w ed ss (pjoin sysPath nm) (relJoin rel nm) ch with
      | .error e => .error e
      | .ok ss' => scanKids w ed ss' sysPath rel keep rest
    else scanKids w ed ss sysPath rel keep rest
end

def sysTop (rel : Str) : Str := if rel.isEmpty then sysRoot else sysRoot ++ slash :: rel

/-- `load_unregistered_manifests(path, verify_manifests=False)` -/
def loadUnregistered (w : World) (s : St) (path : Str) : Except Err (St × List Str) :=
  match s.load w path true false with
  | .error e => .error e
  | .ok s1 =>
    match ignoreDict path (iterManifests s1.plain path true) with
    | .error e => .error e
    | .ok ed =>
      match relpathOrEmpty? path [] with
      | none => .error .abstain
      | some rel =>
        match w.obj? path with
        | none => .error .abstain
        | some (.dir d i ks) =>
          (match scanWalk w ed { st := s1 } (sysTop rel) rel (.dir d i ks) with
           | .error e => .error e
           | .ok ss => .ok (ss.st, ss.newManifests))
        | some .absent => .error (.os .ENOENT)
        | some (.fault k) => .error (.os (.code k))
        | some _ => .error (.os .ENOTDIR)

-- get_deduplicated_file_entry_dict_for_update ------------------------------------------------

/-- `out`: full path → (manifest path, identity of the kept entry) -/
abbrev UDict := List (Str × Str × Nat)

def udGet (d : UDict) (k : Str) : Option (Str × Nat) := (d.find? (·.1 == k)).map (·.2)

/-- `dict.update` of the kept entry's checksums with the duplicate's (a kept IGNORE
    entry has no checksums: nothing to merge — repair of the second site of finding F15) -/
def mergeInto (kept dup : Entry) : Except Err Entry :=
  match kept, dup with
  | .file t p n c, .file _ _ _ c2 => .ok (.file t p n (c2.foldl (fun acc kv => ckInsert kv.1 kv.2 acc) c))
  | .ignore p, _ => .ok (.ignore p)
  | k, _ => .ok k

structure DedupSt where
  st : St
  out : UDict := []

/-- one entry of a Manifest in the de-duplication loop: the first entry for a path is kept, a later one is merged
    into it and queued for removal -/
def dedupEntryStep (path mp rel : Str) (acc : DedupSt × List Entry) (ie : IEntry) : Except Err (DedupSt × List Entry) :=
  let (ds, toRemove) := acc
  match ie.2 with
  | .timestamp _ => .ok acc
  | .file .DIST _ _ _ => .ok acc
  | e =>
    let full := pjoin rel e.fullPath
    if !pathStartsWith full path then .ok acc
    else match udGet ds.out full with
      | none => .ok ({ ds with out := ds.out ++ [(full, mp, ie.1)] }, toRemove)
      | some (_kmp, kid) =>
        -- the kept entry as it is now
        match ds.st.val kid with
        | none => .error (.internal .other)
        | some kept =>
          match entryCompat kept e with
          | .error err => .error err
          | .ok .typeMismatch => .error .incompatible
          | .ok _ =>
            match mergeInto kept e with
            | .error err => .error err
            | .ok kept' =>
              .ok ({ ds with st := ds.st.setVal kid kept' }, toRemove ++ [e])

/-- `m.entries.remove(e)` -/
def dedupRemoveStep (mp : Str) (cur : St) (x : Entry) : Except Err St :=
  match cur.removeFirstEq mp x with
  | none => .error (.internal .valueError)
  | some r => .ok r

/-- the body for one Manifest -/
def dedupManifest (path : Str) (ds : DedupSt) (mp rel : Str) : Except Err DedupSt :=
  match foldE (dedupEntryStep path mp rel) (ds, []) (ds.st.entriesOf mp) with
  | .error e => .error e
  | .ok (ds1, toRemove) =>
    if toRemove.isEmpty then .ok ds1
    else
      -- `for e in entries_to_remove: m.entries.remove(e)`
      match foldE (dedupRemoveStep mp) ds1.st toRemove with
      | .error e => .error e
      | .ok st' => .ok { ds1 with st := st'.markUpdated mp }

def dedupDict (w : World) (s : St) (path : Str) : Except Err (St × UDict) :=
  match s.load w path true false with
  | .error e => .error e
  | .ok s1 =>
    match foldE (fun (ds : DedupSt) (kdv : Str × Str × List Entry) => dedupManifest path ds kdv.1 kdv.2.1)
        { st := s1 } (iterManifests s1.plain path true) with
    | .error e => .error e
    | .ok ds => .ok (ds.st, ds.out)

-- the update walk -----------------------------------------------------------------------------

structure WSt where
  st : St
  ud : UDict
  stack : List (Str × Str)                -- manifest_stack: (manifest path, its directory)
  ids : List (Str × List (Nat × Nat)) := []

def udPop (d : UDict) (k : Str) : Option (Str × Nat) × UDict := (udGet d k, d.filter (·.1 != k))

/-- pop the stack until the directory is below the top-most Manifest's directory
    (IndexError when the stack runs empty) -/
def popRev (rel : Str) : List (Str × Str) → Except Err (List (Str × Str))
  | [] => .error (.internal .index)
  | (mp, md) :: rest => if pathStartsWith rel md then .ok ((mp, md) :: rest) else popRev rel rest

def popStack (rel : Str) (stack : List (Str × Str)) : Except Err (List (Str × Str)) :=
  match popRev rel stack.reverse with
  | .error e => .error e
  | .ok r => .ok r.reverse

structure NewEntry where
  e : Entry                -- with the path relative to the top directory for now
  isManifest : Bool

/-- the climb of a new MANIFEST entry to the Manifest one level up: `manifest_stack[i]` with
    `i` decreasing from -1 while the Manifest's directory equals the new Manifest's own -/
def climb (stack : List (Str × Str)) (ownDir : Str) : Except Err (Str × Str) :=
  match (stack.reverse.dropWhile fun x => x.2 == ownDir).head? with
  | some x => .ok x
  | none => .error (.internal .index)

/-- `find_path_entry(path)` on the identified state: the first matching entry object, with its Manifest -/
def findIdInLoaded (s : St) (path : Str) : Option (Str × Nat × Entry) :=
  ((iterManifests s.plain path false).flatMap fun (k, rel, _) =>
    (s.entriesOf k).filterMap fun ie =>
      match ie.2 with
      | .ignore p => if pathStartsWith path (pjoin rel p) then some (k, ie.1, ie.2) else none
      | .timestamp _ => none
      | .file .DIST _ _ _ => none
      | .file _ _ _ _ => if pjoin rel ie.2.fullPath == path then some (k, ie.1, ie.2) else none).head?

/-- `while old is not None and old.tag != 'IGNORE': … om.entries = [x for x in om.entries if x is not old] …`:
    drop every file-entry object `find_path_entry(iep)` still finds, from each Manifest applying to `iep` that
    holds it (and its pending item of the update dict: `entry_dict.pop(iep, None)`); the result says whether an IGNORE
    entry covers the path in the end, and whether anything was dropped -/
def dropOldEntries (w : World) (iep : Str) : Nat → St → Bool → Except Err (St × Bool × Bool)
  | 0, s, dropped => match findIdInLoaded s iep with
    | none => .ok (s, false, dropped)
    | some (_, _, .ignore _) => .ok (s, true, dropped)
    | some _ => .error .abstain
  | fuel + 1, s, dropped =>
    match findIdInLoaded s iep with
    | none => .ok (s, false, dropped)
    | some (_, _, .ignore _) => .ok (s, true, dropped)
    | some (_, id, _) =>
      let s' := (iterManifests s.plain iep false).foldl (fun (acc : St) (kdv : Str × Str × List Entry) =>
        if (acc.idsOf kdv.1).contains id then (acc.setIds kdv.1 ((acc.idsOf kdv.1).filter (· != id))).markUpdated kdv.1
        else acc) s
      match s'.load w iep false true with
      | .error e => .error e
      | .ok s'' => dropOldEntries w iep fuel s'' true

def isFileNode : Node → Bool
  | .dir _ _ _ => false
  | _ => true

/-- `for d in dirnames`: hidden directories are skipped; a directory with an IGNORE entry is not scanned; any other
    entry for a directory makes `update_entry_for_path` raise -/
def updDirsStep (w : World) (o : Opts) (st : St) (rel : Str) (acc : UDict × List Str) (d : Str) : Except Err (UDict × List Str) :=
  if isHidden d then .ok acc
  else
    let (hit, ud') := udPop acc.1 (pjoin rel d)
    match hit with
    | none => .ok (ud', acc.2 ++ [d])
    | some (_mp, id) =>
      match st.val id with
      | none => .error (.internal .other)
      | some (.ignore _) => .ok (ud', acc.2)
      | some de =>
        match objAt w (pjoin rel d) with
        | .error e => .error e
        | .ok ob => match refreshEntry ob (pjoin rel d) de (some o.hashes) st.dev? none with
          | .error e => .error e
          | .ok _ => .error (.internal .assertion)

/-- `for f in filenames`: a listed file is refreshed in place (a MANIFEST entry pushes its Manifest on the stack), an
    IGNOREd one skipped, an unlisted one gets a new entry (collected in `news`) -/
def updFilesStep (w : World) (o : Opts) (newMs : List Str) (rel : Str)
    (acc : St × UDict × List (Str × Str) × List NewEntry) (f : Str) : Except Err (St × UDict × List (Str × Str) × List NewEntry) :=
  let (st, ud, stack, news) := acc
  if isHidden f then .ok acc
  else
    let fpath := pjoin rel f
    let (hit, ud') := udPop ud fpath
    match hit with
    | some (mp, id) =>
      (match st.val id with
       | none => .error (.internal .other)
       | some (.ignore _) => .ok (st, ud', stack, news)
       | some fe =>
         (if fe.isManifest && !(st.loaded.any (·.1 == fpath)) then .error (.internal .key) else
         let stack' := if fe.isManifest then stack ++ [(fpath, rel)] else stack
         match objAt w fpath with
         | .error e => .error e
         | .ok ob => match refreshEntry ob fpath fe (some o.hashes) st.dev? o.lastMtime with
           | .error e => .error e
           | .ok (fe', changed) =>
             let st1 := st.setVal id fe'
             .ok (if changed then st1.markUpdated mp else st1, ud', stack', news)))
    | none =>
      if manifestNames.contains fpath then .ok (st, ud', stack, news)
      else
        let isNewM := newMs.contains fpath
        (if isNewM && !(st.loaded.any (·.1 == fpath)) then .error (.internal .key) else
        let stack' := if isNewM then stack ++ [(fpath, rel)] else stack
        let tag := if isNewM then FTag.MANIFEST else entryType o.profile fpath
        -- `new_manifest_entry(ftype, fpath, 0, {})`; for AUX the given path is the aux_path
        let fe0 : Entry := .file tag fpath 0 []
        match objAt w fpath with
        | .error e => .error e
        | .ok ob => match refreshEntry ob fpath fe0 (some o.hashes) st.dev? o.lastMtime with
          | .error e => .error e
          | .ok (fe', _) => .ok (st, ud', stack', news ++ [{ e := fe', isManifest := isNewM }]))

/-- one default IGNORE path of a new Manifest: the accumulator holds the state, the paths that got an IGNORE entry
    and the paths whose old entries were dropped -/
def updIgnoreStep (w : World) (rel mp : Str) (acc : St × List Str × List Str) (ip : Str) : Except Err (St × List Str × List Str) :=
  let iep := pjoin rel ip
  match acc.1.load w iep false true with
  | .error e => .error e
  | .ok st' =>
    -- repair of finding F26 (was `raise NotImplementedError`): the old file entries of the
    -- now-ignored path are removed from the parent Manifests, by identity; a path that a
    -- parent Manifest IGNOREs gets no second IGNORE
    match dropOldEntries w iep st'.heap.length st' false with
    | .error e => .error e
    | .ok (st'', true, dr) => .ok (st'', acc.2.1, if dr then acc.2.2 ++ [iep] else acc.2.2)
    | .ok (st'', false, dr) =>
      .ok (st''.append mp (Entry.ignore ip), acc.2.1 ++ [iep], if dr then acc.2.2 ++ [iep] else acc.2.2)

/-- a new Manifest for the directory when the profile wants one and none is on the stack for it: `create_manifest`
    (an existing file there is loaded - and may fail to parse -, else a new empty one), then its default IGNOREs -/
def updNewManifest (w : World) (o : Opts) (rel : Str) (st2 : St) (stack2 : List (Str × Str)) (news2 : List NewEntry) :
    Except Err (St × List (Str × Str) × List NewEntry × List Str × List Str) :=
  let mp := pjoin rel sManifest
  let created : Except Err St :=
    match loadOne w mp none with
    | .ok es => .ok (st2.sync [(mp, es)])
    | .error (.os .ENOENT) => .ok ((st2.sync [(mp, [])]).markUpdated mp)
    | .error e => .error e
  match created with
  | .error e => .error e
  | .ok st3 =>
    match foldE (updIgnoreStep w rel mp) (st3, [], []) (ignorePaths o.profile rel) with
    | .error e => .error e
    | .ok (st4, newIgn, dropped) =>
      .ok (st4, stack2 ++ [(mp, rel)], news2 ++ [{ e := Entry.file .MANIFEST mp 0 [], isManifest := true }], newIgn, dropped)

/-- placing one new entry: a MANIFEST entry climbs to the Manifest one level up, any other goes into the Manifest on
    top of the stack (an AUX entry outside `files/` of that Manifest becomes DATA) -/
def updPlaceStep (stack5 : List (Str × Str)) (mpath mdir : Str) (newIgn : List Str) (st : St) (ne : NewEntry) : Except Err St :=
  let fpath := match ne.e with | .file _ p _ _ => p | _ => []
  if newIgn.contains fpath then .ok st
  else match ne.e with
    | .file .MANIFEST p n c =>
      (match climb stack5 (dirname p) with
       | .error e => .error e
       | .ok (mmp, mmdir) =>
         match relpath? p mmdir with
         | none => .error .abstain
         | some rp => .ok ((st.append mmp (Entry.file .MANIFEST rp n c)).markUpdated mmp))
    | .file t p n c =>
      (match relpath? p mdir with
       | none => .error .abstain
       | some rp =>
         let e' : Entry :=
           if t == .AUX then
             (if pathInsideDir rp sFiles then Entry.file .AUX (rp.drop 6) n c else Entry.file .DATA rp n c)
           else Entry.file t rp n c
         .ok (st.append mpath e'))
    | _ => .ok st

def updateDirStep (w : World) (o : Opts) (newMs : List Str) (ws : WSt) (sysPath rel : Str) (dev ino : Nat)
    (kids : List (Str × Node)) : Except Err (WSt × List Str) :=
  if devBad ws.st.dev? dev then .error (.crossDevice sysPath)
  else
    let parentIds := ((ws.ids.find? (·.1 == dirname sysPath)).map (·.2)).getD []
    if parentIds.contains (dev, ino) then .error (.symlinkLoop sysPath)
    else
    match popStack rel ws.stack with
    | .error e => .error e
    | .ok stack0 =>
    let dirnames := (kids.filter (·.2.isDirNode)).map (·.1)
    let filenames := (kids.filter (!·.2.isDirNode)).map (·.1)
    let wantM := wantManifest o.profile rel dirnames filenames
    match foldE (updDirsStep w o ws.st rel) (ws.ud, []) dirnames with
    | .error e => .error e
    | .ok (ud1, keep) =>
    let ids' := if keep.isEmpty then ws.ids else (ws.ids.filter (·.1 != sysPath)) ++ [(sysPath, parentIds ++ [(dev, ino)])]
    match foldE (updFilesStep w o newMs rel) (ws.st, ud1, stack0, []) filenames with
    | .error e => .error e
    | .ok (st2, ud2, stack2, news2) =>
    -- a new Manifest for this directory?
    let needNew := wantM && (stack2.getLast?.map (·.2)) != some rel
    let mkNew : Except Err (St × List (Str × Str) × List NewEntry × List Str × List Str) :=
      if !needNew then .ok (st2, stack2, news2, [], []) else updNewManifest w o rel st2 stack2 news2
    match mkNew with
    | .error e => .error e
    | .ok (st5, stack5, news5, newIgn, dropped) =>
    let ud2 := ud2.filter fun kv => !dropped.contains kv.1
    -- place the new entries
    if news5.isEmpty then .ok ({ ws with st := st5, ud := ud2, stack := stack5, ids := ids' }, keep)
    else
      match stack5.getLast? with
      | none => .error (.internal .index)
      | some (mpath, mdir) =>
        match foldE (updPlaceStep stack5 mpath mdir newIgn) st5 news5 with
        | .error e => .error e
        | .ok st6 => .ok ({ ws with st := st6.markUpdated mpath, ud := ud2, stack := stack5, ids := ids' }, keep)

mutual
def updWalk (w : World) (o : Opts) (newMs : List Str) (ws : WSt) (sysPath rel : Str) : Node → Except Err WSt
  | .dir dev ino kids =>
    match updateDirStep w o newMs ws sysPath rel dev ino kids with
    | .error e => .error e
    | .ok (ws', keep) => updKids w o newMs ws' sysPath rel keep kids
  | .unreadable k true => .error (.os (.code k))
  | _ => .ok ws
def updKids (w : World) (o : Opts) (newMs : List Str) (ws : WSt) (sysPath rel : Str) (keep : List Str) :
    List (Str × Node) → Except Err WSt
  | [] => .ok ws
  | (nm, ch) :: rest =>
    if keep.contains nm then
      match updWalk w o newMs ws (pjoin sysPath nm) (relJoin rel nm) ch with
      | .error e => .error e
      | .ok ws' => updKids w o newMs ws' sysPath rel keep rest
    else updKids w o newMs ws sysPath rel keep rest
end

/-- `for relpath, (mpath, fe) in entry_dict.items(): if fe.tag != 'IGNORE': loaded_manifests[mpath].entries.remove(fe)` -/
def updRemoveStep (st : St) (kv : Str × Str × Nat) : Except Err St :=
  let (_, mp', id) := kv
  match st.val id with
  | none => .error (.internal .other)
  | some (.ignore _) => .ok st
  | some fe =>
    match st.removeFirstEq mp' fe with
    | none => .error (.internal .valueError)
    | some st' => .ok (st'.markUpdated mp')

/-- one entry of a Manifest applying to `cmpath`: a MANIFEST entry naming `cmpath` is refreshed in place (with the
    hash names it has) -/
def refreshChainStep (w : World) (cmpath om odir : Str) (st : St) (ie : IEntry) : Except Err St :=
  match st.val ie.1 with
  | some (.file .MANIFEST p n c) =>
    if pjoin odir p == cmpath then
      match objAt w cmpath with
      | .error e => .error e
      | .ok ob => match refreshEntry ob cmpath (.file .MANIFEST p n c) none st.dev? none with
        | .error e => .error e
        | .ok (e', changed) => .ok (if changed then (st.setVal ie.1 e').markUpdated om else st)
    else .ok st
  | _ => .ok st

/-- the Manifests above `path` are not met by the walk: the MANIFEST entries for them are refreshed before it, so that a
    stale entry for one of them does not survive the update (repair of finding F28) -/
def refreshChain (w : World) (path : Str) (s : St) (stack : List (Str × Str)) : Except Err St :=
  foldE (fun (st : St) (cm : Str × Str) =>
    if pathStartsWith cm.2 path then .ok st
    else foldE (fun (st : St) (kdv : Str × Str × List Entry) =>
        foldE (refreshChainStep w cm.1 kdv.1 kdv.2.1) st (st.entriesOf kdv.1)) st (iterManifests st.plain cm.1 false)) s stack

/-- `update_entries_for_directory(path, hashes, last_mtime)` -/
def updateDir (w : World) (s : St) (path : Str) (o : Opts) : Except Err St :=
  match loadUnregistered w s path with
  | .error e => .error e
  | .ok (s1, newMs) =>
    match dedupDict w s1 path with
    | .error e => .error e
    | .ok (s2, ud) =>
      -- the stack is seeded with every Manifest applying to `path`, outermost first (repair of
      -- finding F6; seeded with the deepest one alone, a new MANIFEST entry could find no level above)
      match (iterManifests s2.plain path false).reverse.map (fun x => (x.1, x.2.1)) with
      | [] => .error (.internal .index)
      | stack0 =>
        match relpathOrEmpty? path [], w.obj? path with
        | none, _ => .error .abstain
        | _, none => .error .abstain
        | some rel, some (.dir d i ks) =>
          (match refreshChain w path s2 stack0 with
           | .error e => .error e
           | .ok s3 =>
           match updWalk w o newMs { st := s3, ud := ud, stack := stack0 } (sysTop rel) rel (.dir d i ks) with
           | .error e => .error e
           | .ok ws =>
             -- entries whose file was not met: removed (unless IGNORE)
             foldE updRemoveStep ws.st ws.ud)
        | some _, some .absent => .error (.os .ENOENT)
        | some _, some (.fault k) => .error (.os (.code k))
        | some _, some _ => .error (.os .ENOTDIR)

-- ManifestRecursiveLoader.update_entry_for_path (one path) ------------------------------------------

/-- the state of `update_entry_for_path(path, new_entry_type, hashes)` while it walks the Manifests -/
structure PSt where
  st : St
  hadEntry : Bool := false
  /-- `entries_to_remove` of the Manifest being walked (the values the queued objects have) -/
  toRemove : List Entry := []

/-- one entry of one Manifest applying to the path: an IGNORE covering the path breaks the contract (assertion);
    the first entry for the path is refreshed - or queued for removal when the file is gone -, every further one
    is a duplicate and queued for removal -/
def upEntryStep (w : World) (path : Str) (hashes : Option (List Str)) (mp rel : Str) (acc : PSt) (ie : IEntry) :
    Except Err PSt :=
  match ie.2 with
  | .ignore p => if pathStartsWith path (pjoin rel p) then .error (.internal .assertion) else .ok acc
  | .timestamp _ => .ok acc
  | .file .DIST _ _ _ => .ok acc
  | fe =>
    let full := pjoin rel fe.fullPath
    if full != path then .ok acc
    else if acc.hadEntry then .ok { acc with toRemove := acc.toRemove ++ [fe] }
    else
      match objAt w full with
      | .error e => .error e
      | .ok .absent => .ok { acc with toRemove := acc.toRemove ++ [fe], hadEntry := true }
      | .ok ob =>
        match refreshEntry ob full fe hashes acc.st.dev? none with
        | .error e => .error e
        | .ok (fe', _) => .ok { acc with st := (acc.st.setVal ie.1 fe').markUpdated mp, hadEntry := true }

/-- `for e in entries_to_remove: m.entries.remove(e)` -/
def upRemoveStep (mp : Str) (st : St) (x : Entry) : Except Err St :=
  match st.removeFirstEq mp x with
  | some st' => .ok st'
  | none => .error (.internal .valueError)

/-- the walk over one Manifest -/
def upManifestStep (w : World) (path : Str) (hashes : Option (List Str)) (acc : PSt) (kdv : Str × Str × List Entry) :
    Except Err PSt :=
  match foldE (upEntryStep w path hashes kdv.1 kdv.2.1) { acc with toRemove := [] } (acc.st.entriesOf kdv.1) with
  | .error e => .error e
  | .ok a =>
    if a.toRemove.isEmpty then .ok a
    else
      match foldE (upRemoveStep kdv.1) a.st a.toRemove with
      | .error e => .error e
      | .ok st' => .ok { a with st := st'.markUpdated kdv.1 }

/-- the path of the new entry relative to its Manifest (`AUX`: it must lie below `files/`, and is given as the aux_path) -/
def newEntryPath (newType : FTag) (path rel : Str) : Except Err Str :=
  match relpath? path rel with
  | none => .error .abstain
  | some np =>
    if newType == .AUX then
      if !pathInsideDir np [102, 105, 108, 101, 115] then .error (.internal .assertion)
      else
        match relpath? np [102, 105, 108, 101, 115] with
        | none => .error .abstain
        | some q => .ok q
    else .ok np

/-- `e = new_manifest_entry(new_entry_type, newpath, 0, {}); update_entry_for_path(...); m.entries.append(e)` -/
def upAddEntry (w : World) (st : St) (path : Str) (newType : FTag) (hs : List Str) (mp rel : Str) : Except Err St :=
  if newType == .DIST then .error (.internal .assertion)
  else
    match newEntryPath newType path rel with
    | .error e => .error e
    | .ok np =>
      match objAt w path with
      | .error e => .error e
      | .ok ob =>
        match refreshEntry ob path (.file newType np 0 []) (some hs) st.dev? none with
        | .error e => .error e
        | .ok (fe', _) => .ok ((st.append mp fe').markUpdated mp)

/-- `ManifestRecursiveLoader.update_entry_for_path(path, new_entry_type, hashes)`: refresh the entry of one path
    (the most specific one), drop its other entries - all of them when the file is gone -, or add an entry of the
    given type to the most specific Manifest when the path has none -/
def updateEntryForPath (w : World) (s : St) (path : Str) (newType : FTag) (hashes : Option (List Str)) : Except Err St :=
  match s.load w path false true with
  | .error e => .error e
  | .ok s1 =>
    match foldE (upManifestStep w path hashes) ({ st := s1 } : PSt) (iterManifests s1.plain path false) with
    | .error e => .error e
    | .ok a =>
      if a.hadEntry then .ok a.st
      else
        match hashes with
        | none => .error (.internal .assertion)
        | some hs =>
          match iterManifests a.st.plain path false with
          | [] => .ok a.st
          | kdv :: _ => upAddEntry w a.st path newType hs kdv.1 kdv.2.1

end Gemato.U
