import Gemato.Model.World
/-
  `verify_path` and `verify_entry_compatibility`, gemato/verify.py:126-216, 289-327.
-/
namespace Gemato.L1

def _root_.Gemato.Entry.isIgnore : Entry → Bool
  | .ignore _ => true
  | _ => false

def _root_.Gemato.Entry.size? : Entry → Option Nat
  | .file _ _ n _ => some n
  | _ => none

def _root_.Gemato.Entry.cks : Entry → List (Str × Str)
  | .file _ _ _ c => c
  | _ => []

/-- the digest comparison of `verify_path`, names in sorted order (entries keep
    them sorted): any difference is a mismatch; a name outside the table is the
    unsupported-hash error, raised when hashing is reached -/
def digestsMatch (m : FileMeta) (cks : List (Str × Str)) : Except Err Bool :=
  if cks.any (fun kv => (Hash.hashlibName? kv.1).isNone) then .error .unsupportedHash
  else if cks.any (fun kv => (m.digests.find? (·.1 == kv.1)).isNone) then .error .abstain
  else .ok (cks.all fun kv => (m.digests.find? (·.1 == kv.1)).map (·.2) == some kv.2)

/-- `expected_dev is not None and st_dev != expected_dev` -/
def devBad (dev? : Option Nat) (d : Nat) : Bool :=
  match dev? with
  | some x => x != d
  | none => false

/-- the mtime shortcut: `last_mtime is not None and st_mtime <= last_mtime and st_size != 0` -/
def mtimeSkip (m : FileMeta) (lastMtime : Option Int) : Bool :=
  match lastMtime with
  | some t => decide (m.mtime ≤ t) && m.stSize != 0
  | none => false

/-- stages 4-7 of `verify_path` on a regular file -/
def fileCheck (m : FileMeta) (esize : Nat) (cks : List (Str × Str)) (lastMtime : Option Int) : Except Err Bool :=
  if m.stSize ≠ 0 ∧ m.stSize ≠ esize then .ok false
  else if mtimeSkip m lastMtime then .ok true
  else match digestsMatch m cks with
    | .error err => .error err
    | .ok dm => .ok (decide (m.size = esize) && dm)

/-- `verify_path(path, e, expected_dev, last_mtime)`; `true` = "(True, [])" -/
def verifyObj (o : Obj) (path : Str) (e : Option Entry) (dev? : Option Nat) (lastMtime : Option Int) :
    Except Err Bool :=
  match e with
  | some (.timestamp _) => .error (.internal .assertion)
  | some (.ignore _) => .ok true
  | none =>
    (match o with
     | .notdir => .error (.os .ENOTDIR)
     | .fault k => .error (.os (.code k))
     | .absent => .ok true
     | _ => .ok false)
  | some (.file _ _ esize cks) =>
    (match o with
     | .notdir => .error (.os .ENOTDIR)
     | .fault k => .error (.os (.code k))
     | .absent => .ok false
     | .dir d _ _ => if devBad dev? d then .error (.crossDevice path) else .ok false
     | .special d => if devBad dev? d then .error (.crossDevice path) else .ok false
     | .file m => if devBad dev? m.dev then .error (.crossDevice path) else fileCheck m esize cks lastMtime)

def World.verifyPath (w : World) (path : Str) (e : Option Entry) (dev? : Option Nat) (lastMtime : Option Int) :
    Except Err Bool :=
  match w.obj? path with
  | none => .error .abstain
  | some o => verifyObj o path e dev? lastMtime

-- entry compatibility ------------------------------------------------------------------

def compatibleTags : List FTag := [.MANIFEST, .DATA, .EBUILD, .AUX]

inductive Compat | ok (extra : Bool) | typeMismatch | sizeMismatch | hashMismatch
deriving DecidableEq, Repr

def cksGet (c : List (Str × Str)) (k : Str) : Option Str := (c.find? (·.1 == k)).map (·.2)

/-- `verify_entry_compatibility(e1, e2)`; `.ok extra` = compatible, `extra` =
    the diff is non-empty (one side has a hash the other lacks). Two IGNORE
    entries are compatible (repair of finding F15). -/
def entryCompat (e1 e2 : Entry) : Except Err Compat :=
  match e1, e2 with
  | .timestamp _, _ => .error (.internal .assertion)
  | _, .timestamp _ => .error (.internal .assertion)
  | .ignore _, .ignore _ => .ok (.ok false)
  | .ignore _, .file _ _ _ _ => .ok .typeMismatch
  | .file _ _ _ _, .ignore _ => .ok .typeMismatch
  | .file t1 _ n1 c1, .file t2 _ n2 c2 =>
    if t1 ≠ t2 ∧ (!compatibleTags.contains t1 || !compatibleTags.contains t2) then .ok .typeMismatch
    else if n1 ≠ n2 then .ok .sizeMismatch
    else
      let names := (c1.map (·.1) ++ c2.map (·.1)).eraseDups
      let conflict := names.any fun h => match cksGet c1 h, cksGet c2 h with
        | some a, some b => a != b
        | _, _ => false
      if conflict then .ok .hashMismatch
      else .ok (.ok (names.any fun h => cksGet c1 h != cksGet c2 h))

/-- the merged entry of `get_file_entry_dict`: the later entry's class, path and
    size, with the checksums of both (`new_checksums[k] = d1` for names only
    the earlier entry has) -/
def mergeEntries (e1 e2 : Entry) : Entry :=
  match e1, e2 with
  | .file _ _ _ c1, .file t2 p2 n2 c2 =>
    .file t2 p2 n2 (c1.foldl (fun acc kv => if (cksGet c2 kv.1).isNone then ckInsert kv.1 kv.2 acc else acc) c2)
  | _, e => e

end Gemato.L1
