import Gemato.Model.VerifyDir
import Gemato.Model.Profile
/-
  The fast generator scripts (utils/gen_fast_manifest.py, utils/gen_fast_metamanifest.py):
  a second, independent writer of the Manifest format.

  `gen_fast_manifest.gen_manifest(top_dir)` is modelled on a directory node: the walk with its
  sub-Manifest cut-off, compat-mode typing, the DIST/IGNORE carry-over, the byte-wise sort and the
  plain / gzip choice. `gen_fast_metamanifest` is modelled by the order in which it generates the
  directories of an ebuild repository and by the split of a top-level Manifest (`make_toplevel`).
-/
namespace Gemato.FG
open Gemato.L1 Gemato.Prof

def sManifestGz : Str := sManifest ++ [46, 103, 122]
def sSkelEbuild : Str := [115, 107, 101, 108] ++ sEbuildExt
def sManifestFiles : Str := sManifest ++ [46, 102, 105, 108, 101, 115]     -- "Manifest.files"

/-- `f.endswith('.ebuild') and f != 'skel.ebuild'` -/
def isEbuildName (f : Str) : Bool := endsWith f sEbuildExt && f != sSkelEbuild

/-- the four names skipped outside compat mode -/
def timestampNames : List Str := [sTimestamp, sTimestampChk, sTimestampCommit, sTimestampX]

/-- one generated entry: tag, the path written into the line, and the path of the file relative to the
    generated directory (whose size and digests the line carries) -/
structure Item where
  tag : FTag
  path : Str
  file : Str
deriving DecidableEq, Repr

/-- the typing of one file: `none` = not listed -/
def itemFor (compat : Bool) (f ep : Str) : Option Item :=
  if startsWith f sManifest || isHidden f then none
  else if compat then
    if isEbuildName f then some ⟨.EBUILD, ep, ep⟩
    else if f == sMetadataXml then some ⟨.MISC, ep, ep⟩
    else if startsWith ep sFilesSlash then some ⟨.AUX, ep.drop 6, ep⟩
    else some ⟨.DATA, ep, ep⟩
  else if timestampNames.contains f then none
  else some ⟨.DATA, ep, ep⟩

def fileNames (kids : List (Str × Node)) : List Str := (kids.filter (!·.2.isDirNode)).map (·.1)

/-- the first of `files` that is named `Manifest` or `Manifest.gz` (the `for f in files: if f in (…)` loop) -/
def subManifest? (files : List Str) : Option Str := files.find? fun f => f == sManifest || f == sManifestGz

mutual
/-- `generate_manifest_entries` below the top directory: `os.walk` top-down; a sub-directory holding a Manifest
    contributes one MANIFEST entry and is not descended; dot-directories are skipped -/
def walkSub (compat : Bool) (rel : Str) : Node → List Item
  | .dir _ _ kids =>
    match subManifest? (fileNames kids) with
    | some m => [⟨.MANIFEST, relJoin rel m, relJoin rel m⟩]
    | none =>
      (fileNames kids).filterMap (fun f => itemFor compat f (relJoin rel f)) ++ walkKids compat rel kids
  | _ => []
def walkKids (compat : Bool) (rel : Str) : List (Str × Node) → List Item
  | [] => []
  | (nm, ch) :: rest =>
    (if ch.isDirNode && !isHidden nm then walkSub compat (relJoin rel nm) ch else []) ++ walkKids compat rel rest
end

/-- compat mode: the top directory holds an ebuild -/
def compatMode (kids : List (Str × Node)) : Bool := (fileNames kids).any isEbuildName

/-- all entries generated for the directory `kids` (the top directory itself is never cut off) -/
def genItems (kids : List (Str × Node)) : List Item :=
  (fileNames kids).filterMap (fun f => itemFor (compatMode kids) f f) ++ walkKids (compatMode kids) [] kids

/-- `'{} {} {} BLAKE2B {} SHA512 {}'.format(t, relpath, size, blake2.hexdigest(), sha512.hexdigest())` -/
def fgLine (t : FTag) (p : Str) (size : Nat) (b2 s5 : Str) : Str :=
  t.name ++ 32 :: p ++ 32 :: toDec size ++ 32 :: sBLAKE2B ++ 32 :: b2 ++ 32 :: sSHA512 ++ 32 :: s5

/-- the file an item describes, below the generated directory -/
def fileAt (kids : List (Str × Node)) (p : Str) : Option FileMeta :=
  match (Node.dir 0 0 kids).resolve (comps p) with
  | some (.file m) => some m
  | _ => none

def digestOf (m : FileMeta) (h : Str) : Option Str := (m.digests.find? (·.1 == h)).map (·.2)

def itemLine (kids : List (Str × Node)) (it : Item) : Option Str :=
  match fileAt kids it.file with
  | none => none
  | some m =>
    match digestOf m sBLAKE2B, digestOf m sSHA512 with
    | some b, some s => some (fgLine it.tag it.path m.size b s)
    | _, _ => none

/-- `bytes.rstrip()`: ASCII whitespace only (the file is read in binary mode) -/
def rstripAscii (l : Str) : Str := (l.reverse.dropWhile fun c => c == 32 || (9 ≤ c && c ≤ 13)).reverse

/-- lines of the existing plain `Manifest` that are carried over: `l.startswith(b'DIST') or l.startswith(b'IGNORE')`,
    right-stripped; the lines are those of the raw file (split at `\n` only) -/
def carryOver (oldText : Str) : List Str :=
  ((splitOn 10 oldText).filter fun l => startsWith l sDIST || startsWith l sIGNORE).map rstripAscii

structure Output where
  /-- name of the file written in the generated directory -/
  name : Str
  /-- its (uncompressed) text -/
  text : Str
  /-- the old plain `Manifest` is unlinked (a gzip Manifest replaced it) -/
  unlinkPlain : Bool
deriving DecidableEq, Repr

def joinNl : List Str → Str
  | [] => []
  | [l] => l
  | l :: m :: rest => l ++ 10 :: joinNl (m :: rest)

/-- `gen_manifest(top_dir)`; `old` = text of an existing plain `Manifest` in the directory, if any.
    `none` = a file disappeared under the generator or a digest is not supplied (the model abstains). -/
def genManifest (kids : List (Str × Node)) (old : Option Str) : Option Output :=
  match (genItems kids).mapM (itemLine kids) with
  | none => none
  | some ls =>
    let carried := match old with | some t => carryOver t | none => []
    let sorted := stableSort strLt (carried ++ ls)
    let text := joinNl sorted ++ [10]
    if compatMode kids then some ⟨sManifest, text, false⟩
    else some ⟨sManifestGz, text, old.isSome⟩

-- the whole-repository driver ----------------------------------------------------------------

def sMetadataSlash (s : Str) : Str := sMetadata ++ slash :: s
def sMd5CacheDir : Str := sMetadataSlash sMd5Cache

/-- what `manifest_dir_generator(iter_n)` yields for `profiles/categories` = `cats`, the package directories
    `pkgs c` found by `glob(c + '/*/')`, and the existence tests -/
def batch (cats : List Str) (pkgs : Str → List Str) (cacheExists catExists : Str → Bool) : Nat → List Str
  | 1 => cats.flatMap (fun c => (pkgs c).map (fun p => c ++ slash :: p) ++
           (if cacheExists c then [sMd5CacheDir ++ slash :: c] else [])) ++
         [sMetadataSlash sDtd, sMetadataSlash sGlsa, sMetadataSlash sNews, sMetadataSlash sXmlSchema,
          sEclass, sLicenses, sProfiles]
  | 2 => cats.filter catExists ++ [sMd5CacheDir]
  | 3 => [sMetadata]
  | 4 => [[46]]
  | _ => []

/-- the order in which `gen_metamanifest` generates directories ('.' written as the empty path) -/
def metaOrder (cats : List Str) (pkgs : Str → List Str) (cacheExists catExists : Str → Bool) : List Str :=
  (batch cats pkgs cacheExists catExists 1 ++ batch cats pkgs cacheExists catExists 2 ++
   batch cats pkgs cacheExists catExists 3).map id ++ [[]]

/-- `make_toplevel(d, ts, None)`: the Manifest just generated in `d` is renamed to `Manifest.files[.gz]`, and a
    new plain `Manifest` holding one MANIFEST entry for it and the TIMESTAMP line is written -/
structure Split where
  filesName : Str
  topText : Str
deriving DecidableEq, Repr

def makeToplevel (generated : Str) (size : Nat) (b2 s5 : Str) (tsLine : Str) : Option Split :=
  if generated == sManifestGz then
    some ⟨sManifestFiles ++ [46, 103, 122], fgLine .MANIFEST (sManifestFiles ++ [46, 103, 122]) size b2 s5 ++ 10 :: tsLine⟩
  else if generated == sManifest then
    some ⟨sManifestFiles, fgLine .MANIFEST sManifestFiles size b2 s5 ++ 10 :: tsLine⟩
  else none

end Gemato.FG
