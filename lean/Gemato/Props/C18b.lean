import Gemato.Props.C18
import Gemato.Props.C10c
/-
  C18 for the single-path update of the library, `ManifestRecursiveLoader.update_entry_for_path`:
  called within its contract (the path is not covered by IGNORE, a hash set is given, the new entry type is
  not DIST or AUX) on files that do not change while they are read, it never ends in an internal error - in
  particular `m.entries.remove(e)` never raises ValueError and never runs out of entries, however many
  duplicates the path has (`C18_path_update_no_internal_error`).

  The removal is by EQUALITY: `list.remove` drops the first equal entry, which need not be the object that was
  queued. That every queued value is still found is a counting fact: the queued values are a SUBLIST of the
  Manifest's current values (`upEntries_sub`), and erasing the first occurrence of the head of a sublist leaves
  the tail a sublist of the rest (`List.Sublist.erase`).
-/
namespace Gemato.C18
open Gemato.L1 Gemato.U Gemato.C10

/-- the current values of a Manifest's entries, in order -/
def vals (s : St) (mp : Str) : List Entry := (s.entriesOf mp).map (·.2)

/-- the values of a list of identities -/
def valsOf (s : St) (ids : List Nat) : List Entry := ids.filterMap s.val

theorem vals_eq (s : St) (mp : Str) : vals s mp = valsOf s (s.idsOf mp) := by
  unfold vals valsOf
  rw [entriesOf_eq]
  induction s.idsOf mp with
  | nil => rfl
  | cons j rest ih =>
    simp only [List.filterMap_cons]
    cases hv : s.val j with
    | none => simpa using ih
    | some e => simp [ih]

theorem valsOf_append (s : St) (a b : List Nat) : valsOf s (a ++ b) = valsOf s a ++ valsOf s b := by
  simp [valsOf, List.filterMap_append]

/-! ## `list.remove` on the values -/

theorem go_some_of_mem (s : St) (x : Entry) : ∀ (l : List Nat), x ∈ valsOf s l → ∃ r, St.removeFirstEq.go s x l = some r := by
  intro l
  induction l with
  | nil => intro h; simp [valsOf] at h
  | cons j rest ih =>
    intro h
    simp only [St.removeFirstEq.go]
    split
    · exact ⟨rest, rfl⟩
    · rename_i hne
      have hx : x ∈ valsOf s rest := by
        simp only [valsOf, List.filterMap_cons] at h
        cases hv : s.val j with
        | none => simpa [hv, valsOf] using h
        | some e =>
          simp only [hv, List.mem_cons] at h
          rcases h with rfl | h
          · exact absurd (by simp [hv]) hne
          · exact h
      obtain ⟨r, hr⟩ := ih hx
      exact ⟨j :: r, by simp [hr]⟩

theorem go_vals (s : St) (x : Entry) (l r : List Nat) (h : St.removeFirstEq.go s x l = some r) :
    valsOf s r = (valsOf s l).erase x := by
  obtain ⟨pre, i, post, e1, e2, e3, e4⟩ := go_spec s x l r h
  subst e1; subst e4
  have hnot : x ∉ valsOf s pre := by
    intro hx
    simp only [valsOf, List.mem_filterMap] at hx
    obtain ⟨j, hj, hv⟩ := hx
    exact e3 j hj hv
  rw [valsOf_append, valsOf_append]
  have : valsOf s (i :: post) = x :: valsOf s post := by simp [valsOf, e2]
  rw [this, List.erase_append_right _ hnot, List.erase_cons_head]

theorem removeFirstEq_ok (s : St) (mp : Str) (x : Entry) (hx : x ∈ vals s mp) :
    ∃ s1, s.removeFirstEq mp x = some s1 ∧ vals s1 mp = (vals s mp).erase x := by
  rw [vals_eq] at hx
  obtain ⟨r, hr⟩ := go_some_of_mem s x _ hx
  refine ⟨s.setIds mp r, by simp [St.removeFirstEq, hr], ?_⟩
  rw [vals_eq, vals_eq, idsOf_setIds]
  have : valsOf (s.setIds mp r) r = valsOf s r := by
    unfold valsOf
    exact filterMap_congr_mem _ _ _ (fun j _ => val_setIds s mp r j)
  rw [this]
  exact go_vals s x _ r hr

/-- the removal pass over values that are a sublist of the Manifest's values never fails -/
theorem removeFold_ok (mp : Str) : ∀ (xs : List Entry) (st : St), List.Sublist xs (vals st mp) →
    ∃ st1, foldE (upRemoveStep mp) st xs = .ok st1 := by
  intro xs
  induction xs with
  | nil => intro st _; exact ⟨st, rfl⟩
  | cons x rest ih =>
    intro st hsub
    have hx : x ∈ vals st mp := hsub.subset (by simp)
    obtain ⟨s1, hs1, hv1⟩ := removeFirstEq_ok st mp x hx
    have hrest : List.Sublist rest (vals s1 mp) := by
      rw [hv1]
      have := List.Sublist.erase x hsub
      simpa using this
    obtain ⟨s2, hs2⟩ := ih s1 hrest
    exact ⟨s2, by simp [foldE, upRemoveStep, hs1, hs2]⟩

/-! ## the walk over one Manifest's entries keeps the queue a sublist of the values -/

theorem entriesOf_setVal (s : St) (id : Nat) (e : Entry) (mp : Str) (hv : ∃ old, s.val id = some old) :
    (s.setVal id e).entriesOf mp = (s.entriesOf mp).map fun ie => if ie.1 == id then (id, e) else ie := by
  rw [entriesOf_eq, entriesOf_eq]
  have hids : (s.setVal id e).idsOf mp = s.idsOf mp := rfl
  rw [hids]
  induction s.idsOf mp with
  | nil => rfl
  | cons j rest ih =>
    simp only [List.filterMap_cons]
    by_cases hj : j = id
    · subst hj
      obtain ⟨old, ho⟩ := hv
      rw [val_setVal_self s j e old ho, ho]
      simp [ih]
    · rw [C10_refresh_touches_one s id j e hj]
      cases hq : s.val j with
      | none => simpa using ih
      | some x =>
        have hji : (j == id) = false := by simpa using hj
        simp only [Option.map_some, List.map_cons, hji, Bool.false_eq_true, if_false]
        rw [ih]

theorem map_id_of {α : Type} (f : α → α) (l : List α) (h : ∀ x ∈ l, f x = x) : l.map f = l := by
  induction l with
  | nil => rfl
  | cons a as ih => simp [h a (by simp), ih (fun x hx => h x (by simp [hx]))]

/-- the entries still to be walked are as they were when the walk began; what was queued is a sublist of the values
    of the entries walked so far -/
structure EInv (mp : Str) (a : PSt) (done : List IEntry) (rest : List IEntry) : Prop where
  split : a.st.entriesOf mp = done ++ rest
  nodup : ((done ++ rest).map (·.1)).Nodup
  sub : List.Sublist a.toRemove (done.map (·.2))

theorem upEntries_sub (w : World) (path : Str) (hashes : Option (List Str)) (mp rel : Str) :
    ∀ (rest : List IEntry) (a a1 : PSt) (done : List IEntry), EInv mp a done rest →
      foldE (upEntryStep w path hashes mp rel) a rest = .ok a1 →
      ∃ done1, EInv mp a1 done1 [] := by
  intro rest
  induction rest with
  | nil => intro a a1 done hi h; simp [foldE] at h; subst h; exact ⟨done, hi⟩
  | cons ie rest ih =>
    intro a a1 done hi h
    simp only [foldE] at h
    cases hstep : upEntryStep w path hashes mp rel a ie with
    | error e => simp [hstep] at h
    | ok a2 =>
      simp only [hstep] at h
      -- the entry walked moves to `done`
      have hmove : ∀ (b : PSt), b.st = a.st → List.Sublist b.toRemove (done.map (·.2) ++ [ie.2]) →
          EInv mp b (done ++ [ie]) rest := by
        intro b hb hsub
        refine ⟨by rw [hb, hi.split]; simp, by simpa using hi.nodup, by simpa using hsub⟩
      have hkeep : List.Sublist a.toRemove (done.map (·.2) ++ [ie.2]) :=
        hi.sub.trans (List.sublist_append_left _ _)
      have hqueue : List.Sublist (a.toRemove ++ [ie.2]) (done.map (·.2) ++ [ie.2]) :=
        List.Sublist.append hi.sub (List.Sublist.refl _)
      unfold upEntryStep at hstep
      split at hstep
      · split at hstep
        · cases hstep
        · cases hstep; exact ih a _ _ (hmove a rfl hkeep) h
      · cases hstep; exact ih a _ _ (hmove a rfl hkeep) h
      · cases hstep; exact ih a _ _ (hmove a rfl hkeep) h
      · simp only at hstep
        split at hstep
        · cases hstep; exact ih a _ _ (hmove a rfl hkeep) h
        · split at hstep
          · cases hstep
            refine ih _ _ (done ++ [ie]) ?_ h
            exact hmove _ rfl hqueue
          · split at hstep
            · cases hstep
            · cases hstep
              refine ih _ _ (done ++ [ie]) ?_ h
              exact hmove _ rfl hqueue
            · split at hstep
              · cases hstep
              · rename_i fe1 ch hre
                cases hstep
                -- the in-place refresh touches this entry alone: the identities of the list are distinct
                have hmem : ie ∈ a.st.entriesOf mp := by rw [hi.split]; simp
                have hval := entriesOf_val a.st mp ie hmem
                have hent : ((a.st.setVal ie.1 fe1).markUpdated mp).entriesOf mp = done ++ (ie.1, fe1) :: rest := by
                  have e0 : ((a.st.setVal ie.1 fe1).markUpdated mp).entriesOf mp = (a.st.setVal ie.1 fe1).entriesOf mp := rfl
                  rw [e0, entriesOf_setVal a.st ie.1 fe1 mp ⟨_, hval⟩, hi.split]
                  have hnd := hi.nodup
                  simp only [List.map_append, List.map_cons] at hnd
                  have hnd1 := List.nodup_append.mp hnd
                  have hnot_done : ∀ x ∈ done, (x.1 == ie.1) = false := by
                    intro x hx
                    have := hnd1.2.2 x.1 (List.mem_map.mpr ⟨x, hx, rfl⟩) ie.1 (by simp)
                    simpa using this
                  have hnot_rest : ∀ x ∈ rest, (x.1 == ie.1) = false := by
                    intro x hx
                    have h2 := (List.nodup_cons.mp hnd1.2.1).1
                    have : x.1 ≠ ie.1 := fun hh => h2 (hh ▸ List.mem_map.mpr ⟨x, hx, rfl⟩)
                    simpa using this
                  rw [List.map_append, List.map_cons]
                  rw [map_id_of _ done (fun x hx => by simp [hnot_done x hx]),
                    map_id_of _ rest (fun x hx => by simp [hnot_rest x hx])]
                  simp
                refine ih _ _ (done ++ [(ie.1, fe1)]) ⟨by rw [hent]; simp, ?_, ?_⟩ h
                · have := hi.nodup
                  simpa using this
                · have : List.Sublist a.toRemove ((done ++ [(ie.1, fe1)]).map (·.2)) := by
                    rw [List.map_append]
                    exact hi.sub.trans (List.sublist_append_left _ _)
                  exact this

/-! ## distinct identities in every list -/

def NodupIds (s : St) : Prop := ∀ kv ∈ s.loaded, kv.2.Nodup

theorem nodup_idsOf (s : St) (h : NodupIds s) (k : Str) : (s.idsOf k).Nodup := by
  unfold St.idsOf
  cases hf : s.loaded.find? (·.1 == k) with
  | none => simp
  | some kv => simpa using h kv (List.mem_of_find?_eq_some hf)

theorem entriesOf_ids_sublist (s : St) (mp : Str) : List.Sublist ((s.entriesOf mp).map (·.1)) (s.idsOf mp) := by
  rw [entriesOf_eq]
  induction s.idsOf mp with
  | nil => simp
  | cons j rest ih =>
    simp only [List.filterMap_cons]
    cases hv : s.val j with
    | none => simpa using ih.trans (List.sublist_cons_self _ _)
    | some e => simpa using ih

theorem entriesOf_ids_nodup (s : St) (h : NodupIds s) (mp : Str) : ((s.entriesOf mp).map (·.1)).Nodup :=
  (entriesOf_ids_sublist s mp).nodup (nodup_idsOf s h mp)

theorem nodupIds_of_loaded (s s1 : St) (h : NodupIds s) (e : s1.loaded = s.loaded) : NodupIds s1 := by
  unfold NodupIds; rw [e]; exact h

theorem nodupIds_setIds (s : St) (mp : Str) (ids : List Nat) (h : NodupIds s) (hk : hasKey s mp) (hn : ids.Nodup) :
    NodupIds (s.setIds mp ids) := by
  intro kv hkv
  rcases mem_setIds s mp ids hk kv hkv with ⟨hm, _⟩ | rfl
  · exact h kv hm
  · exact hn

theorem nodupIds_removeFirstEq (s s1 : St) (mp : Str) (x : Entry) (h : NodupIds s) (hk : hasKey s mp)
    (hr : s.removeFirstEq mp x = some s1) : NodupIds s1 := by
  unfold St.removeFirstEq at hr
  cases hg : St.removeFirstEq.go s x (s.idsOf mp) with
  | none => simp [hg] at hr
  | some ids =>
    simp [hg] at hr; subst hr
    obtain ⟨pre, i, post, e1, _, _, e4⟩ := go_spec s x _ _ hg
    apply nodupIds_setIds s mp ids h hk
    have hn := nodup_idsOf s h mp
    rw [e1] at hn
    rw [e4]
    exact (List.Sublist.append (List.Sublist.refl pre) (List.sublist_cons_self i post)).nodup hn

theorem nodupIds_syncStep (acc : St) (kv : Str × List Entry) (h : NodupIds acc) : NodupIds (syncStep acc kv) := by
  unfold syncStep
  split
  · exact h
  · intro x hx
    have hx1 : x ∈ acc.loaded ++ [(kv.1, newIds acc kv.2.length)] := hx
    rcases List.mem_append.mp hx1 with m | m
    · exact h x m
    · simp only [List.mem_singleton] at m; subst m
      unfold newIds
      exact List.Pairwise.map _ (fun a b hab => by omega) List.nodup_range

theorem nodupIds_sync (lm : LoadedMs) : ∀ (s : St), NodupIds s → NodupIds (s.sync lm) := by
  induction lm with
  | nil => intro s h; exact h
  | cons kv rest ih =>
    intro s h
    rw [sync_eq]
    simp only [List.foldl_cons]
    have := ih (syncStep s kv) (nodupIds_syncStep s kv h)
    rw [sync_eq] at this
    exact this

theorem nodupIds_load (w : World) (s s1 : St) (p : Str) (r v : Bool) (h : NodupIds s) (hl : s.load w p r v = .ok s1) :
    NodupIds s1 := by
  unfold St.load at hl
  split at hl
  · cases hl
  · cases hl; exact nodupIds_sync _ s h

/-! ## no internal error -/

/-- files do not change while they are read: the size `fstat` reports is 0 (special file systems) or the length read -/
def SizesOK (w : World) : Prop := ∀ p m, w.obj? p = some (.file m) → m.stSize = 0 ∨ m.stSize = m.size

theorem objAt_fine (w : World) (p : Str) : Fine (objAt w p) := by
  unfold objAt
  split
  · exact fine_error _ rfl
  · exact fine_ok _

theorem upEntryStep_fine (w : World) (path : Str) (hashes : Option (List Str)) (mp rel : Str) (a : PSt) (ie : IEntry)
    (hw : SizesOK w) (hign : ∀ p, ie.2 = .ignore p → pathStartsWith path (pjoin rel p) = false) :
    Fine (upEntryStep w path hashes mp rel a ie) := by
  unfold upEntryStep
  split
  · rename_i p hp
    rw [hign p hp]
    exact fine_ok _
  · exact fine_ok _
  · exact fine_ok _
  · rename_i fe hni hnt hnd
    simp only
    split
    · exact fine_ok _
    · split
      · exact fine_ok _
      · split
        · rename_i e he
          intro k hk
          cases hk
          exact objAt_fine w _ k he
        · exact fine_ok _
        · rename_i ob _ hob
          split
          · rename_i e hre
            intro k hk
            cases hk
            cases hfe : ie.2 with
            | timestamp t => exact absurd hfe (hnt t)
            | ignore q => exact absurd hfe (hni q)
            | file t q n c =>
              rw [hfe] at hre
              refine refreshEntry_guarded ob _ t q n c hashes _ none ?_ k hre
              intro m hm
              subst hm
              unfold objAt at hob
              split at hob
              · cases hob
              · rename_i o ho
                cases hob
                exact hw _ m ho
          · exact fine_ok _

theorem upEntryStep_loaded (w : World) (path : Str) (hashes : Option (List Str)) (mp rel : Str) (a a1 : PSt) (ie : IEntry)
    (h : upEntryStep w path hashes mp rel a ie = .ok a1) : a1.st.loaded = a.st.loaded := by
  unfold upEntryStep at h
  split at h
  · split at h
    · cases h
    · cases h; rfl
  · cases h; rfl
  · cases h; rfl
  · simp only at h
    split at h
    · cases h; rfl
    · split at h
      · cases h; rfl
      · split at h
        · cases h
        · cases h; rfl
        · split at h
          · cases h
          · cases h; rfl

theorem foldE_fine_mem {σ α : Type} (f : σ → α → Except Err σ) (l : List α) (hf : ∀ s a, a ∈ l → Fine (f s a)) :
    ∀ (s : σ), Fine (foldE f s l) := by
  induction l with
  | nil => intro s; exact fine_ok _
  | cons a rest ih =>
    intro s
    simp only [foldE]
    cases hfa : f s a with
    | error e => exact fun k hk => by cases hk; exact hf s a (by simp) k hfa
    | ok s1 => exact ih (fun s' b hb => hf s' b (by simp [hb])) s1

/-- what the contract of `update_entry_for_path` says about one Manifest: no IGNORE entry of it covers the path -/
def NoIgnoreOn (s : St) (path : Str) (kdv : Str × Str × List Entry) : Prop :=
  ∀ p, Entry.ignore p ∈ vals s kdv.1 → pathStartsWith path (pjoin kdv.2.1 p) = false

theorem upManifestStep_fine (w : World) (path : Str) (hashes : Option (List Str)) (a : PSt) (kdv : Str × Str × List Entry)
    (hw : SizesOK w) (hnd : NodupIds a.st) (hign : NoIgnoreOn a.st path kdv) :
    Fine (upManifestStep w path hashes a kdv) := by
  unfold upManifestStep
  have hfold : Fine (foldE (upEntryStep w path hashes kdv.1 kdv.2.1) { a with toRemove := [] } (a.st.entriesOf kdv.1)) :=
    foldE_fine_mem _ _ (fun s ie hie => upEntryStep_fine w path hashes kdv.1 kdv.2.1 s ie hw (fun p hp => by
      apply hign p
      unfold vals
      exact List.mem_map.mpr ⟨ie, hie, hp⟩)) _
  split
  · rename_i e he
    exact fun k hk => by cases hk; exact hfold k he
  · rename_i b hb
    split
    · exact fine_ok _
    · obtain ⟨done1, hd⟩ := upEntries_sub w path hashes kdv.1 kdv.2.1 (a.st.entriesOf kdv.1) { a with toRemove := [] } b []
        ⟨by simp, by simpa using entriesOf_ids_nodup a.st hnd kdv.1, by simp⟩ hb
      have hsub : List.Sublist b.toRemove (vals b.st kdv.1) := by
        unfold vals
        rw [hd.split]
        simpa using hd.sub
      obtain ⟨st1, hst1⟩ := removeFold_ok kdv.1 b.toRemove b.st hsub
      rw [hst1]
      exact fine_ok _

theorem foldE_fine_inv_mem {σ α : Type} (I : σ → Prop) (f : σ → α → Except Err σ) (l : List α)
    (h : ∀ s a, a ∈ l → I s → Fine (f s a) ∧ ∀ s1, f s a = .ok s1 → I s1) :
    ∀ (s : σ), I s → Fine (foldE f s l) ∧ ∀ s1, foldE f s l = .ok s1 → I s1 := by
  induction l with
  | nil => intro s hs; exact ⟨fine_ok _, fun s1 h1 => by simp [foldE] at h1; subst h1; exact hs⟩
  | cons a rest ih =>
    intro s hs
    obtain ⟨h1, h2⟩ := h s a (by simp) hs
    simp only [foldE]
    cases hfa : f s a with
    | error e => exact ⟨fun k hk => by cases hk; exact h1 k hfa, fun s1 hh => by cases hh⟩
    | ok s1 => exact ih (fun s' b hb => h s' b (by simp [hb])) s1 (h2 s1 hfa)

theorem upEntries_loaded (w : World) (path : Str) (hashes : Option (List Str)) (mp rel : Str) :
    ∀ (l : List IEntry) (a a1 : PSt), foldE (upEntryStep w path hashes mp rel) a l = .ok a1 → a1.st.loaded = a.st.loaded := by
  intro l
  induction l with
  | nil => intro a a1 h; simp [foldE] at h; subst h; rfl
  | cons ie rest ih =>
    intro a a1 h
    simp only [foldE] at h
    cases hs : upEntryStep w path hashes mp rel a ie with
    | error e => simp [hs] at h
    | ok a2 =>
      simp only [hs] at h
      rw [ih a2 a1 h, upEntryStep_loaded w path hashes mp rel a a2 ie hs]

theorem hasKey_removeFirstEq (s s1 : St) (mp : Str) (x : Entry) (k : Str) (hk : hasKey s k)
    (hr : s.removeFirstEq mp x = some s1) : hasKey s1 k := by
  unfold St.removeFirstEq at hr
  cases hg : St.removeFirstEq.go s x (s.idsOf mp) with
  | none => simp [hg] at hr
  | some ids => simp [hg] at hr; subst hr; exact hasKey_setIds s mp ids k hk

theorem upManifestStep_nodup (w : World) (path : Str) (hashes : Option (List Str)) (a a1 : PSt) (kdv : Str × Str × List Entry)
    (hn : NodupIds a.st) (hk : hasKey a.st kdv.1) (h : upManifestStep w path hashes a kdv = .ok a1) : NodupIds a1.st := by
  unfold upManifestStep at h
  split at h
  · cases h
  · rename_i b hb
    have hl := upEntries_loaded w path hashes kdv.1 kdv.2.1 _ _ b hb
    have hnb : NodupIds b.st := nodupIds_of_loaded a.st b.st hn hl
    have hkb : hasKey b.st kdv.1 := hasKey_of_loaded a.st b.st hl kdv.1 hk
    split at h
    · cases h; exact hnb
    · split at h
      · cases h
      · rename_i st1 hrm
        cases h
        have : NodupIds st1 ∧ hasKey st1 kdv.1 :=
          foldE_inv_mem (fun (z : St) => NodupIds z ∧ hasKey z kdv.1) (upRemoveStep kdv.1) b.toRemove
            (fun z x z1 _ hz hstep => by
              unfold upRemoveStep at hstep
              split at hstep
              · rename_i r hr
                cases hstep
                exact ⟨nodupIds_removeFirstEq z _ kdv.1 x hz.1 hz.2 hr, hasKey_removeFirstEq z _ kdv.1 x kdv.1 hz.2 hr⟩
              · cases hstep) b.st st1 ⟨hnb, hkb⟩ hrm
        exact nodupIds_of_loaded st1 _ this.1 rfl

theorem ignore_in_others (path : Str) (s : St) (k p : Str) (h : Entry.ignore p ∈ vals s k) : Entry.ignore p ∈ othersOf path s k := by
  unfold othersOf
  unfold vals at h
  exact List.mem_filter.mpr ⟨h, by simp [names]⟩

theorem others_in_vals (path : Str) (s : St) (k : Str) (e : Entry) (h : e ∈ othersOf path s k) : e ∈ vals s k := by
  unfold othersOf at h
  exact (List.mem_filter.mp h).1

theorem newEntryPath_fine (t : FTag) (path rel : Str) (ht : t ≠ .AUX) : Fine (newEntryPath t path rel) := by
  unfold newEntryPath
  split
  · exact fine_error _ rfl
  · have hna : (t == FTag.AUX) = false := by
      cases t <;> first | rfl | exact absurd rfl ht
    simp only [hna, Bool.false_eq_true, if_false]
    exact fine_ok _

theorem upAddEntry_fine (w : World) (st : St) (path : Str) (t : FTag) (hs : List Str) (mp rel : Str)
    (hw : SizesOK w) (ht : t ≠ .DIST ∧ t ≠ .AUX) : Fine (upAddEntry w st path t hs mp rel) := by
  unfold upAddEntry
  split
  · rename_i hdist
    exact absurd (by simpa using hdist) ht.1
  · split
    · rename_i e he
      exact fun k hk => by cases hk; exact newEntryPath_fine t path rel ht.2 k he
    · rename_i np hnp
      split
      · rename_i e he
        exact fun k hk => by cases hk; exact objAt_fine w path k he
      · rename_i ob hob
        split
        · rename_i e hre
          intro k hk
          cases hk
          refine refreshEntry_guarded ob path t np 0 [] (some hs) _ none ?_ k hre
          intro m hm
          subst hm
          unfold objAt at hob
          split at hob
          · cases hob
          · rename_i o ho
            cases hob
            exact hw _ m ho
        · exact fine_ok _

/-- **C18 for `update_entry_for_path`.** Within its contract - no IGNORE entry of a Manifest that applies covers the
    path, a hash set is given, the entry type asked for is a plain file type - and on files that do not change while they
    are read, the single-path update never ends in an internal error: not in the assertion about IGNORE, not in
    `list.remove` (ValueError) however many entries the path has and however they are spread, not in the size assertion. -/
theorem C18_path_update_no_internal_error (w : World) (s : St) (path : Str) (t : FTag) (hs : List Str)
    (hw : SizesOK w) (hf : Fresh s) (hd : Disj s) (hn : NodupIds s) (ht : t ≠ .DIST ∧ t ≠ .AUX)
    (hcontract : ∀ s1, s.load w path false true = .ok s1 →
      ∀ kdv ∈ iterManifests s1.plain path false, NoIgnoreOn s1 path kdv) :
    Fine (updateEntryForPath w s path t (some hs)) := by
  unfold updateEntryForPath
  split
  · rename_i e he
    exact fun k hk => by cases hk; exact stLoad_fine w s path false true k he
  · rename_i s1 hl
    have k1 := keep_load path w s s1 path false true hf hd hl
    have n1 := nodupIds_load w s s1 path false true hn hl
    have hc := hcontract s1 hl
    have hfold := foldE_fine_inv_mem (fun (a : PSt) => Keep path s1 a.st ∧ NodupIds a.st) (upManifestStep w path (some hs))
      (iterManifests s1.plain path false)
      (fun a kdv hkdv ha => by
        obtain ⟨hrel, hkey⟩ := iterManifests_mem s1 path false kdv hkdv
        have hka : hasKey a.st kdv.1 := ha.1.keys _ hkey
        refine ⟨upManifestStep_fine w path (some hs) a kdv hw ha.2 ?_, fun a1 hst => ?_⟩
        · intro p hp
          apply hc kdv hkdv p
          have := ignore_in_others path a.st kdv.1 p hp
          rw [ha.1.others kdv.1 hkey] at this
          exact others_in_vals path s1 kdv.1 _ this
        · exact ⟨ha.1.trans (upManifestStep_keep w path (some hs) a a1 kdv hrel ha.1.fresh ha.1.disj hka hst),
            upManifestStep_nodup w path (some hs) a a1 kdv ha.2 hka hst⟩)
      ({ st := s1 } : PSt) ⟨Keep.refl path s1 k1.fresh k1.disj, n1⟩
    split
    · rename_i e he
      exact fun k hk => by cases hk; exact hfold.1 k he
    · rename_i a ha
      split
      · exact fine_ok _
      · simp only
        split
        · exact fine_ok _
        · exact upAddEntry_fine w _ path t hs _ _ hw ht

theorem nodupIds_openForUpdate (w : World) (top : Str) (create : Bool) (prof : Prof.Profile) (xdev : Bool) (s : St)
    (h : openForUpdate w top create prof xdev = .ok s) : NodupIds s := by
  have hsync : ∀ lm, NodupIds (({ top := top, loaded := [] } : St).sync lm) :=
    fun lm => nodupIds_sync lm _ (fun _ hx => by cases hx)
  unfold openForUpdate at h
  cases hl : loadOne w top none with
  | ok es =>
    rw [hl] at h
    simp only at h
    cases ho : w.obj? top with
    | none => simp [ho] at h
    | some ob =>
      cases ob <;> simp [ho] at h
      subst h
      exact hsync _
  | error e =>
    rw [hl] at h
    by_cases he : e = .os .ENOENT
    · subst he
      simp only at h
      cases create
      · simp at h
      · simp only [Bool.not_true, Bool.false_eq_true, if_false] at h
        cases ho : w.obj? (dirname top) with
        | none => simp [ho] at h
        | some ob =>
          cases ob <;> simp [ho] at h
          subst h
          exact hsync _
    · cases e <;> simp_all

/-- the same from the moment the loader is opened -/
theorem C18_path_update_from_open (w : World) (top path : Str) (create : Bool) (prof : Prof.Profile) (xdev : Bool)
    (t : FTag) (hs : List Str) (s0 : St) (ho : openForUpdate w top create prof xdev = .ok s0)
    (hw : SizesOK w) (ht : t ≠ .DIST ∧ t ≠ .AUX)
    (hcontract : ∀ s1, s0.load w path false true = .ok s1 →
      ∀ kdv ∈ iterManifests s1.plain path false, NoIgnoreOn s1 path kdv) (k : IntKind) :
    updateEntryForPath w s0 path t (some hs) ≠ .error (.internal k) :=
  C18_path_update_no_internal_error w s0 path t hs hw (fresh_openForUpdate w top create prof xdev s0 ho)
    (disj_openForUpdate w top create prof xdev s0 ho) (nodupIds_openForUpdate w top create prof xdev s0 ho) ht hcontract k

end Gemato.C18
