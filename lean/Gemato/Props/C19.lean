import Gemato.Model.Profile
/-
  C19 — Profiles place Manifests and type entries as documented.
-/
namespace Gemato.C19
open Gemato.Prof

/-- the documented placement policy of the ebuild profiles, by the role of a directory -/
structure Dir where
  depth : Nat                 -- number of path components ('' counts as depth 1, as in the code)
  c0 : Str
  c1 : Str
  hasSubdirs : Bool
  hasMetadataXml : Bool
  hasEbuild : Bool

def documented (relpath : Str) (d : Dir) : Bool :=
  d.hasMetadataXml ||                                              -- packages, ::gentoo categories
  (d.depth == 1 && (d.hasSubdirs || standardTop.contains relpath)) ||   -- categories; eclass, licenses, metadata, profiles
  (d.depth == 2 && (d.hasEbuild ||                                 -- package directories
     (d.c0 == sMetadata && metadataSubdirs.contains d.c1))) ||     -- metadata/{dtd,glsa,md5-cache,news,xml-schema}
  (d.depth == 3 && d.c0 == sMetadata && d.c1 == sMd5Cache)         -- metadata/md5-cache/<category>

def dirOf (relpath : Str) (dirnames filenames : List Str) : Dir :=
  let spl := comps relpath
  { depth := spl.length, c0 := spl.getD 0 [], c1 := spl.getD 1 [], hasSubdirs := !dirnames.isEmpty,
    hasMetadataXml := filenames.contains sMetadataXml, hasEbuild := filenames.any (fun f => endsWith f sEbuildExt) }

theorem take2_eq (spl : List Str) (h : spl.length = 3) (a b : Str) :
    (spl.take 2 == [a, b]) = (spl.getD 0 [] == a && spl.getD 1 [] == b) := by
  match spl, h with
  | [x, y, z], _ => simp [List.take]

/-- **placement.** Both ebuild profiles want a Manifest exactly in the
    documented directories; the default profile nowhere. -/
theorem C19_want_manifest_iff_documented (relpath : Str) (dirnames filenames : List Str) :
    wantManifest .ebuild relpath dirnames filenames = documented relpath (dirOf relpath dirnames filenames) ∧
    wantManifest .oldEbuild relpath dirnames filenames = documented relpath (dirOf relpath dirnames filenames) ∧
    wantManifest .default relpath dirnames filenames = false := by
  have key : ∀ p, p ≠ Profile.default →
      wantManifest p relpath dirnames filenames = documented relpath (dirOf relpath dirnames filenames) := by
    intro p hp
    cases p with
    | default => exact absurd rfl hp
    | ebuild | oldEbuild =>
      simp only [wantManifest, documented, dirOf]
      by_cases hm : sMetadataXml ∈ filenames
      · simp [hm]
      · by_cases h1 : (comps relpath).length = 1
        · simp [hm, h1]
        · by_cases h2 : (comps relpath).length = 2
          · simp [hm, h2]
          · by_cases h3 : (comps relpath).length = 3
            · simp [hm, h3, take2_eq _ h3]
            · simp [hm, h1, h2, h3]
  exact ⟨key _ (by decide), key _ (by decide), rfl⟩

/-- **entry typing under the backwards-compatible profile**: in a package
    directory (three components) ebuilds are EBUILD and metadata.xml is MISC;
    anything under `<cat>/<pkg>/files` is AUX; everything else, and everything
    under the other profiles, is DATA. -/
theorem C19_entry_type_spec (path : Str) :
    entryType .default path = .DATA ∧ entryType .ebuild path = .DATA ∧
    (entryType .oldEbuild path =
      if (comps path).length = 3 ∧ endsWith path sEbuildExt = true then .EBUILD
      else if (comps path).length = 3 ∧ (comps path).getD 2 [] = sMetadataXml then .MISC
      else if ((comps path).drop 2).take 1 = [sFiles] then .AUX
      else .DATA) := by
  refine ⟨rfl, rfl, ?_⟩
  simp only [entryType, Bool.and_eq_true, beq_iff_eq]

/-- **default IGNOREs** (complete table) -/
theorem C19_ignore_defaults :
    ignorePaths .ebuild [] = [sDistfiles, sLocal, sLostFound, sPackages] ∧
    ignorePaths .ebuild sMetadata = [sTimestamp, sTimestampChk, sTimestampCommit, sTimestampX] ∧
    (∀ d ∈ [sDtd, sGlsa, sNews, sXmlSchema], ignorePaths .ebuild (sMetadata ++ slash :: d) = [sTimestampChk, sTimestampCommit]) ∧
    ignorePaths .ebuild (sMetadata ++ slash :: sMd5Cache) = [] ∧
    (∀ r, ignorePaths .default r = []) ∧ (∀ r, ignorePaths .oldEbuild r = ignorePaths .ebuild r) := by
  refine ⟨by decide, by decide, by decide, by decide, fun _ => rfl, fun _ => rfl⟩

/-- **compression policy**: compress iff the uncompressed size reaches the
    watermark, never a file literally named `Manifest` at the top, and — under
    the backwards-compatible profile — never a Manifest with an EBUILD entry -/
theorem C19_compression_policy (relpath : Str) (hasEbuild : Bool) (size wm : Nat) :
    (wantCompressed .default relpath hasEbuild size wm = true ↔ wm ≤ size ∧ relpath ≠ sManifest) ∧
    (wantCompressed .ebuild relpath hasEbuild size wm = true ↔ wm ≤ size ∧ relpath ≠ sManifest) ∧
    (wantCompressed .oldEbuild relpath hasEbuild size wm = true ↔ hasEbuild = false ∧ wm ≤ size ∧ relpath ≠ sManifest) := by
  refine ⟨by simp [wantCompressed], by simp [wantCompressed], ?_⟩
  cases hasEbuild <;> simp [wantCompressed]

/-- **defaults**: hashes BLAKE2B+SHA512, sorting, watermark 128, gzip — applied
    only where the user gave no value (an explicit value, 0 and False included, is kept) -/
theorem C19_defaults (o : LoaderOpts) :
    loaderOptions .default o = o ∧
    (∀ p, p ≠ Profile.default → loaderOptions p ⟨none, none, none, none⟩ = ⟨some [sBLAKE2B, sSHA512], some true, some 128, some sGz⟩) ∧
    (∀ p h s w f, p ≠ Profile.default → loaderOptions p ⟨some h, some s, some w, some f⟩ = ⟨some h, some s, some w, some f⟩) := by
  refine ⟨rfl, ?_, ?_⟩
  · intro p hp; cases p <;> first | exact absurd rfl hp | rfl
  · intro p h s w f hp; cases p <;> first | exact absurd rfl hp | rfl

end Gemato.C19
