import Gemato.Model.VerifyDir
/-
  C02 — Sub-Manifests are trusted only through an unbroken hash chain from the
  top. Theorems about the loading loop, for Manifest trees of any depth.
-/
namespace Gemato.C02
open Gemato.L1

/-- a sub-Manifest that was loaded against an entry matched that entry -/
theorem loadOne_verified (w : World) (p : Str) (e : Entry) (es : List Entry)
    (h : loadOne w p (some e) = .ok es) : w.verifyPath p (some e) none none = .ok true := by
  unfold loadOne at h
  simp only [bind, Except.bind] at h
  cases hv : w.verifyPath p (some e) none none with
  | error err => simp [hv] at h
  | ok b =>
    cases b with
    | true => rfl
    | false => simp [hv, throw, throwThe, MonadExceptOf.throw, pure, Except.pure] at h

/-- **the first broken link is reported.** If the file does not match the entry
    it is to be loaded against, loading ends with the mismatch error for that
    very path, and nothing of the file is parsed. -/
theorem loadOne_mismatch (w : World) (p : Str) (e : Entry)
    (h : w.verifyPath p (some e) none none = .ok false) : loadOne w p (some e) = .error (.mismatch p) := by
  unfold loadOne
  simp [bind, Except.bind, h, throw, throwThe, MonadExceptOf.throw]

/-- what a verifying round queues: each item is not loaded yet and carries a
    MANIFEST entry of an already loaded Manifest that names it -/
def QueueOK (lm : LoadedMs) (tl : List (Str × Option Entry)) : Prop :=
  ∀ p oe, (p, oe) ∈ tl → lmHas lm p = false ∧
    ∃ q qes e, oe = some e ∧ (q, qes) ∈ lm ∧ e ∈ qes ∧ e.isManifest = true ∧ pjoin (dirname q) e.fullPath = p

theorem sort_mem {α} (lt : α → α → Bool) (x : α) (l : List α) : x ∈ stableSort lt l ↔ x ∈ l := by
  induction l with
  | nil => simp [stableSort]
  | cons a l ih =>
    have : stableSort lt (a :: l) = insertSorted lt a (stableSort lt l) := rfl
    rw [this]
    have ins : ∀ (s : List α), x ∈ insertSorted lt a s ↔ x = a ∨ x ∈ s := by
      intro s
      induction s with
      | nil => simp [insertSorted]
      | cons b s ihs =>
        simp only [insertSorted]
        split
        · simp [ihs]; constructor
          · rintro (h | h | h); exact Or.inr (Or.inl h); exact Or.inl h; exact Or.inr (Or.inr h)
          · rintro (h | h | h); exact Or.inr (Or.inl h); exact Or.inl h; exact Or.inr (Or.inr h)
        · simp
    rw [ins, ih]; simp

theorem iterManifests_mem (lm : LoadedMs) (path : Str) (r : Bool) (k d : Str) (v : List Entry)
    (h : (k, d, v) ∈ iterManifests lm path r) : (k, v) ∈ lm ∧ d = dirname k := by
  unfold iterManifests sortByDirLenDesc at h
  rw [sort_mem] at h
  simp only [List.mem_filterMap] at h
  obtain ⟨⟨k', v'⟩, hm, hf⟩ := h
  simp only at hf
  split at hf
  · cases hf; exact ⟨hm, rfl⟩
  · split at hf
    · cases hf; exact ⟨hm, rfl⟩
    · cases hf

theorem toLoad_queueOK (lm : LoadedMs) (path : Str) (r : Bool) : QueueOK lm (toLoad lm path r true) := by
  intro p oe hm
  unfold toLoad at hm
  simp only [List.mem_flatMap, List.mem_filterMap] at hm
  obtain ⟨⟨cur, rel, es⟩, hit, e, he, hf⟩ := hm
  obtain ⟨hin, hrel⟩ := iterManifests_mem lm path r cur rel es hit
  simp only at hf
  split at hf
  · cases hf
  · rename_i hman
    split at hf
    · cases hf
    · rename_i hnot
      split at hf
      · simp only [if_true, Option.some.injEq, Prod.mk.injEq] at hf
        obtain ⟨rfl, rfl⟩ := hf
        simp only [Bool.or_eq_true, not_or, Bool.not_eq_true] at hnot
        refine ⟨hnot.2, cur, es, e, rfl, hin, he, by simpa using hman, by rw [← hrel]⟩
      · cases hf

/-- **every load of a round goes through the check.** If a round of loading
    succeeds, every queued sub-Manifest was read by `loadOne` with the entry it
    was queued with — hence (`loadOne_verified`) matched it. -/
theorem loadAll_each (w : World) : ∀ (tl : List (Str × Option Entry)) (lm lm' : LoadedMs),
    loadAll w lm tl = .ok lm' → ∀ p oe, (p, oe) ∈ tl → ∃ es, loadOne w p oe = .ok es
  | [], _, _, _, _, _, hm => by simp at hm
  | (p0, oe0) :: rest, lm, lm', h, p, oe, hm => by
    simp only [loadAll] at h
    cases hl : loadOne w p0 oe0 with
    | error err => simp [hl] at h
    | ok es =>
      simp only [hl] at h
      simp at hm
      rcases hm with ⟨rfl, rfl⟩ | hm
      · exact ⟨es, hl⟩
      · exact loadAll_each w rest _ lm' h p oe hm

/-- entries reach the loaded set only from `loadOne` results of queued items -/
theorem loadAll_new (w : World) : ∀ (tl : List (Str × Option Entry)) (lm lm' : LoadedMs),
    loadAll w lm tl = .ok lm' → ∀ p es, (p, es) ∈ lm' → (p, es) ∈ lm ∨ ∃ oe, (p, oe) ∈ tl ∧ loadOne w p oe = .ok es
  | [], lm, lm', h, p, es, hm => by simp [loadAll] at h; subst h; exact Or.inl hm
  | (p0, oe0) :: rest, lm, lm', h, p, es, hm => by
    simp only [loadAll] at h
    cases hl : loadOne w p0 oe0 with
    | error err => simp [hl] at h
    | ok es0 =>
      simp only [hl] at h
      rcases loadAll_new w rest _ lm' h p es hm with h1 | ⟨oe, h2, h3⟩
      · unfold lmSet at h1
        split at h1
        · simp only [List.mem_map] at h1
          obtain ⟨⟨k, v⟩, hkv, hk⟩ := h1
          by_cases hkp : (k == p0) = true
          · simp only [hkp, if_true, Prod.mk.injEq] at hk
            obtain ⟨rfl, rfl⟩ := hk
            exact Or.inr ⟨oe0, by simp, hl⟩
          · simp only [hkp, Bool.false_eq_true, if_false] at hk
            cases hk; exact Or.inl hkv
        · simp at h1
          rcases h1 with h1 | ⟨rfl, rfl⟩
          · exact Or.inl h1
          · exact Or.inr ⟨oe0, by simp, hl⟩
      · exact Or.inr ⟨oe, by simp [h2], h3⟩

/-- **C02 (one round of the chain).** With verification on, whatever a round
    adds to the loaded set is a sub-Manifest that (a) is named by a MANIFEST
    entry of a Manifest loaded before the round and (b) matched the size and
    every checksum of that entry before it was parsed. -/
theorem C02_round_trusted (w : World) (lm lm' : LoadedMs) (path : Str) (r : Bool)
    (h : loadAll w lm (toLoad lm path r true) = .ok lm') (p : Str) (es : List Entry) (hm : (p, es) ∈ lm') :
    (p, es) ∈ lm ∨ ∃ q qes e, (q, qes) ∈ lm ∧ e ∈ qes ∧ e.isManifest = true ∧ pjoin (dirname q) e.fullPath = p ∧
      w.verifyPath p (some e) none none = .ok true ∧ loadOne w p (some e) = .ok es := by
  rcases loadAll_new w _ lm lm' h p es hm with h1 | ⟨oe, h2, h3⟩
  · exact Or.inl h1
  · obtain ⟨_, q, qes, e, rfl, hq, he, hman, hp⟩ := toLoad_queueOK lm path r p oe h2
    exact Or.inr ⟨q, qes, e, hq, he, hman, hp, loadOne_verified w p e es h3, h3⟩

/-- **C02 (a broken link stops everything).** If some queued sub-Manifest does
    not match its entry while everything queued before it loads, the round —
    and with it every verification or lookup built on it — ends with the
    mismatch error for that sub-Manifest; no result is produced. -/
theorem loadAll_broken_link (w : World) : ∀ (pre : List (Str × Option Entry)) (lm : LoadedMs) (p : Str) (e : Entry)
    (post : List (Str × Option Entry)),
    (∀ x ∈ pre, ∃ es, loadOne w x.1 x.2 = .ok es) → w.verifyPath p (some e) none none = .ok false →
    loadAll w lm (pre ++ (p, some e) :: post) = .error (.mismatch p)
  | [], lm, p, e, post, _, hv => by simp [loadAll, loadOne_mismatch w p e hv]
  | (p0, oe0) :: pre, lm, p, e, post, hpre, hv => by
    obtain ⟨es, hl⟩ := hpre (p0, oe0) (by simp)
    simp only [List.cons_append, loadAll, hl]
    exact loadAll_broken_link w pre _ p e post (fun x hx => hpre x (by simp [hx])) hv

theorem C02_tamper_detected (w : World) (path : Str) (r : Bool) (fuel : Nat) (lm : LoadedMs)
    (pre post : List (Str × Option Entry)) (p : Str) (e : Entry)
    (hq : toLoad lm path r true = pre ++ (p, some e) :: post)
    (hpre : ∀ x ∈ pre, ∃ es, loadOne w x.1 x.2 = .ok es)
    (hv : w.verifyPath p (some e) none none = .ok false) :
    loadManifestsForPath w path r true (fuel + 1) lm = .error (.mismatch p) := by
  simp only [loadManifestsForPath]
  rw [hq]
  cases hpre' : pre ++ (p, some e) :: post with
  | nil => simp at hpre'
  | cons x xs =>
    simp only
    rw [← hpre', loadAll_broken_link w pre lm p e post hpre hv]

/-- the error of the loading loop is the result of every API built on it -/
theorem C02_lookups_fail_too (w : World) (l : Loader) (path : Str) (err : Err)
    (h : loadManifestsForPath w path false true defaultFuel l.loaded = .error err) :
    l.findPathEntry w path = .error err ∧ l.verifyPath w path = .error err ∧ l.assertPathVerifies w path = .error err := by
  refine ⟨?_, ?_, ?_⟩ <;>
    simp [Loader.findPathEntry, Loader.verifyPath, Loader.assertPathVerifies, h, bind, Except.bind]

theorem C02_verify_dir_fails_too (w : World) (l : Loader) (path : Str) (hd : Handler) (lm : Option Int) (err : Err)
    (h : loadManifestsForPath w path true true defaultFuel l.loaded = .error err) :
    l.assertDirectoryVerifies w path hd lm = .error err := by
  have : l.getFileEntryDict w path = .error err := by
    simp [Loader.getFileEntryDict, h, bind, Except.bind]
  unfold Loader.assertDirectoryVerifies
  rw [this]

theorem C02_find_dist_fails_too (w : World) (l : Loader) (fn rp : Str) (err : Err)
    (h : loadManifestsForPath w (rp ++ [slash]) false true defaultFuel l.loaded = .error err) :
    l.findDistEntry w fn rp = .error err := by
  simp [Loader.findDistEntry, h, bind, Except.bind]

end Gemato.C02
