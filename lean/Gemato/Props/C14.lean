import Gemato.Model.Save
import Gemato.Model.Cli
import Gemato.Props.C13
/-
  C14 - a signed tree stays signed; sub-Manifests are never signed.

  The `signed` flag of a `Write.file` says that the dumped entries are handed to
  `gpg --clearsign` and its output is what is written; that gpg's output is a
  cleartext-signed message over exactly that text which verifies is checked
  against the real gpg by the harness (harness/props/c14.py), not proved.
-/
namespace Gemato.Props.C14
open Gemato.L1 Gemato.U

/-- `sign_openpgp`, with `None` meaning "as the top-level Manifest was loaded" -/
def decision (s : St) : Bool := s.signOpt.getD s.topSigned

/-- **the sign decision, stated outright**: a Manifest is signed iff it is the
    top-level Manifest and signing is requested, or not disabled and the
    top-level Manifest was loaded with a verified signature -/
theorem C14_sign_decision (s : St) (mp : Str) :
    signFor s mp = true ↔ mp = s.top ∧ (s.signOpt = some true ∨ (s.signOpt = none ∧ s.topSigned = true)) := by
  unfold signFor
  by_cases h : mp = s.top
  · subst h
    cases hs : s.signOpt with
    | none => simp
    | some b => cases b <;> simp
  · have : (mp == s.top) = false := by simpa using h
    simp [this, h]

/-- **sub-Manifests are never signed** -/
theorem C14_sub_manifest_never_signed (s : St) (mp : Str) (h : mp ≠ s.top) : signFor s mp = false := by
  have : (mp == s.top) = false := by simpa using h
  simp [signFor, this]

/-- signing disabled: nothing is signed -/
theorem C14_no_sign (s : St) (mp : Str) (h : s.signOpt = some false) : signFor s mp = false := by
  unfold signFor; split <;> simp [h]

/-- signing requested: the top-level Manifest is signed whether or not it was before -/
theorem C14_force_sign (s : St) (h : s.signOpt = some true) : signFor s s.top = true := by
  simp [signFor, h]

/-- neither: the top-level Manifest keeps its state -/
theorem C14_keep (s : St) (h : s.signOpt = none) : signFor s s.top = s.topSigned := by
  simp [signFor, h]

theorem signFor_decision (s : St) (mp : Str) (h : signFor s mp = true) : decision s = true := by
  unfold signFor at h
  split at h
  · exact h
  · cases h

private theorem setIds_fields (s : St) (mp : Str) (ids : List Nat) :
    (s.setIds mp ids).top = s.top ∧ (s.setIds mp ids).signOpt = s.signOpt ∧ (s.setIds mp ids).topSigned = s.topSigned ∧
    (s.setIds mp ids).keyUsable = s.keyUsable := by
  unfold St.setIds; split <;> exact ⟨rfl, rfl, rfl, rfl⟩

/-- **what the write step hands to gpg.** Every Manifest text the step writes
    is written under the Manifest's own name with the flag of the sign
    decision, or - when the watermark makes it change its name - under the new
    name with the same decision: a signed top-level Manifest is signed under
    its new name too (repair of finding F23), a sub-Manifest stays unsigned
    (unless it takes over the very name of the top-level Manifest). -/
theorem C14_write_step_flags (o : SaveOpts) (ss1 : SSt) (mp p t : Str) (sg : Bool)
    (h : Write.file p t sg ∈ (writeStep o ss1 mp).writes) :
    Write.file p t sg ∈ ss1.writes ∨ (p = mp ∧ sg = signFor ss1.st mp) ∨
    sg = (if mp = ss1.st.top ∨ p = ss1.st.top then decision ss1.st else false) := by
  unfold writeStep at h
  simp only at h
  cases hw : o.watermark with
  | none =>
    simp only [hw, List.mem_append, List.mem_singleton, Write.file.injEq] at h
    rcases h with h | ⟨h1, _, h3⟩
    · exact Or.inl h
    · exact Or.inr (Or.inl ⟨h1, h3⟩)
  | some wm =>
    simp only [hw] at h
    generalize ((compressedSuffix? mp).isSome == _) = B at h
    cases B
    case true =>
      simp only [if_true, List.mem_append, List.mem_singleton, Write.file.injEq] at h
      rcases h with h | ⟨h1, _, h3⟩
      · exact Or.inl h
      · exact Or.inr (Or.inl ⟨h1, h3⟩)
    case false =>
      simp only [Bool.false_eq_true, if_false] at h
      generalize (List.any _ _) = T at h
      cases T
      case true =>
        simp only [if_true, List.mem_append, List.mem_singleton, Write.file.injEq] at h
        rcases h with h | ⟨h1, _, h3⟩
        · exact Or.inl h
        · exact Or.inr (Or.inl ⟨h1, h3⟩)
      simp only [Bool.false_eq_true, if_false, List.mem_append, List.mem_singleton, List.mem_cons, Write.file.injEq,
        List.not_mem_nil, or_false, reduceCtorEq] at h
      rcases h with (h | ⟨h1, _, h3⟩) | ⟨h1, _, h3⟩
      · exact Or.inl h
      · exact Or.inr (Or.inl ⟨h1, h3⟩)
      · refine Or.inr (Or.inr ?_)
        rw [h3, ← h1]
        obtain ⟨f1, f2, f3, _⟩ := setIds_fields ss1.st mp
          (List.map (fun x => x.1) (if o.sort = true then stableSort (fun a b => entryLt a.2 b.2) (ss1.st.entriesOf mp)
            else ss1.st.entriesOf mp))
        simp only [signFor, f1, f2, f3, decision]
        by_cases e1 : ss1.st.top = mp
        · have e1' : mp = ss1.st.top := e1.symm
          simp [e1, h1]
        · have e1' : ¬ mp = ss1.st.top := fun hh => e1 hh.symm
          simp only [beq_iff_eq, e1, if_false, e1', false_or]

/-- **a signing failure is an error, not an unsigned Manifest**: when the
    Manifest about to be written is to be signed and gpg cannot sign, the step
    raises; the state and the list of writes of a successful step are never produced -/
theorem C14_signing_failure_raises (w : World) (post : Str → Option FileMeta) (o : SaveOpts) (ss ss1 : SSt) (mp rel : Str)
    (hre : foldE (refreshStep w post o mp rel) ss (ss.st.entriesOf mp) = .ok ss1)
    (hwr : (o.force || ss1.st.updated.contains mp) = true)
    (hsign : signFor ss1.st mp = true) (hkey : ss1.st.keyUsable = false) :
    saveOne w post o ss mp rel = .error .signing := by
  unfold saveOne
  simp only [hre, hwr, hsign, hkey, Bool.not_true, Bool.false_eq_true, if_false, Bool.not_false, Bool.and_self, if_true]

/-- with a usable key the step is the write step -/
theorem C14_usable_key_writes (w : World) (post : Str → Option FileMeta) (o : SaveOpts) (ss ss1 : SSt) (mp rel : Str)
    (hre : foldE (refreshStep w post o mp rel) ss (ss.st.entriesOf mp) = .ok ss1)
    (hwr : (o.force || ss1.st.updated.contains mp) = true) (hkey : ss1.st.keyUsable = true) :
    saveOne w post o ss mp rel = .ok (writeStep o ss1 mp) := by
  unfold saveOne
  simp only [hre, hwr, hkey, Bool.not_true, Bool.false_eq_true, if_false, Bool.and_false]

-- the sign options are constants of a save ---------------------------------------------------------

/-- the part of the state the sign decision reads -/
def signCfg (s : St) : Option Bool × Bool × Bool := (s.signOpt, s.topSigned, s.keyUsable)

private theorem refreshStep_cfg (w : World) (post : Str → Option FileMeta) (o : SaveOpts) (mp rel : Str) (acc acc' : SSt)
    (ie : IEntry) (h : refreshStep w post o mp rel acc ie = .ok acc') :
    signCfg acc'.st = signCfg acc.st ∧ acc'.writes = acc.writes := by
  unfold refreshStep at h
  split at h
  · simp only at h
    split at h
    · cases h; exact ⟨rfl, rfl⟩
    · split at h
      · cases h
      · split at h
        · cases h
        · split at h
          · cases h
          · cases h; exact ⟨rfl, rfl⟩
  · cases h; exact ⟨rfl, rfl⟩

private theorem refresh_fold_cfg (w : World) (post : Str → Option FileMeta) (o : SaveOpts) (mp rel : Str) :
    ∀ (es : List IEntry) (acc acc' : SSt), foldE (refreshStep w post o mp rel) acc es = .ok acc' →
      signCfg acc'.st = signCfg acc.st ∧ acc'.writes = acc.writes := by
  intro es
  induction es with
  | nil => intro acc acc' h; simp only [foldE] at h; cases h; exact ⟨rfl, rfl⟩
  | cons x rest ih =>
    intro acc acc' h
    simp only [foldE] at h
    split at h
    · cases h
    · rename_i s1 hs1
      obtain ⟨a1, a2⟩ := refreshStep_cfg w post o mp rel acc s1 x hs1
      obtain ⟨b1, b2⟩ := ih s1 acc' h
      exact ⟨b1.trans a1, b2.trans a2⟩

private theorem writeStep_cfg (o : SaveOpts) (ss1 : SSt) (mp : Str) : signCfg (writeStep o ss1 mp).st = signCfg ss1.st := by
  unfold writeStep
  simp only
  cases hw : o.watermark with
  | none =>
    obtain ⟨_, f2, f3, f4⟩ := setIds_fields ss1.st mp
      (List.map (fun x => x.1) (if o.sort = true then stableSort (fun a b => entryLt a.2 b.2) (ss1.st.entriesOf mp)
        else ss1.st.entriesOf mp))
    simp only [signCfg, f2, f3, f4]
  | some wm =>
    simp only
    generalize ((compressedSuffix? mp).isSome == _) = B
    generalize (List.any _ _) = T
    obtain ⟨_, f2, f3, f4⟩ := setIds_fields ss1.st mp
      (List.map (fun x => x.1) (if o.sort = true then stableSort (fun a b => entryLt a.2 b.2) (ss1.st.entriesOf mp)
        else ss1.st.entriesOf mp))
    cases B <;> cases T <;> simp only [signCfg, f2, f3, f4, Bool.false_eq_true, if_false, if_true]

private theorem sync_cfg (lm : LoadedMs) : ∀ (acc : St), signCfg (acc.sync lm) = signCfg acc := by
  induction lm with
  | nil => intro acc; rfl
  | cons kv rest ih =>
    intro acc
    unfold St.sync
    simp only [List.foldl_cons]
    split
    · exact ih acc
    · exact (ih _).trans rfl

/-- all `.file` writes of `ws` beyond those of `ws0` are unsigned -/
def NewUnsigned (ws0 ws : List Write) : Prop := ∀ p t sg, Write.file p t sg ∈ ws → Write.file p t sg ∈ ws0 ∨ sg = false

private theorem saveOne_unsigned (w : World) (post : Str → Option FileMeta) (o : SaveOpts) (ss ss' : SSt) (mp rel : Str)
    (hd : decision ss.st = false) (h : saveOne w post o ss mp rel = .ok ss') :
    signCfg ss'.st = signCfg ss.st ∧ NewUnsigned ss.writes ss'.writes := by
  unfold saveOne at h
  split at h
  · cases h
  · rename_i ss1 h1
    obtain ⟨c1, c2⟩ := refresh_fold_cfg w post o mp rel _ ss ss1 h1
    have hd1 : decision ss1.st = false := by
      have : (ss1.st.signOpt, ss1.st.topSigned, ss1.st.keyUsable) = (ss.st.signOpt, ss.st.topSigned, ss.st.keyUsable) := c1
      simp only [Prod.mk.injEq] at this
      simp only [decision, this.1, this.2.1]; exact hd
    split at h
    · cases h; exact ⟨c1, fun p t sg hm => Or.inl (c2 ▸ hm)⟩
    · split at h
      · cases h
      · cases h
        refine ⟨(writeStep_cfg o ss1 mp).trans c1, ?_⟩
        intro p t sg hm
        rcases C14_write_step_flags o ss1 mp p t sg hm with h' | ⟨_, h'⟩ | h'
        · exact Or.inl (c2 ▸ h')
        · right
          rw [h']
          cases hs : signFor ss1.st mp with
          | false => rfl
          | true => rw [signFor_decision ss1.st mp hs] at hd1; cases hd1
        · right; rw [h', hd1]; simp

/-- **signing disabled, or an unsigned tree without `--sign`: every Manifest of
    the save is written plain** - whatever is renamed, forced or refreshed -/
theorem C14_plain_when_not_signing (w : World) (post : Str → Option FileMeta) (s s' : St) (o : SaveOpts) (ws : List Write)
    (hd : decision s = false) (h : saveAll w post s o = .ok (s', ws)) :
    ∀ p t sg, Write.file p t sg ∈ ws → sg = false := by
  unfold saveAll at h
  simp only at h
  -- the optional reload keeps the options
  have key : ∀ (s1 : St), signCfg s1 = signCfg s →
      ∀ (ms : List (Str × Str × List Entry)) (ss ss' : SSt), signCfg ss.st = signCfg s1 →
        foldE (fun (ss : SSt) (kdv : Str × Str × List Entry) => saveOne w post o ss kdv.1 kdv.2.1) ss ms = .ok ss' →
        NewUnsigned ss.writes ss'.writes := by
    intro s1 hs1 ms
    induction ms with
    | nil => intro ss ss' _ hf; simp only [foldE] at hf; cases hf; exact fun p t sg hm => Or.inl hm
    | cons m rest ih =>
      intro ss ss' hc hf
      simp only [foldE] at hf
      split at hf
      · cases hf
      · rename_i ssm hm
        have hdss : decision ss.st = false := by
          have e : (ss.st.signOpt, ss.st.topSigned, ss.st.keyUsable) = (s.signOpt, s.topSigned, s.keyUsable) := hc.trans hs1
          simp only [Prod.mk.injEq] at e
          simp only [decision, e.1, e.2.1]; exact hd
        obtain ⟨c1, c2⟩ := saveOne_unsigned w post o ss ssm m.1 m.2.1 hdss hm
        have := ih ssm ss' (c1.trans hc) hf
        intro p t sg hmem
        rcases this p t sg hmem with h' | h'
        · exact c2 p t sg h'
        · exact Or.inr h'
  split at h
  · cases h
  · rename_i s1 hs1
    have hcfg : signCfg s1 = signCfg s := by
      split at hs1
      · unfold St.load at hs1
        split at hs1
        · cases hs1
        · cases hs1
          exact sync_cfg _ s
      · cases hs1; rfl
    split at h
    · cases h
    · rename_i ss hfold
      split at h
      · cases h
      · cases h
        intro p t sg hmem
        rcases key s1 hcfg _ { st := s1 } ss rfl hfold p t sg hmem with h' | h'
        · simp at h'
        · exact h'

end Gemato.Props.C14
