import Gemato.Model.Cli
import Gemato.Props.C09
/-
  C18 — Bad input produces a diagnosed failure, not an internal error.

  The model marks every *partial* Python operation of the modelled code with the
  error value `Err.internal k` (attribute access on an entry class that lacks the
  attribute, subscripts, `list.remove`, `assert`, `NotImplementedError`), and
  `Cli.mainExit` maps it to `Exit.traceback k`: the outcome the property excludes.

  Proved here, for every tree, every Manifest text and every path (no bound on sizes):
  * how `main` ends: library errors are exit status 1, a traceback comes from an
    internal error and from nothing else (`C18_gemato_is_exit_1`, `C18_traceback_iff`);
  * **`gemato verify` never ends in a traceback** (`C18_verify_no_traceback`): the whole
    pipeline - loading and verifying the Manifest chain, building the entry dictionary
    with its compatibility checks, the walk over the tree, the pass over entries of
    unvisited directories - has no reachable internal-error site;
  * for `gemato update` / `create`: the stages before the walk never end in an internal
    error, and the partial operations of the walk (stack pops, the climb of a new
    MANIFEST entry, refreshing an entry) are guarded - the remaining sites are exactly
    the recorded findings (see the end of this file).
-/
namespace Gemato.C18
open Gemato.L1 Gemato.Cli

def Err.isInternal : Err → Bool
  | .internal _ => true
  | _ => false

/-- an outcome that is not an internal error -/
def Fine {α : Type} (r : Except Err α) : Prop := ∀ k, r ≠ .error (.internal k)

theorem fine_ok {α : Type} (a : α) : Fine (Except.ok a : Except Err α) := by
  intro k h; cases h

theorem fine_error {α : Type} (e : Err) (h : Err.isInternal e = false) : Fine (Except.error e : Except Err α) := by
  intro k hk; cases hk; simp [Err.isInternal] at h

/-! ## How `main` ends -/

/-- **every library exception becomes a logged message and exit status 1** -/
theorem C18_gemato_is_exit_1 {α : Type} (e : Err) (ok : α → Nat) (h : isGemato e = true) :
    mainExit (.error e) ok = .status 1 := by
  simp [mainExit, h]

/-- **a traceback comes from an internal error, and from nothing else** -/
theorem C18_traceback_iff {α : Type} (r : Except Err α) (ok : α → Nat) (k : IntKind) :
    mainExit r ok = .traceback k ↔ r = .error (.internal k) := by
  constructor
  · intro h
    cases r with
    | ok a => simp [mainExit] at h
    | error e =>
      cases e <;> simp_all [mainExit, isGemato]
  · intro h; subst h; simp [mainExit, isGemato]

/-- an operating-system error is reported as that error (it is neither swallowed nor turned into a status) -/
theorem C18_oserror_iff {α : Type} (r : Except Err α) (ok : α → Nat) (x : Errno) :
    mainExit r ok = .oserror x ↔ r = .error (.os x) := by
  constructor
  · intro h
    cases r with
    | ok a => simp [mainExit] at h
    | error e => cases e <;> simp_all [mainExit, isGemato]
  · intro h; subst h; simp [mainExit, isGemato]

/-- the complete classification of `main`'s ending -/
theorem C18_exit_classes {α : Type} (r : Except Err α) (ok : α → Nat) :
    (∃ a, r = .ok a ∧ mainExit r ok = .status (ok a)) ∨
    (∃ e, r = .error e ∧ isGemato e = true ∧ mainExit r ok = .status 1) ∨
    (∃ x, r = .error (.os x) ∧ mainExit r ok = .oserror x) ∨
    (∃ k, r = .error (.internal k) ∧ mainExit r ok = .traceback k) ∨
    (r = .error .abstain ∧ mainExit r ok = .abstain) := by
  cases r with
  | ok a => exact Or.inl ⟨a, rfl, rfl⟩
  | error e => cases e <;> simp [mainExit, isGemato]

/-! ## Per-file verification -/

def NotTs : Entry → Prop
  | .timestamp _ => False
  | _ => True

instance : DecidablePred NotTs := fun e => by cases e <;> simp [NotTs] <;> infer_instance

theorem digestsMatch_fine (m : FileMeta) (cks : List (Str × Str)) : Fine (digestsMatch m cks) := by
  intro k h
  unfold digestsMatch at h
  split at h
  · cases h
  · split at h <;> cases h

theorem fileCheck_fine (m : FileMeta) (n : Nat) (cks : List (Str × Str)) (lm : Option Int) :
    Fine (fileCheck m n cks lm) := by
  intro k h
  unfold fileCheck at h
  split at h
  · cases h
  · split at h
    · cases h
    · split at h
      · rename_i err heq
        cases h
        exact digestsMatch_fine m cks k heq
      · cases h

/-- `verify_path` on any object, with any entry that is not a TIMESTAMP (or none) -/
theorem verifyObj_fine (o : Obj) (p : Str) (e : Option Entry) (dev? : Option Nat) (lm : Option Int)
    (hts : ∀ x, e = some x → NotTs x) : Fine (verifyObj o p e dev? lm) := by
  intro k h
  cases e with
  | none => cases o <;> simp [verifyObj] at h
  | some x =>
    cases x with
    | timestamp t => exact (hts _ rfl).elim
    | ignore q => simp [verifyObj] at h
    | file t q n c =>
      cases o with
      | file m =>
        simp only [verifyObj] at h
        split at h
        · cases h
        · exact fileCheck_fine m n c lm k h
      | dir d i ks => simp only [verifyObj] at h; split at h <;> cases h
      | special d => simp only [verifyObj] at h; split at h <;> cases h
      | absent => simp [verifyObj] at h
      | notdir => simp [verifyObj] at h
      | fault c => simp [verifyObj] at h

theorem verifyPath_fine (w : World) (p : Str) (e : Option Entry) (dev? : Option Nat) (lm : Option Int)
    (hts : ∀ x, e = some x → NotTs x) : Fine (w.verifyPath p e dev? lm) := by
  intro k h
  unfold World.verifyPath at h
  split at h
  · cases h
  · exact verifyObj_fine _ p e dev? lm hts k h

/-! ## Loading the Manifest chain -/

theorem loadLines_fine (s : LoadSt) (ls : List Str) (k : IntKind) : loadLines s ls ≠ .error (.internal k) := by
  intro h
  rcases C09.loadLines_err s ls _ h with h | h <;> cases h

/-- `verify_and_load` of one Manifest file -/
theorem loadOne_fine (w : World) (p : Str) (ve : Option Entry) (hts : ∀ x, ve = some x → NotTs x) :
    Fine (loadOne w p ve) := by
  intro k h
  unfold loadOne at h
  simp only [bind, Except.bind] at h
  -- the verification part
  split at h
  · rename_i e hv
    cases h
    cases ve with
    | none => simp [pure, Except.pure] at hv
    | some x =>
      simp only [bind, Except.bind] at hv
      split at hv
      · rename_i e' hvp
        cases hv
        exact verifyPath_fine w p (some x) none none hts k hvp
      · split at hv <;> simp [pure, Except.pure, throw, throwThe, MonadExceptOf.throw] at hv
  · -- the read/parse part
    split at h
    all_goals try (simp [throw, throwThe, MonadExceptOf.throw] at h; done)
    rename_i m _
    split at h
    all_goals try (simp [throw, throwThe, MonadExceptOf.throw] at h; done)
    · -- broken stream: the delivered prefix is parsed first
      split at h
      all_goals try (simp [throw, throwThe, MonadExceptOf.throw] at h; done)
      rename_i k' hl
      exact loadLines_fine _ _ k' hl
    · -- complete text
      split at h
      all_goals try (simp [throw, throwThe, MonadExceptOf.throw, pure, Except.pure] at h; done)
      rename_i k' hl
      exact (C09.C09_no_internal_text _ k').2 hl

theorem isManifest_notTs (e : Entry) (h : e.isManifest = true) : NotTs e := by
  cases e <;> simp_all [Entry.isManifest, NotTs]

/-- everything queued for loading is verified against a MANIFEST entry or not at all -/
theorem toLoad_notTs (lm : LoadedMs) (path : Str) (rec ver : Bool) (p : Str) (x : Entry)
    (h : (p, some x) ∈ toLoad lm path rec ver) : NotTs x := by
  simp only [toLoad, List.mem_flatMap, List.mem_filterMap] at h
  obtain ⟨⟨cur, rel, es⟩, _, e, _, he⟩ := h
  by_cases hm : e.isManifest = true
  · simp only [hm, Bool.not_true, Bool.false_eq_true, if_false] at he
    split at he
    · cases he
    · split at he
      · simp only [Option.some.injEq, Prod.mk.injEq] at he
        obtain ⟨_, hx⟩ := he
        split at hx
        · cases hx; exact isManifest_notTs _ hm
        · cases hx
      · cases he
  · simp [hm] at he

theorem loadAll_fine (w : World) (tl : List (Str × Option Entry))
    (hts : ∀ p x, (p, some x) ∈ tl → NotTs x) : ∀ lm, Fine (loadAll w lm tl) := by
  induction tl with
  | nil => intro lm; exact fine_ok _
  | cons pe rest ih =>
    intro lm k h
    obtain ⟨p, e⟩ := pe
    simp only [loadAll] at h
    split at h
    · rename_i err hl
      cases h
      exact loadOne_fine w p e (fun x hx => hts p x (by subst hx; exact List.mem_cons_self)) k hl
    · exact ih (fun q x hq => hts q x (List.mem_cons_of_mem _ hq)) _ k h

/-- `load_manifests_for_path`, any number of rounds -/
theorem loadManifestsForPath_fine (w : World) (path : Str) (rec ver : Bool) :
    ∀ fuel lm, Fine (loadManifestsForPath w path rec ver fuel lm) := by
  intro fuel
  induction fuel with
  | zero => intro lm k h; simp [loadManifestsForPath] at h
  | succ n ih =>
    intro lm k h
    simp only [loadManifestsForPath] at h
    split at h
    · cases h
    · split at h
      · rename_i err hl
        cases h
        exact loadAll_fine w _ (fun p x hp => toLoad_notTs lm path rec ver p x hp) lm k hl
      · exact ih _ k h

/-! ## The entry dictionary -/

/-- no TIMESTAMP entry in the dictionary -/
def NoTs (ed : EntryDict) : Prop := ∀ d fs, (d, fs) ∈ ed → ∀ nm e, (nm, e) ∈ fs → NotTs e

theorem entryCompat_fine (a b : Entry) (ha : NotTs a) (hb : NotTs b) : Fine (entryCompat a b) := by
  intro k h
  cases a <;> cases b <;> simp_all [entryCompat, NotTs]
  all_goals (repeat' split at h) <;> cases h

theorem mergeEntries_notTs (a b : Entry) (hb : NotTs b) : NotTs (mergeEntries a b) := by
  cases a <;> cases b <;> simp_all [mergeEntries, NotTs]

theorem edGet_notTs (ed : EntryDict) (h : NoTs ed) (d nm : Str) (e : Entry) (hm : (nm, e) ∈ edGet ed d) : NotTs e := by
  unfold edGet at hm
  cases hf : ed.find? (·.1 == d) with
  | none => simp [hf] at hm
  | some kv =>
    simp only [hf, Option.map_some, Option.getD_some] at hm
    exact h kv.1 kv.2 (List.mem_of_find?_eq_some hf) nm e hm

theorem edSet_noTs (ed : EntryDict) (h : NoTs ed) (d nm : Str) (e : Entry) (he : NotTs e) : NoTs (edSet ed d nm e) := by
  have hupd : ∀ fs : List (Str × Entry), (∀ n x, (n, x) ∈ fs → NotTs x) →
      ∀ n x, (n, x) ∈ (if fs.any (·.1 == nm) then fs.map (fun kv => if kv.1 == nm then (nm, e) else kv) else fs ++ [(nm, e)]) →
      NotTs x := by
    intro fs hfs n x hx
    split at hx
    · simp only [List.mem_map] at hx
      obtain ⟨kv, hkv, hx⟩ := hx
      split at hx
      · cases hx; exact he
      · subst hx; exact hfs _ _ hkv
    · rcases List.mem_append.mp hx with hx | hx
      · exact hfs _ _ hx
      · simp only [List.mem_singleton, Prod.mk.injEq] at hx; obtain ⟨_, rfl⟩ := hx; exact he
  intro d' fs hmem n x hx
  unfold edSet at hmem
  simp only at hmem
  split at hmem
  · simp only [List.mem_map] at hmem
    obtain ⟨kv, hkv, hk⟩ := hmem
    split at hk
    · simp only [Prod.mk.injEq] at hk
      obtain ⟨_, rfl⟩ := hk
      exact hupd kv.2 (fun n x hnx => h kv.1 kv.2 hkv n x hnx) n x hx
    · subst hk; exact h _ _ hkv n x hx
  · rcases List.mem_append.mp hmem with hm | hm
    · exact h _ _ hm n x hx
    · simp only [List.mem_singleton, Prod.mk.injEq] at hm
      obtain ⟨_, rfl⟩ := hm
      exact hupd [] (fun _ _ hh => by cases hh) n x hx

theorem edStep_fine (path rel : Str) (out : EntryDict) (h : NoTs out) (e : Entry) :
    Fine (edStep path rel out e) ∧ (∀ o, edStep path rel out e = .ok o → NoTs o) := by
  have core : ∀ (e : Entry), NotTs e →
      Fine (if !pathStartsWith (pjoin rel e.fullPath) path then (.ok out : Except Err EntryDict) else
        match (edGet out (dirname (pjoin rel e.fullPath))).find? (·.1 == basename e.fullPath) with
        | none => .ok (edSet out (dirname (pjoin rel e.fullPath)) (basename e.fullPath) e)
        | some (_, old) =>
          match entryCompat old e with
          | .error err => .error err
          | .ok (.ok extra) => .ok (edSet out (dirname (pjoin rel e.fullPath)) (basename e.fullPath)
              (if extra then mergeEntries old e else e))
          | .ok _ => .error .incompatible) ∧
      (∀ o, (if !pathStartsWith (pjoin rel e.fullPath) path then (.ok out : Except Err EntryDict) else
        match (edGet out (dirname (pjoin rel e.fullPath))).find? (·.1 == basename e.fullPath) with
        | none => .ok (edSet out (dirname (pjoin rel e.fullPath)) (basename e.fullPath) e)
        | some (_, old) =>
          match entryCompat old e with
          | .error err => .error err
          | .ok (.ok extra) => .ok (edSet out (dirname (pjoin rel e.fullPath)) (basename e.fullPath)
              (if extra then mergeEntries old e else e))
          | .ok _ => .error .incompatible) = .ok o → NoTs o) := by
    intro e he
    split
    · exact ⟨fine_ok _, fun o ho => by cases ho; exact h⟩
    · split
      · exact ⟨fine_ok _, fun o ho => by cases ho; exact edSet_noTs _ h _ _ _ he⟩
      · rename_i nm old hf
        have hold : NotTs old := edGet_notTs out h _ _ old (List.mem_of_find?_eq_some hf)
        split
        · rename_i err hc
          exact ⟨fun k hk => by cases hk; exact entryCompat_fine old _ hold he k hc, fun o ho => by cases ho⟩
        · refine ⟨fine_ok _, fun o ho => ?_⟩
          cases ho
          apply edSet_noTs _ h
          split
          · exact mergeEntries_notTs _ _ he
          · exact he
        · exact ⟨fine_error _ rfl, fun o ho => by cases ho⟩
  cases e with
  | timestamp t => exact ⟨fine_ok _, fun o ho => by cases ho; exact h⟩
  | ignore q => exact core (.ignore q) trivial
  | file t q n c =>
    cases t
    case DIST => exact ⟨fine_ok _, fun o ho => by cases ho; exact h⟩
    all_goals exact core _ trivial

theorem foldlM_inv {σ α : Type} (f : σ → α → Except Err σ) (P : σ → Prop)
    (hstep : ∀ s a, P s → Fine (f s a) ∧ ∀ s', f s a = .ok s' → P s') :
    ∀ (xs : List α) (s : σ), P s → Fine (xs.foldlM f s) ∧ ∀ s', xs.foldlM f s = .ok s' → P s' := by
  intro xs
  induction xs with
  | nil => intro s hs; exact ⟨fun k hk => by simp [List.foldlM, pure, Except.pure] at hk,
                              fun s' h => by simp [List.foldlM, pure, Except.pure] at h; subst h; exact hs⟩
  | cons a rest ih =>
    intro s hs
    obtain ⟨h1, h2⟩ := hstep s a hs
    simp only [List.foldlM_cons, bind, Except.bind]
    cases hf : f s a with
    | error e => exact ⟨fun k hk => by cases hk; exact h1 k hf, fun s' h => by cases h⟩
    | ok s1 => exact ih s1 (h2 s1 hf)

/-- **building the entry dictionary never ends in an internal error**, and the dictionary holds no TIMESTAMP -/
theorem entryDictFold_fine (path : Str) (ms : List (Str × Str × List Entry)) :
    Fine (entryDictFold path ms) ∧ ∀ ed, entryDictFold path ms = .ok ed → NoTs ed := by
  unfold entryDictFold
  refine foldlM_inv _ NoTs ?_ ms [] (fun _ _ hm => by cases hm)
  intro out kv hout
  obtain ⟨_, rel, es⟩ := kv
  exact foldlM_inv (edStep path rel) NoTs (fun s a hs => edStep_fine path rel s hs a) es out hout

theorem getFileEntryDict_fine (w : World) (l : Loader) (path : Str) (ver : Bool) :
    Fine (l.getFileEntryDict w path ver) ∧ ∀ l' ed, l.getFileEntryDict w path ver = .ok (l', ed) → NoTs ed := by
  unfold Loader.getFileEntryDict
  simp only [bind, Except.bind, pure, Except.pure]
  cases hl : loadManifestsForPath w path true ver defaultFuel l.loaded with
  | error e =>
    exact ⟨fun k hk => by cases hk; exact loadManifestsForPath_fine w path true ver _ _ k hl, fun _ _ h => by cases h⟩
  | ok lm =>
    simp only
    obtain ⟨h1, h2⟩ := entryDictFold_fine path (iterManifests lm path true)
    cases hd : entryDictFold path (iterManifests lm path true) with
    | error e => exact ⟨fun k hk => by cases hk; exact h1 k hd, fun _ _ h => by cases h⟩
    | ok ed => exact ⟨fine_ok _, fun l' ed' h => by cases h; exact h2 ed hd⟩

/-! ## The walk -/

theorem foldE_inv {σ α : Type} (f : σ → α → Except Err σ) (P : σ → Prop)
    (hstep : ∀ s a, P s → Fine (f s a) ∧ ∀ s', f s a = .ok s' → P s') :
    ∀ (xs : List α) (s : σ), P s → Fine (foldE f s xs) ∧ ∀ s', foldE f s xs = .ok s' → P s' := by
  intro xs
  induction xs with
  | nil => intro s hs; exact ⟨fine_ok _, fun s' h => by simp [foldE] at h; subst h; exact hs⟩
  | cons a rest ih =>
    intro s hs
    obtain ⟨h1, h2⟩ := hstep s a hs
    simp only [foldE]
    cases hf : f s a with
    | error e => exact ⟨fun k hk => by cases hk; exact h1 k hf, fun s' h => by cases h⟩
    | ok s1 => exact ih s1 (h2 s1 hf)

/-- the entries of a per-directory dict are not TIMESTAMPs -/
def DdOk (dd : List (Str × Entry)) : Prop := ∀ nm e, (nm, e) ∈ dd → NotTs e

theorem ddGet_notTs (dd : List (Str × Entry)) (h : DdOk dd) (f : Str) : ∀ x, ddGet dd f = some x → NotTs x := by
  intro x hx
  unfold ddGet at hx
  cases hf : dd.find? (·.1 == f) with
  | none => simp [hf] at hx
  | some kv =>
    simp only [hf, Option.map_some, Option.some.injEq] at hx
    subst hx
    exact h kv.1 kv.2 (List.mem_of_find?_eq_some hf)

theorem verifyOne_fine (c : VCfg) (st : WalkSt) (rel : Str) (e : Option Entry) (hts : ∀ x, e = some x → NotTs x) :
    Fine (verifyOne c st rel e) ∧ ∀ st', verifyOne c st rel e = .ok st' → st'.ed = st.ed := by
  unfold verifyOne
  split
  · rename_i err hv
    exact ⟨fun k hk => by cases hk; exact verifyPath_fine c.w rel e c.dev? c.lastMtime hts k hv, fun _ h => by cases h⟩
  · exact ⟨fine_ok _, fun st' h => by cases h; rfl⟩
  · split
    · exact ⟨fine_error _ rfl, fun _ h => by cases h⟩
    · exact ⟨fine_ok _, fun st' h => by cases h; rfl⟩

theorem filesStep_fine (c : VCfg) (rel : Str) (acc : WalkSt × List (Str × Entry)) (f : Str)
    (h : NoTs acc.1.ed ∧ DdOk acc.2) :
    Fine (filesStep c rel acc f) ∧ ∀ acc', filesStep c rel acc f = .ok acc' → NoTs acc'.1.ed ∧ DdOk acc'.2 := by
  unfold filesStep
  split
  · exact ⟨fine_ok _, fun acc' ha => by cases ha; exact h⟩
  · split
    · exact ⟨fine_ok _, fun acc' ha => by cases ha; exact h⟩
    · obtain ⟨v1, v2⟩ := verifyOne_fine c acc.1 (relJoin rel f) (ddGet acc.2 f) (ddGet_notTs acc.2 h.2 f)
      split
      · rename_i err hv
        exact ⟨fun k hk => by cases hk; exact v1 k hv, fun _ ha => by cases ha⟩
      · rename_i st' hv
        refine ⟨fine_ok _, fun acc' ha => ?_⟩
        cases ha
        refine ⟨by rw [v2 st' hv]; exact h.1, ?_⟩
        intro nm e hm
        exact h.2 nm e ((List.mem_filter.mp hm).1)

theorem leftoverStep_fine (c : VCfg) (pf : Str → Str) (acc : WalkSt) (fe : Str × Entry) (hfe : NotTs fe.2) :
    Fine (leftoverStep c pf acc fe) ∧ ∀ acc', leftoverStep c pf acc fe = .ok acc' → acc'.ed = acc.ed := by
  unfold leftoverStep
  exact verifyOne_fine c acc (pf fe.1) (some fe.2) (fun x hx => by cases hx; exact hfe)

theorem leftover_fold_fine (c : VCfg) (pf : Str → Str) (dd : List (Str × Entry)) (hdd : DdOk dd) :
    ∀ (st : WalkSt), Fine (foldE (leftoverStep c pf) st dd) ∧
      ∀ st', foldE (leftoverStep c pf) st dd = .ok st' → st'.ed = st.ed := by
  induction dd with
  | nil => intro st; exact ⟨fine_ok _, fun st' h => by simp [foldE] at h; subst h; rfl⟩
  | cons fe rest ih =>
    intro st
    obtain ⟨h1, h2⟩ := leftoverStep_fine c pf st fe (hdd fe.1 fe.2 List.mem_cons_self)
    simp only [foldE]
    cases hf : leftoverStep c pf st fe with
    | error e => exact ⟨fun k hk => by cases hk; exact h1 k hf, fun _ h => by cases h⟩
    | ok s1 =>
      obtain ⟨i1, i2⟩ := ih (fun nm e hm => hdd nm e (List.mem_cons_of_mem _ hm)) s1
      exact ⟨i1, fun st' h => by rw [i2 st' h, h2 s1 hf]⟩

theorem noTs_filter (ed : EntryDict) (h : NoTs ed) (p : Str × List (Str × Entry) → Bool) : NoTs (ed.filter p) :=
  fun d fs hm => h d fs ((List.mem_filter.mp hm).1)

theorem prune_ok (st : WalkSt) (sys rel : Str) (dev ino : Nat) (kids : List (Str × Node)) (h : NoTs st.ed) :
    NoTs (prune st sys rel dev ino kids).st1.ed ∧ DdOk (prune st sys rel dev ino kids).dirdict1 := by
  refine ⟨?_, ?_⟩
  · simp only [prune, edPop]
    exact noTs_filter _ h _
  · intro nm e hm
    simp only [prune, edPop] at hm
    exact edGet_notTs st.ed h rel nm e ((List.mem_filter.mp hm).1)

/-- one directory: the checks, the pruning, the files, the left-over entries -/
theorem visitDir_fine (c : VCfg) (st : WalkSt) (sys rel : Str) (dev ino : Nat) (kids : List (Str × Node))
    (h : NoTs st.ed) :
    Fine (visitDir c st sys rel dev ino kids) ∧
      ∀ st' keep, visitDir c st sys rel dev ino kids = .ok (st', keep) → NoTs st'.ed := by
  unfold visitDir
  split
  · exact ⟨fine_error _ rfl, fun _ _ hh => by cases hh⟩
  · split
    · exact ⟨fine_error _ rfl, fun _ _ hh => by cases hh⟩
    · simp only
      obtain ⟨p1, p2⟩ := prune_ok st sys rel dev ino kids h
      obtain ⟨f1, f2⟩ := foldE_inv (filesStep c rel) (fun acc => NoTs acc.1.ed ∧ DdOk acc.2)
        (fun s a hs => filesStep_fine c rel s a hs) (prune st sys rel dev ino kids).filenames
        ((prune st sys rel dev ino kids).st1, (prune st sys rel dev ino kids).dirdict1) ⟨p1, p2⟩
      split
      · rename_i err hf
        exact ⟨fun k hk => by cases hk; exact f1 k hf, fun _ _ hh => by cases hh⟩
      · rename_i st2 dd2 hf
        obtain ⟨g1, g2⟩ := f2 _ hf
        obtain ⟨l1, l2⟩ := leftover_fold_fine c (relJoin rel) dd2 g2 st2
        split
        · rename_i err hl
          exact ⟨fun k hk => by cases hk; exact l1 k hl, fun _ _ hh => by cases hh⟩
        · rename_i st3 hl
          exact ⟨fine_ok _, fun st' keep hh => by cases hh; rw [l2 st3 hl]; exact g1⟩

/-- **the walk over any tree**: by induction over the tree (`walkDir` over a node, `walkKids` over a child list) -/
theorem walk_fine (c : VCfg) (n : Node) :
    ∀ (st : WalkSt) (sys rel : Str), NoTs st.ed →
      Fine (walkDir c st sys rel n) ∧ ∀ st', walkDir c st sys rel n = .ok st' → NoTs st'.ed := by
  refine Node.rec
    (motive_1 := fun n => ∀ (st : WalkSt) (sys rel : Str), NoTs st.ed →
      Fine (walkDir c st sys rel n) ∧ ∀ st', walkDir c st sys rel n = .ok st' → NoTs st'.ed)
    (motive_2 := fun kids => ∀ (st : WalkSt) (sys rel : Str) (keep : List Str), NoTs st.ed →
      Fine (walkKids c st sys rel keep kids) ∧ ∀ st', walkKids c st sys rel keep kids = .ok st' → NoTs st'.ed)
    (motive_3 := fun p => ∀ (st : WalkSt) (sys rel : Str), NoTs st.ed →
      Fine (walkDir c st sys rel p.2) ∧ ∀ st', walkDir c st sys rel p.2 = .ok st' → NoTs st'.ed)
    ?_ ?_ ?_ ?_ ?_ ?_ ?_ ?_ n
  · -- file
    intro m st sys rel h
    simp only [walkDir]
    exact ⟨fine_ok _, fun st' hh => by cases hh; exact h⟩
  · -- dir
    intro dev ino kids ih st sys rel h
    simp only [walkDir]
    obtain ⟨v1, v2⟩ := visitDir_fine c st sys rel dev ino kids h
    cases hv : visitDir c st sys rel dev ino kids with
    | error e => exact ⟨fun k hk => by cases hk; exact v1 k hv, fun _ hh => by cases hh⟩
    | ok r =>
      obtain ⟨st1, keep⟩ := r
      exact ih st1 sys rel keep (v2 st1 keep hv)
  · -- special
    intro d st sys rel h
    simp only [walkDir]
    exact ⟨fine_ok _, fun st' hh => by cases hh; exact h⟩
  · -- dangling
    intro st sys rel h
    simp only [walkDir]
    exact ⟨fine_ok _, fun st' hh => by cases hh; exact h⟩
  · -- unreadable
    intro code asDir st sys rel h
    cases asDir
    · simp only [walkDir]
      exact ⟨fine_ok _, fun st' hh => by cases hh; exact h⟩
    · simp only [walkDir]
      exact ⟨fine_error _ rfl, fun _ hh => by cases hh⟩
  · -- nil
    intro st sys rel keep h
    simp only [walkKids]
    exact ⟨fine_ok _, fun st' hh => by cases hh; exact h⟩
  · -- cons
    intro hd tl ihh iht st sys rel keep h
    obtain ⟨nm, ch⟩ := hd
    simp only [walkKids]
    split
    · obtain ⟨w1, w2⟩ := ihh st (pjoin sys nm) (relJoin rel nm) h
      cases hw : walkDir c st (pjoin sys nm) (relJoin rel nm) ch with
      | error e => exact ⟨fun k hk => by cases hk; exact w1 k hw, fun _ hh => by cases hh⟩
      | ok st1 => exact iht st1 sys rel keep (w2 st1 hw)
    · exact iht st sys rel keep h
  · -- pair
    intro nm ch ih st sys rel h
    exact ih st sys rel h

theorem missingDirsPass_fine (c : VCfg) (st : WalkSt) (h : NoTs st.ed) : Fine (missingDirsPass c st) := by
  unfold missingDirsPass
  have key : ∀ (l : List (Str × List (Str × Entry))), (∀ dd ∈ l, DdOk dd.2) → ∀ (acc : WalkSt),
      Fine (foldE (fun (acc : WalkSt) (dd : Str × List (Str × Entry)) =>
        foldE (leftoverStep c (pjoin dd.1)) acc dd.2) acc l) := by
    intro l
    induction l with
    | nil => intro _ acc; exact fine_ok _
    | cons dd rest ih =>
      intro hl acc
      simp only [foldE]
      obtain ⟨l1, _⟩ := leftover_fold_fine c (pjoin dd.1) dd.2 (hl dd List.mem_cons_self) acc
      cases hf : foldE (leftoverStep c (pjoin dd.1)) acc dd.2 with
      | error e => exact fun k hk => by cases hk; exact l1 k hf
      | ok s1 => exact ih (fun x hx => hl x (List.mem_cons_of_mem _ hx)) s1
  exact key st.ed (fun dd hdd nm e hm => h dd.1 dd.2 hdd nm e hm) _

/-- **`assert_directory_verifies` never ends in an internal error**: for every tree, every loader state, every
    path, every fail handler and every `last_mtime` -/
theorem assertDirectoryVerifies_fine (w : World) (l : Loader) (path : Str) (h : Handler) (lm : Option Int) :
    Fine (l.assertDirectoryVerifies w path h lm) := by
  unfold Loader.assertDirectoryVerifies
  obtain ⟨d1, d2⟩ := getFileEntryDict_fine w l path true
  cases hd : l.getFileEntryDict w path with
  | error e => exact fun k hk => by cases hk; exact d1 k hd
  | ok r =>
    obtain ⟨l', ed⟩ := r
    simp only
    have hed : NoTs ed := d2 l' ed hd
    cases hr : relpathOrEmpty? path [] with
    | none => exact fine_error _ rfl
    | some rel =>
      simp only
      have hwalk : Fine (walkFrom ⟨w, l.top, l.dev?, h, lm⟩ { ed := ed } path rel (w.obj? path)) ∧
          ∀ st', walkFrom ⟨w, l.top, l.dev?, h, lm⟩ { ed := ed } path rel (w.obj? path) = .ok st' → NoTs st'.ed := by
        cases ho : w.obj? path with
        | none => exact ⟨fine_error _ rfl, fun _ hh => by cases hh⟩
        | some o =>
          cases o with
          | dir d i ks => simp only [walkFrom]; exact walk_fine _ (.dir d i ks) _ _ _ hed
          | absent => exact ⟨fine_error _ rfl, fun _ hh => by cases hh⟩
          | notdir => exact ⟨fine_error _ rfl, fun _ hh => by cases hh⟩
          | file m => exact ⟨fine_error _ rfl, fun _ hh => by cases hh⟩
          | special d => exact ⟨fine_error _ rfl, fun _ hh => by cases hh⟩
          | fault k => exact ⟨fine_error _ rfl, fun _ hh => by cases hh⟩
      cases hw : walkFrom ⟨w, l.top, l.dev?, h, lm⟩ { ed := ed } path rel (w.obj? path) with
      | error e => exact fun k hk => by cases hk; exact hwalk.1 k hw
      | ok st1 =>
        simp only
        have hm := missingDirsPass_fine ⟨w, l.top, l.dev?, h, lm⟩ st1 (hwalk.2 st1 hw)
        cases hp : missingDirsPass ⟨w, l.top, l.dev?, h, lm⟩ st1 with
        | error e => exact fun k hk => by cases hk; exact hm k hp
        | ok st2 => exact fine_ok _

theorem openLoader_fine (w : World) (top : Str) (xdev : Bool) : Fine (openLoader w top xdev) := by
  intro k h
  unfold openLoader at h
  simp only [bind, Except.bind] at h
  cases hl : loadOne w top none with
  | error e =>
    rw [hl] at h
    cases h
    exact loadOne_fine w top none (fun x hx => by cases hx) k hl
  | ok es =>
    rw [hl] at h
    simp only at h
    split at h
    · rename_i e hx
      cases h
      split at hx
      · simp [pure, Except.pure] at hx
      · split at hx <;> simp [pure, Except.pure, throw, throwThe, MonadExceptOf.throw] at hx
    · simp [pure, Except.pure] at h

/-! ## The property for `gemato verify` -/

/-- the library call chain behind `gemato verify` never ends in an internal error -/
theorem verifyCommand_fine (w : World) (top path : Str) (keepGoing xdev : Bool) :
    Fine (verifyCommand w top path keepGoing xdev) := by
  unfold verifyCommand
  cases ho : openLoader w top xdev with
  | error e => exact fun k hk => by cases hk; exact openLoader_fine w top xdev k ho
  | ok l =>
    simp only
    have ha := assertDirectoryVerifies_fine w l path (if keepGoing then keepGoingHandler else .raise) none
    cases hv : l.assertDirectoryVerifies w path (if keepGoing then keepGoingHandler else .raise) none with
    | error e => exact fun k hk => by cases hk; exact ha k hv
    | ok r => exact fine_ok _

/-- **C18 for `gemato verify`.** For every tree, every Manifest text anywhere in it, every path and both
    handler modes, the command never ends in a traceback of an internal error: it returns 0 or 1, or an
    operating-system error of an object it could not access propagates. -/
theorem C18_verify_no_traceback (w : World) (top path : Str) (keepGoing xdev : Bool) (k : IntKind) :
    verifyMain w top path keepGoing xdev ≠ .traceback k := by
  intro h
  exact verifyCommand_fine w top path keepGoing xdev k ((C18_traceback_iff _ _ k).mp h)

/-- … and its exit status is 0, or 1 with a library error / a reported mismatch -/
theorem C18_verify_exit (w : World) (top path : Str) (keepGoing xdev : Bool) :
    verifyMain w top path keepGoing xdev = .status 0 ∨ verifyMain w top path keepGoing xdev = .status 1 ∨
    (∃ x, verifyMain w top path keepGoing xdev = .oserror x) ∨ verifyMain w top path keepGoing xdev = .abstain := by
  unfold verifyMain
  rcases C18_exit_classes (verifyCommand w top path keepGoing xdev) (fun b => if b then 0 else 1) with
    ⟨a, _, h⟩ | ⟨e, _, _, h⟩ | ⟨x, _, h⟩ | ⟨k, hr, _⟩ | ⟨_, h⟩
  · cases a <;> simp_all
  · exact Or.inr (Or.inl h)
  · exact Or.inr (Or.inr (Or.inl ⟨x, h⟩))
  · exact (verifyCommand_fine w top path keepGoing xdev k hr).elim
  · exact Or.inr (Or.inr (Or.inr h))

/-! ## `gemato update` / `gemato create`: the stages before the walk, and the guards of the walk's partial operations -/
open Gemato.U

theorem openForUpdate_fine (w : World) (top : Str) (create : Bool) (prof : Prof.Profile) (xdev : Bool) :
    Fine (openForUpdate w top create prof xdev) := by
  intro k h
  have hl1 := loadOne_fine w top none (fun x hx => by cases hx)
  unfold openForUpdate at h
  cases hl : loadOne w top none with
  | ok es =>
    rw [hl] at h
    simp only at h
    cases ho : w.obj? top with
    | none => simp [ho] at h
    | some o => cases o <;> simp [ho] at h
  | error e =>
    rw [hl] at h
    by_cases he : e = .os .ENOENT
    · subst he
      simp only at h
      cases create
      · simp at h
      · simp only [Bool.not_true, Bool.false_eq_true, if_false] at h
        cases ho : w.obj? (dirname top) with
        | none => simp [ho] at h
        | some o => cases o <;> simp [ho] at h
    · have : e = .internal k := by
        cases e <;> simp_all
      subst this
      exact hl1 k hl

theorem stLoad_fine (w : World) (s : St) (path : Str) (rec ver : Bool) : Fine (s.load w path rec ver) := by
  intro k h
  unfold St.load at h
  split at h
  · rename_i e hl
    cases h
    exact loadManifestsForPath_fine w path rec ver _ _ k hl
  · cases h

theorem tryLoadUnregistered_fine (w : World) (s : St) (fpath : Str) : Fine (tryLoadUnregistered w s fpath) := by
  intro k h
  have hl1 := loadOne_fine w fpath none (fun x hx => by cases hx)
  unfold tryLoadUnregistered at h
  cases hl : loadOne w fpath none with
  | ok es => rw [hl] at h; simp at h
  | error e =>
    rw [hl] at h
    have : e = .internal k := by
      cases e <;> simp_all
    subst this
    exact hl1 k hl

theorem scanDir_fine (w : World) (ed : EntryDict) (ss : ScanSt) (sys rel : Str) (dev ino : Nat)
    (kids : List (Str × Node)) : Fine (scanDir w ed ss sys rel dev ino kids) := by
  unfold scanDir
  split
  · exact fine_error _ rfl
  · simp only
    split
    · exact fine_error _ rfl
    · have hf := foldE_inv (fun (acc : ScanSt) (mname : Str) =>
          if !((kids.filter (!·.2.isDirNode)).map (·.1)).contains mname then .ok acc
          else
            let fpath := pjoin rel mname
            if acc.st.loaded.any (·.1 == fpath) then .ok acc
            else if isSpecialAt w fpath then .ok acc
            else match tryLoadUnregistered w acc.st fpath with
              | .error e => .error e
              | .ok (st', true) => .ok { acc with st := st', newManifests := acc.newManifests ++ [fpath] }
              | .ok (st', false) => .ok { acc with st := st' }) (fun _ => True)
        (fun s a _ => by
          refine ⟨?_, fun _ _ => trivial⟩
          split
          · exact fine_ok _
          · simp only
            split
            · exact fine_ok _
            · split
              · exact fine_ok _
              · split
                · rename_i e hl
                  exact fun k hk => by cases hk; exact tryLoadUnregistered_fine w _ _ k hl
                · exact fine_ok _
                · exact fine_ok _) manifestNames
      intro k h
      split at h
      · rename_i e hfe
        cases h
        exact (hf _ trivial).1 k hfe
      · cases h

/-- the scan for unregistered Manifests over any tree -/
theorem scanWalk_fine (w : World) (ed : EntryDict) (n : Node) :
    ∀ (ss : ScanSt) (sys rel : Str), Fine (scanWalk w ed ss sys rel n) := by
  refine Node.rec
    (motive_1 := fun n => ∀ (ss : ScanSt) (sys rel : Str), Fine (scanWalk w ed ss sys rel n))
    (motive_2 := fun kids => ∀ (ss : ScanSt) (sys rel : Str) (keep : List Str), Fine (scanKids w ed ss sys rel keep kids))
    (motive_3 := fun p => ∀ (ss : ScanSt) (sys rel : Str), Fine (scanWalk w ed ss sys rel p.2))
    ?_ ?_ ?_ ?_ ?_ ?_ ?_ ?_ n
  · intro m ss sys rel; simp only [scanWalk]; exact fine_ok _
  · intro dev ino kids ih ss sys rel
    simp only [scanWalk]
    cases hv : scanDir w ed ss sys rel dev ino kids with
    | error e => exact fun k hk => by cases hk; exact scanDir_fine w ed ss sys rel dev ino kids k hv
    | ok r => obtain ⟨ss1, keep⟩ := r; exact ih ss1 sys rel keep
  · intro d ss sys rel; simp only [scanWalk]; exact fine_ok _
  · intro ss sys rel; simp only [scanWalk]; exact fine_ok _
  · intro code asDir ss sys rel
    cases asDir
    · simp only [scanWalk]; exact fine_ok _
    · simp only [scanWalk]; exact fine_error _ rfl
  · intro ss sys rel keep; simp only [scanKids]; exact fine_ok _
  · intro hd tl ihh iht ss sys rel keep
    obtain ⟨nm, ch⟩ := hd
    simp only [scanKids]
    split
    · cases hw : scanWalk w ed ss (pjoin sys nm) (relJoin rel nm) ch with
      | error e => exact fun k hk => by cases hk; exact ihh ss _ _ k hw
      | ok ss1 => exact iht ss1 sys rel keep
    · exact iht ss sys rel keep
  · intro nm ch ih ss sys rel; exact ih ss sys rel

theorem ignoreDict_fine (path : Str) (ms : List (Str × Str × List Entry)) : Fine (ignoreDict path ms) :=
  (entryDictFold_fine path _).1

/-- **`load_unregistered_manifests` never ends in an internal error** -/
theorem loadUnregistered_fine (w : World) (s : St) (path : Str) : Fine (loadUnregistered w s path) := by
  intro k h
  unfold loadUnregistered at h
  split at h
  · rename_i e hl; cases h; exact stLoad_fine w s path true false k hl
  · split at h
    · rename_i e hi; cases h; exact ignoreDict_fine _ _ k hi
    · split at h
      · cases h
      · split at h
        · cases h
        · split at h
          · rename_i e hs; cases h; exact scanWalk_fine w _ _ _ _ _ k hs
          · cases h
        · cases h
        · cases h
        · cases h

/-- popping the Manifest stack never runs it empty while a Manifest of the top directory is in it
    (`path_starts_with(relpath, '')` holds for every relpath): the IndexError site is guarded -/
theorem popStack_guarded (rel : Str) (stack : List (Str × Str)) (h : ∃ mp, (mp, []) ∈ stack) :
    Fine (popStack rel stack) := by
  have key : ∀ (l : List (Str × Str)), (∃ mp, (mp, []) ∈ l) → ∃ r, popRev rel l = .ok r := by
    intro l
    induction l with
    | nil => intro ⟨_, hm⟩; cases hm
    | cons x rest ih =>
      intro ⟨mp, hm⟩
      obtain ⟨xm, xd⟩ := x
      simp only [popRev]
      split
      · exact ⟨_, rfl⟩
      · rename_i hps
        rcases List.mem_cons.mp hm with hx | hx
        · cases hx
          simp [pathStartsWith] at hps
        · exact ih ⟨mp, hx⟩
  obtain ⟨mp, hm⟩ := h
  obtain ⟨r, hr⟩ := key stack.reverse ⟨mp, List.mem_reverse.mpr hm⟩
  intro k hk
  simp [popStack, hr] at hk

/-- popping keeps the Manifest of the top directory in the stack -/
theorem popStack_keeps_root (rel : Str) (stack r : List (Str × Str)) (mp : Str) (hm : (mp, []) ∈ stack)
    (h : popStack rel stack = .ok r) : (mp, []) ∈ r := by
  have key : ∀ (l q : List (Str × Str)), (mp, []) ∈ l → popRev rel l = .ok q → (mp, []) ∈ q := by
    intro l
    induction l with
    | nil => intro _ hm; cases hm
    | cons x rest ih =>
      intro q hm hq
      obtain ⟨xm, xd⟩ := x
      simp only [popRev] at hq
      split at hq
      · cases hq; exact hm
      · rename_i hps
        rcases List.mem_cons.mp hm with hx | hx
        · cases hx; simp [pathStartsWith] at hps
        · exact ih q hx hq
  unfold popStack at h
  split at h
  · cases h
  · rename_i q hq
    cases h
    exact List.mem_reverse.mpr (key _ q (List.mem_reverse.mpr hm) hq)

theorem dropWhile_nil_all {α : Type} (p : α → Bool) (l : List α) (h : l.dropWhile p = []) : ∀ a ∈ l, p a = true := by
  induction l with
  | nil => intro a ha; cases ha
  | cons x rest ih =>
    intro a ha
    simp only [List.dropWhile] at h
    split at h
    · rename_i hp
      rcases List.mem_cons.mp ha with rfl | hr
      · exact hp
      · exact ih h a hr
    · cases h

/-- the climb of a new MANIFEST entry finds a level above whenever some Manifest on the stack lives in another
    directory than the new Manifest itself (with the stack seeded by the whole chain, repair of F6, the Manifest
    of the top directory is such a level for every sub-directory) -/
theorem climb_guarded (stack : List (Str × Str)) (ownDir : Str) (h : ∃ x ∈ stack, (x.2 == ownDir) = false) :
    Fine (climb stack ownDir) := by
  intro k hk
  unfold climb at hk
  split at hk
  · cases hk
  · rename_i hnone
    obtain ⟨x, hx, hne⟩ := h
    have : (stack.reverse.dropWhile fun y => y.2 == ownDir) ≠ [] := by
      intro hnil
      have := dropWhile_nil_all _ _ hnil x (List.mem_reverse.mpr hx)
      simp [hne] at this
    cases hd : stack.reverse.dropWhile fun y => y.2 == ownDir with
    | nil => exact this hd
    | cons a b => simp [hd] at hnone

/-- `update_entry_for_path` on a file entry: no internal error when `st_size` is 0 or the real length
    (the assertion `size == st_size` is the only partial operation) -/
theorem refreshEntry_guarded (o : Obj) (p : Str) (t : FTag) (q : Str) (n : Nat) (c : List (Str × Str))
    (hs : Option (List Str)) (dev? : Option Nat) (lm : Option Int)
    (hsz : ∀ m, o = .file m → m.stSize = 0 ∨ m.stSize = m.size) :
    Fine (refreshEntry o p (.file t q n c) hs dev? lm) := by
  intro k h
  cases o with
  | file m =>
    simp only [refreshEntry] at h
    split at h
    · cases h
    · split at h
      · cases h
      · split at h
        · rename_i err hf
          cases h
          unfold freshCks at hf
          split at hf
          · cases hf
          · split at hf <;> cases hf
        · split at h
          · rename_i hbad
            rcases hsz m rfl with h0 | h1
            · simp [h0] at hbad
            · simp [h1] at hbad
          · split at h <;> cases h
  | dir d i ks => simp only [refreshEntry] at h; split at h <;> cases h
  | special d => simp only [refreshEntry] at h; split at h <;> cases h
  | absent => simp [refreshEntry] at h
  | notdir => simp [refreshEntry] at h
  | fault x => simp [refreshEntry] at h

/-- the de-duplication's merge of checksum maps is total (two IGNOREs included: repair of F15b) -/
theorem mergeInto_fine (a b : Entry) : Fine (mergeInto a b) := by
  intro k h
  cases a <;> cases b <;> simp [mergeInto] at h

/-- the statement of C18 for the update-class commands, in full. It is **not** a theorem of the unchanged tree:
    the recorded findings F7 (ValueError from `list.remove` on equal duplicate lines), F21 (AssertionError
    "Unlinked but updated Manifests" for a MANIFEST entry below an IGNOREd directory) are counterexamples.
    What is proved above covers every stage before the walk and the guards of the walk's partial operations;
    the composition over the walk is tied by the correspondence check (harness/props/c18.py). -/
def C18_update_full : Prop :=
  ∀ (w : World) (post : Str → Option FileMeta) (top path : Str) (create : Bool) (prof : Prof.Profile) (xdev : Bool)
    (o : U.Opts) (setTs : Option (Ts × Bool)) (so : U.SaveOpts) (sign : SignCfg) (k : IntKind),
    updateMain w post top path create prof xdev o setTs so sign ≠ .traceback k

/-- the stages of an update before the walk never end in an internal error -/
theorem C18_update_prefix_partial (w : World) (top path : Str) (create : Bool) (prof : Prof.Profile) (xdev : Bool) :
    Fine (openForUpdate w top create prof xdev) ∧
    (∀ s, Fine (loadUnregistered w s path)) ∧ (∀ s rec ver, Fine (St.load w s path rec ver)) :=
  ⟨openForUpdate_fine w top create prof xdev, fun s => loadUnregistered_fine w s path,
   fun s rec ver => stLoad_fine w s path rec ver⟩

/-! ## Non-vacuity -/

/-- a tree on which `gemato verify` really runs through all stages: a Manifest with a duplicate IGNORE, an
    unknown hash name and an entry naming a directory -/
example :
    let m : Str := [73, 71, 78, 79, 82, 69, 32, 120, 10, 73, 71, 78, 79, 82, 69, 32, 120, 10,   -- IGNORE x (twice)
                    68, 65, 84, 65, 32, 100, 32, 48, 10]                                        -- DATA d 0
    let w : World := ⟨.dir 1 1 [([77], .file ⟨1, 27, 27, 0, [], some (.text m)⟩), ([100], .dir 1 2 [])]⟩
    verifyMain w [77] [] true true = .status 1 ∧ verifyMain w [77] [] false true = .status 1 := by
  decide +kernel

/-- an internal error of the model does map to a traceback (the exit mapping is not constantly fine) -/
example : mainExit (.error (.internal .index) : Except Err Unit) (fun _ => 0) = .traceback .index := rfl

end Gemato.C18
