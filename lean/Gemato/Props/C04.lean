import Gemato.Props.C09
/-
  C04 — Only the OpenPGP-signed content of a signed Manifest is ever used.
  Exact characterisation of what `ManifestFile.load` accepts as a signed
  Manifest, for line sequences of any length.
-/
namespace Gemato.C04
open Gemato.C09

/-- a line that contributes nothing and raises nothing outside the signed part:
    not armor-like and without any field -/
def Inert (l : Str) : Prop := armorLike l = false ∧ (splitWs l).isEmpty = true

/-- the sections of a cleartext-signed Manifest -/
structure Parts where
  pre : List Str
  hdr : List Str
  sep : Str
  body : List Str
  sig : List Str
  post : List Str

/-- The shape of an accepted signed Manifest. -/
structure ShapeOf (p : Parts) (ls : List Str) (es : List Entry) (blk : Str) : Prop where
  split : ls = p.pre ++ lnBeginMsg :: (p.hdr ++ p.sep :: (p.body ++ lnBeginSig :: (p.sig ++ lnEndSig :: p.post)))
  /-- only inert lines before the signed message (and none of them the header) -/
  pre_inert : ∀ l ∈ p.pre, Inert l ∧ l ≠ lnBeginMsg
  /-- armor headers: non-blank lines, never parsed; none of them announces a
      cleartext that is not dash-escaped -/
  hdr_nonblank : ∀ l ∈ p.hdr, isBlank l = false ∧ startsWith l sNotDashEscaped = false
  sep_blank : isBlank p.sep = true
  body_no_sig : ∀ l ∈ p.body, l ≠ lnBeginSig
  /-- the entries are exactly those of the dash-unescaped cleartext lines -/
  entries : linesEntries (p.body.map dashUnescape) = .ok es
  sig_lines : ∀ l ∈ p.sig, l ≠ lnEndSig ∧ armorLike l = false
  /-- only inert lines after the signature -/
  post_inert : ∀ l ∈ p.post, Inert l
  /-- exactly BEGIN SIGNED MESSAGE … END SIGNATURE goes to signature verification -/
  block : blk = (lnBeginMsg :: (p.hdr ++ p.sep :: (p.body ++ lnBeginSig :: (p.sig ++ [lnEndSig])))).flatten

def SignedShape (ls : List Str) (es : List Entry) (blk : Str) : Prop := ∃ p, ShapeOf p ls es blk

theorem blank_inert (l : Str) (h : isBlank l = true) : Inert l := by
  have hall : ∀ c ∈ l, isSpace c = true := by simpa [isBlank, List.all_eq_true] using h
  constructor
  · cases l with
    | nil => simp [armorLike, startsWith, dashes5]
    | cons c cs =>
      have hc := hall c (by simp)
      have : c ≠ 45 := by intro e; subst e; revert hc; decide
      simp [armorLike, startsWith, dashes5, this]
  · have : ∀ s : Str, (∀ c ∈ s, isSpace c = true) → splitGo [] s = [] := by
      intro s hs
      induction s with
      | nil => rfl
      | cons c cs ih =>
        simp only [splitGo, hs c (by simp), if_true, List.isEmpty_nil]
        exact ih (fun x hx => hs x (by simp [hx]))
    simp [splitWs, this l hall]

-- phase lemmas: each follows the state machine through one section -------------------

theorem post_phase (acc : List Entry) (d : Str) (ls : List Str) (s' : LoadSt)
    (h : loadLines ⟨.post, acc, d⟩ ls = .ok s') : s' = ⟨.post, acc, d⟩ ∧ ∀ l ∈ ls, Inert l := by
  induction ls with
  | nil => simp [loadLines] at h; exact ⟨h.symm, by simp⟩
  | cons l ls ih =>
    simp only [loadLines, loadStep, loadCommon] at h
    by_cases ha : armorLike l = true
    · simp [ha] at h
    · simp only [ha, Bool.false_eq_true, if_false] at h
      by_cases he : (splitWs l).isEmpty = true
      · simp only [he, if_true] at h
        obtain ⟨h1, h2⟩ := ih h
        refine ⟨h1, ?_⟩
        intro x hx; simp at hx
        rcases hx with hx | hx
        · subst hx; exact ⟨by simpa using ha, he⟩
        · exact h2 x hx
      · simp [he] at h

theorem signature_phase (acc : List Entry) (d : Str) (ls : List Str) (s' : LoadSt)
    (h : loadLines ⟨.signature, acc, d⟩ ls = .ok s') (hs : s'.st = .post) :
    ∃ sig rest, ls = sig ++ lnEndSig :: rest ∧ (∀ l ∈ sig, l ≠ lnEndSig ∧ armorLike l = false) ∧
      loadLines ⟨.post, acc, d ++ sig.flatten ++ lnEndSig⟩ rest = .ok s' := by
  induction ls generalizing d with
  | nil => simp [loadLines] at h; subst h; simp at hs
  | cons l ls ih =>
    simp only [loadLines, loadStep] at h
    by_cases hl : l = lnEndSig
    · subst hl
      simp only [if_true] at h
      exact ⟨[], ls, by simp, by simp, by simpa using h⟩
    · simp only [hl, if_false, loadCommon] at h
      by_cases ha : armorLike l = true
      · simp [ha] at h
      · simp only [ha, Bool.false_eq_true, if_false] at h
        obtain ⟨sig, rest, h1, h2, h3⟩ := ih (d ++ l) h
        refine ⟨l :: sig, rest, by simp [h1], ?_, by simpa [List.append_assoc] using h3⟩
        intro x hx; simp at hx
        rcases hx with hx | hx
        · subst hx; exact ⟨hl, by simpa using ha⟩
        · exact h2 x hx

theorem signed_phase (acc : List Entry) (d : Str) (ls : List Str) (s' : LoadSt)
    (h : loadLines ⟨.signed, acc, d⟩ ls = .ok s') (hs : s'.st = .post) :
    ∃ body rest es, ls = body ++ lnBeginSig :: rest ∧ (∀ l ∈ body, l ≠ lnBeginSig) ∧
      linesEntries (body.map dashUnescape) = .ok es ∧
      loadLines ⟨.signature, acc ++ es, d ++ body.flatten ++ lnBeginSig⟩ rest = .ok s' := by
  induction ls generalizing acc d with
  | nil => simp [loadLines] at h; subst h; simp at hs
  | cons l ls ih =>
    simp only [loadLines, loadStep] at h
    by_cases hl : l = lnBeginSig
    · subst hl
      simp only [if_true] at h
      exact ⟨[], ls, [], by simp, by simp, rfl, by simpa using h⟩
    · simp only [hl, if_false, loadCommon] at h
      by_cases ha : armorLike (dashUnescape l) = true
      · simp [ha] at h
      · simp only [ha, Bool.false_eq_true, if_false] at h
        by_cases he : (splitWs (dashUnescape l)).isEmpty = true
        · simp only [he, if_true] at h
          obtain ⟨body, rest, es, h1, h2, h3, h4⟩ := ih acc (d ++ l) h
          refine ⟨l :: body, rest, es, by simp [h1], ?_, ?_, by simpa [List.append_assoc] using h4⟩
          · intro x hx; simp at hx
            rcases hx with hx | hx
            · subst hx; exact hl
            · exact h2 x hx
          · simp [linesEntries, lineEntry, ha, he, h3]
        · simp only [he, Bool.false_eq_true, if_false] at h
          cases hx : entryFromList (splitWs (dashUnescape l)) with
          | error e => simp [hx] at h
          | ok e =>
            simp only [hx] at h
            obtain ⟨body, rest, es, h1, h2, h3, h4⟩ := ih (acc ++ [e]) (d ++ l) h
            refine ⟨l :: body, rest, e :: es, by simp [h1], ?_, ?_, by simpa [List.append_assoc] using h4⟩
            · intro x hx'; simp at hx'
              rcases hx' with hx' | hx'
              · subst hx'; exact hl
              · exact h2 x hx'
            · simp [linesEntries, lineEntry, ha, he, hx, h3]

theorem preamble_phase (d : Str) (ls : List Str) (s' : LoadSt)
    (h : loadLines ⟨.preamble, [], d⟩ ls = .ok s') (hs : s'.st = .post) :
    ∃ hdr sep rest, ls = hdr ++ sep :: rest ∧
      (∀ l ∈ hdr, isBlank l = false ∧ startsWith l sNotDashEscaped = false) ∧ isBlank sep = true ∧
      loadLines ⟨.signed, [], d ++ hdr.flatten ++ sep⟩ rest = .ok s' := by
  induction ls generalizing d with
  | nil => simp [loadLines] at h; subst h; simp at hs
  | cons l ls ih =>
    simp only [loadLines, loadStep] at h
    by_cases hb : isBlank l = true
    · simp only [hb, Bool.not_true, Bool.false_eq_true, if_false, loadCommon,
        (blank_inert l hb).1, (blank_inert l hb).2, if_true] at h
      exact ⟨[], l, ls, by simp, by simp, hb, by simpa using h⟩
    · simp only [hb, Bool.not_false, if_true] at h
      by_cases hn : startsWith l sNotDashEscaped = true
      · simp [hn] at h
      · simp only [hn, Bool.false_eq_true, if_false] at h
        obtain ⟨hdr, sep, rest, h1, h2, h3, h4⟩ := ih (d ++ l) h
        refine ⟨l :: hdr, sep, rest, by simp [h1], ?_, h3, by simpa [List.append_assoc] using h4⟩
        intro x hx; simp at hx
        rcases hx with hx | hx
        · subst hx; exact ⟨by simpa using hb, by simpa using hn⟩
        · exact h2 x hx

/-- an entry before the header: the header can no longer be taken, and without
    it the machine stays in DATA -/
theorem data_stays (acc : List Entry) (ls : List Str) (s' : LoadSt) (hacc : acc ≠ [])
    (h : loadLines ⟨.data, acc, []⟩ ls = .ok s') : s'.st = .data := by
  induction ls generalizing acc with
  | nil => simp [loadLines] at h; subst h; rfl
  | cons l ls ih =>
    simp only [loadLines, loadStep] at h
    by_cases hl : l = lnBeginMsg
    · have : acc.isEmpty = false := by cases acc with | nil => exact absurd rfl hacc | cons _ _ => rfl
      simp [hl, this] at h
    · simp only [hl, if_false, loadCommon] at h
      by_cases ha : armorLike l = true
      · simp [ha] at h
      · simp only [ha, Bool.false_eq_true, if_false] at h
        by_cases he : (splitWs l).isEmpty = true
        · simp only [he, if_true] at h
          exact ih acc hacc h
        · simp only [he, Bool.false_eq_true, if_false] at h
          cases hx : entryFromList (splitWs l) with
          | error e => simp [hx] at h
          | ok e =>
            simp only [hx] at h
            exact ih (acc ++ [e]) (by simp) h

theorem data_phase (ls : List Str) (s' : LoadSt)
    (h : loadLines ⟨.data, [], []⟩ ls = .ok s') (hs : s'.st = .post) :
    ∃ pre rest, ls = pre ++ lnBeginMsg :: rest ∧ (∀ l ∈ pre, Inert l ∧ l ≠ lnBeginMsg) ∧
      loadLines ⟨.preamble, [], lnBeginMsg⟩ rest = .ok s' := by
  induction ls with
  | nil => simp [loadLines] at h; subst h; simp at hs
  | cons l ls ih =>
    simp only [loadLines, loadStep] at h
    by_cases hl : l = lnBeginMsg
    · subst hl
      simp only [if_true, List.isEmpty_nil, Bool.not_true, Bool.false_eq_true, if_false,
        List.nil_append] at h
      exact ⟨[], ls, by simp, by simp, h⟩
    · simp only [hl, if_false, loadCommon] at h
      by_cases ha : armorLike l = true
      · simp [ha] at h
      · simp only [ha, Bool.false_eq_true, if_false] at h
        by_cases he : (splitWs l).isEmpty = true
        · simp only [he, if_true] at h
          obtain ⟨pre, rest, h1, h2, h3⟩ := ih h
          refine ⟨l :: pre, rest, by simp [h1], ?_, h3⟩
          intro x hx; simp at hx
          rcases hx with hx | hx
          · subst hx; exact ⟨⟨by simpa using ha, he⟩, hl⟩
          · exact h2 x hx
        · exfalso
          simp only [he, Bool.false_eq_true, if_false] at h
          cases hx : entryFromList (splitWs l) with
          | error e => simp [hx] at h
          | ok e =>
            simp only [hx, List.nil_append] at h
            have := data_stays [e] ls s' (by simp) h
            rw [hs] at this; cases this

/-- **C04 (soundness of the signed shape).** Whenever `load` reports a signed
    Manifest, the lines have the cleartext-signature shape: only inert lines
    outside the block, header lines and signature lines never parsed, the
    entries exactly those of the dash-unescaped cleartext, and exactly the text
    from BEGIN SIGNED MESSAGE through END SIGNATURE handed to verification. -/
theorem C04_signed_shape (ls : List Str) (es : List Entry) (blk : Str)
    (h : loadFromLines ls = .ok ⟨es, some blk⟩) : SignedShape ls es blk := by
  unfold loadFromLines at h
  split at h
  · cases h
  · rename_i s hs
    split at h
    all_goals first | (cases h; done) | skip
    rename_i hst
    simp only [Except.ok.injEq, Loaded.mk.injEq, Option.some.injEq] at h
    obtain ⟨he, hb⟩ := h
    obtain ⟨pre, r1, e1, hpre, h1⟩ := data_phase ls s hs hst
    obtain ⟨hdr, sep, r2, e2, hhdr, hsep, h2⟩ := preamble_phase _ r1 s h1 hst
    obtain ⟨body, r3, es', e3, hbody, hent, h3⟩ := signed_phase _ _ r2 s h2 hst
    obtain ⟨sig, r4, e4, hsig, h4⟩ := signature_phase _ _ r3 s h3 hst
    obtain ⟨h5, hpost⟩ := post_phase _ _ r4 s h4
    subst h5
    simp only [List.nil_append] at he hb
    subst he hb
    exact ⟨⟨pre, hdr, sep, body, sig, r4⟩, {
      split := by rw [e1, e2, e3, e4]
      pre_inert := hpre, hdr_nonblank := hhdr, sep_blank := hsep, body_no_sig := hbody
      entries := hent, sig_lines := hsig, post_inert := hpost
      block := by simp [List.flatten_append, List.append_assoc] }⟩

end Gemato.C04
