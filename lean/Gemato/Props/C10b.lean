import Gemato.Props.C10
/-
  C10 — what update does not own, over the whole algorithm.

  `update_entries_for_directory` edits entry objects in three ways only: it refreshes an object it holds in its
  entry dictionary in place, it appends new objects, and it removes objects by `list.remove` (first *equal*
  object). This file proves, through every stage of the model of the algorithm - the scan for unregistered
  Manifests, the de-duplication, the walk over an arbitrary tree with the creation of new Manifests, the removal
  pass - that **the DIST and TIMESTAMP entries of every Manifest that was loaded are, after the update, the same
  entries in the same order** (`C10_update_keeps_dist_and_timestamp`): these entries are foreign to the update
  (they are never put into the dictionary), and an equal-valued removal can never hit one because the value
  looked for is never a DIST or TIMESTAMP entry.
-/
namespace Gemato.C10
open Gemato.L1 Gemato.U

/-- the entries `update` has no business with: DIST and TIMESTAMP -/
def isForeign : Entry → Bool
  | .timestamp _ => true
  | .file .DIST _ _ _ => true
  | _ => false

theorem find_map_self (l : List IEntry) (id : Nat) (e : Entry) :
    ((l.map fun ie => if ie.1 == id then (id, e) else ie).find? (·.1 == id)).map (·.2) =
      (l.find? (·.1 == id)).map fun _ => e := by
  induction l with
  | nil => rfl
  | cons ie rest ih =>
    by_cases hq : (ie.1 == id) = true
    · have h2 : (id == id) = true := by simp
      simp only [List.map_cons, hq, if_true, List.find?, h2, Option.map]
    · have hq' : (ie.1 == id) = false := by simpa using hq
      simp only [List.map_cons, hq', Bool.false_eq_true, if_false, List.find?]
      exact ih

theorem find_key_map_other (l : List (Str × List Nat)) (mp k : Str) (ids : List Nat) (h : k ≠ mp) :
    ((l.map fun kv => if kv.1 == mp then (mp, ids) else kv).find? (·.1 == k)).map (·.2) = (l.find? (·.1 == k)).map (·.2) := by
  induction l with
  | nil => rfl
  | cons a rest ih =>
    by_cases ha : (a.1 == mp) = true
    · have e1 : a.1 = mp := by simpa using ha
      have h1 : (a.1 == k) = false := by rw [e1]; simpa using fun e => h e.symm
      have h2 : (mp == k) = false := by simpa using fun e => h e.symm
      simp only [List.map_cons, ha, if_true, List.find?, h2, h1]
      exact ih
    · have ha' : (a.1 == mp) = false := by simpa using ha
      simp only [List.map_cons, ha', Bool.false_eq_true, if_false, List.find?]
      cases (a.1 == k)
      · exact ih
      · rfl

theorem find_key_append_other (l : List (Str × List Nat)) (mp k : Str) (ids : List Nat) (h : k ≠ mp) :
    ((l ++ [(mp, ids)]).find? (·.1 == k)).map (·.2) = (l.find? (·.1 == k)).map (·.2) := by
  have h2 : (mp == k) = false := by simpa using fun e => h e.symm
  induction l with
  | nil => simp [List.find?, h2]
  | cons a rest ih =>
    simp only [List.cons_append, List.find?]
    cases (a.1 == k)
    · exact ih
    · rfl

theorem filterMap_congr_mem {α β : Type} (f g : α → Option β) (l : List α) (h : ∀ a ∈ l, f a = g a) : l.filterMap f = l.filterMap g := by
  induction l with
  | nil => rfl
  | cons a rest ih =>
    simp only [List.filterMap_cons, h a List.mem_cons_self]
    rw [ih (fun x hx => h x (List.mem_cons_of_mem _ hx))]

/-- is the entry object `id` a foreign entry -/
def cellF (s : St) (id : Nat) : Bool := match s.val id with | some e => isForeign e | none => false

def hasKey (s : St) (k : Str) : Prop := s.loaded.any (·.1 == k) = true

/-- identities are allocated from `nextId` upwards: everything that exists lies below it -/
structure Fresh (s : St) : Prop where
  heap : ∀ ie ∈ s.heap, ie.1 < s.nextId
  lists : ∀ kv ∈ s.loaded, ∀ i ∈ kv.2, i < s.nextId

/-- the foreign entries of a loaded Manifest, in order -/
def foreignOf (s : St) (k : Str) : List Entry := ((s.entriesOf k).map (·.2)).filter isForeign

/-- what every stage of the update guarantees about the state it leaves -/
structure Good (s s' : St) : Prop where
  fresh : Fresh s'
  keepF : ∀ id e, s.val id = some e → isForeign e = true → s'.val id = some e
  keepN : ∀ id e, s.val id = some e → isForeign e = false → ∃ e', s'.val id = some e' ∧ isForeign e' = false
  keys : ∀ k, hasKey s k → hasKey s' k
  fids : ∀ k, hasKey s k → (s'.idsOf k).filter (cellF s') = (s.idsOf k).filter (cellF s)
  next : s.nextId ≤ s'.nextId

theorem Good.refl (s : St) (h : Fresh s) : Good s s :=
  ⟨h, fun _ _ h _ => h, fun _ e h hf => ⟨e, h, hf⟩, fun _ h => h, fun _ _ => rfl, Nat.le_refl _⟩

theorem Good.trans {a b c : St} (h1 : Good a b) (h2 : Good b c) : Good a c := by
  refine ⟨h2.fresh, ?_, ?_, fun k hk => h2.keys k (h1.keys k hk), ?_, Nat.le_trans h1.next h2.next⟩
  · intro id e he hf
    exact h2.keepF id e (h1.keepF id e he hf) hf
  · intro id e he hf
    obtain ⟨e', he', hf'⟩ := h1.keepN id e he hf
    exact h2.keepN id e' he' hf'
  · intro k hk
    rw [h2.fids k (h1.keys k hk), h1.fids k hk]

/-! ## The foreign entries are determined by the foreign identities -/

theorem entriesOf_eq (s : St) (k : Str) : s.entriesOf k = (s.idsOf k).filterMap fun id => (s.val id).map fun e => (id, e) := rfl

theorem cellF_none_of (s : St) (id : Nat) (h : s.val id = none) : cellF s id = false := by simp [cellF, h]
theorem cellF_some_of (s : St) (id : Nat) (e : Entry) (h : s.val id = some e) : cellF s id = isForeign e := by simp [cellF, h]

theorem foreignOf_eq (s : St) (k : Str) :
    foreignOf s k = ((s.idsOf k).filter (cellF s)).filterMap s.val := by
  unfold foreignOf
  rw [entriesOf_eq]
  generalize s.idsOf k = l
  induction l with
  | nil => rfl
  | cons id rest ih =>
    simp only [List.filterMap_cons, List.filter_cons]
    cases hv : s.val id with
    | none =>
      rw [cellF_none_of s id hv]
      simpa using ih
    | some e =>
      rw [cellF_some_of s id e hv]
      simp only [Option.map_some, List.map_cons, List.filter_cons]
      cases hf : isForeign e
      · simpa using ih
      · simp only [if_true, List.filterMap_cons, hv]
        rw [ih]

/-- **`Good` keeps the foreign entries of every loaded Manifest** -/
theorem Good.foreign_kept {s s' : St} (h : Good s s') (k : Str) (hk : hasKey s k) : foreignOf s' k = foreignOf s k := by
  rw [foreignOf_eq, foreignOf_eq, h.fids k hk]
  apply filterMap_congr_mem
  intro id hid
  have hc : cellF s id = true := (List.mem_filter.mp hid).2
  unfold cellF at hc
  cases hv : s.val id with
  | none => simp [hv] at hc
  | some e =>
    simp only [hv] at hc
    exact h.keepF id e hv hc

/-! ## The primitive edits -/

theorem val_setVal_eq (s : St) (id : Nat) (e : Entry) : (s.setVal id e).val id = (s.val id).map fun _ => e := by
  unfold St.val St.setVal
  simp only
  rw [find_map_self]
  cases s.heap.find? (·.1 == id) <;> rfl

theorem val_setVal_self (s : St) (id : Nat) (e old : Entry) (h : s.val id = some old) : (s.setVal id e).val id = some e := by
  rw [val_setVal_eq, h]; rfl

theorem val_setVal_none (s : St) (id : Nat) (e : Entry) (h : s.val id = none) : (s.setVal id e).val id = none := by
  rw [val_setVal_eq, h]; rfl

theorem fresh_setVal (s : St) (id : Nat) (e : Entry) (h : Fresh s) : Fresh (s.setVal id e) := by
  refine ⟨?_, h.lists⟩
  intro ie hie
  simp only [St.setVal, List.mem_map] at hie
  obtain ⟨x, hx, rfl⟩ := hie
  split
  · rename_i hq
    have : x.1 = id := by simpa using hq
    exact this ▸ h.heap x hx
  · exact h.heap x hx

/-- refreshing a non-foreign object with a non-foreign value -/
theorem good_setVal (s : St) (id : Nat) (e : Entry) (hs : Fresh s) (hold : ∀ old, s.val id = some old → isForeign old = false)
    (he : isForeign e = false) : Good s (s.setVal id e) := by
  have hcell : ∀ j, cellF (s.setVal id e) j = cellF s j := by
    intro j
    unfold cellF
    by_cases hj : j = id
    · subst hj
      cases hv : s.val j with
      | none => rw [val_setVal_none s j e hv]
      | some old => rw [val_setVal_self s j e old hv]; simp [he, hold old hv]
    · rw [C10_refresh_touches_one s id j e hj]
  refine ⟨fresh_setVal s id e hs, ?_, ?_, fun _ h => h, ?_, Nat.le_refl _⟩
  · intro j x hx hf
    by_cases hj : j = id
    · subst hj; rw [hold x hx] at hf; cases hf
    · rw [C10_refresh_touches_one s id j e hj]; exact hx
  · intro j x hx hf
    by_cases hj : j = id
    · subst hj; exact ⟨e, val_setVal_self s j e x hx, he⟩
    · exact ⟨x, by rw [C10_refresh_touches_one s id j e hj]; exact hx, hf⟩
  · intro k _
    have : (s.setVal id e).idsOf k = s.idsOf k := rfl
    rw [this]
    exact List.filter_congr (fun j _ => hcell j)

theorem good_markUpdated (s : St) (mp : Str) (hs : Fresh s) : Good s (s.markUpdated mp) :=
  ⟨⟨hs.heap, hs.lists⟩, fun _ _ h _ => h, fun _ e h hf => ⟨e, h, hf⟩, fun _ h => h, fun _ _ => rfl, Nat.le_refl _⟩

theorem hasKey_setIds (s : St) (mp : Str) (ids : List Nat) (k : Str) (h : hasKey s k) : hasKey (s.setIds mp ids) k := by
  unfold hasKey St.setIds at *
  split
  · simp only [List.any_map]
    rw [List.any_eq_true] at h ⊢
    obtain ⟨x, hx, hq⟩ := h
    refine ⟨x, hx, ?_⟩
    simp only [Function.comp]
    split
    · rename_i hm
      have e1 : x.1 = mp := by simpa using hm
      have e2 : x.1 = k := by simpa using hq
      simp [← e1, e2]
    · exact hq
  · simp [List.any_append, h]

theorem idsOf_setIds_other (s : St) (mp k : Str) (ids : List Nat) (h : (k == mp) = false) :
    (s.setIds mp ids).idsOf k = s.idsOf k := by
  have hne : k ≠ mp := by simpa using h
  unfold St.setIds St.idsOf
  split
  · simp only; rw [find_key_map_other s.loaded mp k ids hne]
  · simp only; rw [find_key_append_other s.loaded mp k ids hne]

theorem setIds_nextId (s : St) (mp : Str) (ids : List Nat) : (s.setIds mp ids).nextId = s.nextId := by
  unfold St.setIds; split <;> rfl

theorem fresh_setIds (s : St) (mp : Str) (ids : List Nat) (h : Fresh s) (hids : ∀ i ∈ ids, i < s.nextId) :
    Fresh (s.setIds mp ids) := by
  refine ⟨by rw [setIds_heap, setIds_nextId]; exact h.heap, ?_⟩
  intro kv hkv i hi
  rw [setIds_nextId]
  unfold St.setIds at hkv
  split at hkv
  · simp only [List.mem_map] at hkv
    obtain ⟨x, hx, rfl⟩ := hkv
    split at hi
    · exact hids i hi
    · exact h.lists x hx i hi
  · rcases List.mem_append.mp hkv with hk | hk
    · exact h.lists kv hk i hi
    · simp only [List.mem_singleton] at hk; subst hk; exact hids i hi

theorem val_setIds (s : St) (mp : Str) (ids : List Nat) (j : Nat) : (s.setIds mp ids).val j = s.val j := by
  unfold St.val; rw [setIds_heap]

theorem cellF_setIds (s : St) (mp : Str) (ids : List Nat) (j : Nat) : cellF (s.setIds mp ids) j = cellF s j := by
  unfold cellF; rw [val_setIds]

/-- replacing the identity list of one Manifest by one with the same foreign identities -/
theorem good_setIds (s : St) (mp : Str) (ids : List Nat) (hs : Fresh s) (hids : ∀ i ∈ ids, i < s.nextId)
    (hf : ids.filter (cellF s) = (s.idsOf mp).filter (cellF s)) : Good s (s.setIds mp ids) := by
  refine ⟨fresh_setIds s mp ids hs hids, fun j e h _ => by rw [val_setIds]; exact h,
    fun j e h hf => ⟨e, by rw [val_setIds]; exact h, hf⟩, fun k hk => hasKey_setIds s mp ids k hk, ?_,
    by rw [setIds_nextId]; exact Nat.le_refl _⟩
  intro k _
  have hc : ∀ l : List Nat, l.filter (cellF (s.setIds mp ids)) = l.filter (cellF s) :=
    fun l => List.filter_congr (fun j _ => cellF_setIds s mp ids j)
  rw [hc]
  by_cases hk : (k == mp) = true
  · have : k = mp := by simpa using hk
    subst this
    rw [idsOf_setIds, hf]
  · have hk' : (k == mp) = false := by simpa using hk
    rw [idsOf_setIds_other s mp k ids hk']

theorem idsOf_lt (s : St) (hs : Fresh s) (k : Str) : ∀ i ∈ s.idsOf k, i < s.nextId := by
  intro i hi
  unfold St.idsOf at hi
  cases hf : s.loaded.find? (·.1 == k) with
  | none => simp [hf] at hi
  | some kv =>
    simp only [hf, Option.map_some, Option.getD_some] at hi
    exact hs.lists kv (List.mem_of_find?_eq_some hf) i hi

/-- `list.remove(x)` for a non-foreign `x` -/
theorem good_removeFirstEq (s s' : St) (mp : Str) (x : Entry) (hs : Fresh s) (hx : isForeign x = false)
    (h : s.removeFirstEq mp x = some s') : Good s s' := by
  unfold St.removeFirstEq at h
  cases hg : St.removeFirstEq.go s x (s.idsOf mp) with
  | none => simp [hg] at h
  | some ids =>
    simp [hg] at h; subst h
    obtain ⟨pre, i, post, e1, e2, _, e4⟩ := go_spec s x _ _ hg
    apply good_setIds s mp ids hs
    · intro j hj
      apply idsOf_lt s hs mp
      rw [e1]; rw [e4] at hj
      simp at hj ⊢
      rcases hj with hj | hj
      · exact Or.inl hj
      · exact Or.inr (Or.inr hj)
    · rw [e4, e1]
      have : cellF s i = false := by simp [cellF, e2, hx]
      simp [List.filter_append, List.filter_cons, this]

theorem val_append_old (s : St) (mp : Str) (e : Entry) (hs : Fresh s) (j : Nat) (hj : j ≠ s.nextId) :
    (s.append mp e).val j = s.val j := by
  unfold St.append
  rw [val_setIds]
  unfold St.val
  simp only
  rw [List.find?_append]
  cases hf : s.heap.find? (·.1 == j) with
  | some x => rfl
  | none =>
    have : (s.nextId == j) = false := by simpa using fun h => hj h.symm
    simp [List.find?, this]

theorem val_append_new (s : St) (mp : Str) (e : Entry) (hs : Fresh s) : (s.append mp e).val s.nextId = some e := by
  unfold St.append
  rw [val_setIds]
  unfold St.val
  simp only
  rw [List.find?_append]
  have : s.heap.find? (·.1 == s.nextId) = none := by
    rw [List.find?_eq_none]
    intro x hx
    have := hs.heap x hx
    simp; omega
  simp [this, List.find?]

theorem cellF_none (s : St) (hs : Fresh s) (j : Nat) (hj : s.nextId ≤ j) : s.val j = none := by
  unfold St.val
  have : s.heap.find? (·.1 == j) = none := by
    rw [List.find?_eq_none]
    intro x hx
    have := hs.heap x hx
    simp; omega
  rw [this]; rfl

/-- appending a new non-foreign entry object -/
theorem good_append (s : St) (mp : Str) (e : Entry) (hs : Fresh s) (he : isForeign e = false) : Good s (s.append mp e) := by
  have hval : ∀ j x, s.val j = some x → (s.append mp e).val j = some x := by
    intro j x hx
    have hj : j ≠ s.nextId := by
      intro hh; subst hh
      rw [cellF_none s hs _ (Nat.le_refl _)] at hx; cases hx
    rw [val_append_old s mp e hs j hj]; exact hx
  have hcellOld : ∀ j, j < s.nextId → cellF (s.append mp e) j = cellF s j := by
    intro j hj
    unfold cellF
    rw [val_append_old s mp e hs j (by omega)]
  have happ : s.append mp e = (({ s with nextId := s.nextId + 1, heap := s.heap ++ [(s.nextId, e)] } : St).setIds mp
      (s.idsOf mp ++ [s.nextId])) := rfl
  have hs1 : Fresh ({ s with nextId := s.nextId + 1, heap := s.heap ++ [(s.nextId, e)] } : St) := by
    refine ⟨?_, ?_⟩
    · intro ie hie
      simp only [List.mem_append, List.mem_singleton] at hie
      show ie.1 < s.nextId + 1
      rcases hie with h | h
      · have := hs.heap ie h; omega
      · subst h; simp
    · intro kv hkv i hi
      show i < s.nextId + 1
      have := hs.lists kv hkv i hi; omega
  have hfresh : Fresh (s.append mp e) := by
    rw [happ]
    apply fresh_setIds _ mp _ hs1
    intro i hi
    show i < s.nextId + 1
    simp only [List.mem_append, List.mem_singleton] at hi
    rcases hi with h | h
    · have := idsOf_lt s hs mp i h; omega
    · subst h; omega
  refine ⟨hfresh, fun j x hx _ => hval j x hx, fun j x hx hf => ⟨x, hval j x hx, hf⟩, ?_, ?_, ?_⟩
  · intro k hk
    rw [happ]
    exact hasKey_setIds _ mp _ k hk
  · intro k hk
    have hids : (s.append mp e).idsOf k = if (k == mp) = true then s.idsOf mp ++ [s.nextId] else s.idsOf k := by
      rw [happ]
      by_cases hq : (k == mp) = true
      · have : k = mp := by simpa using hq
        subst this
        simp [idsOf_setIds]
      · have hq' : (k == mp) = false := by simpa using hq
        rw [idsOf_setIds_other _ mp k _ hq']
        simp [hq']
        rfl
    rw [hids]
    have hnew : cellF (s.append mp e) s.nextId = false := by
      unfold cellF; rw [val_append_new s mp e hs]; exact he
    have hold : ∀ l : List Nat, (∀ i ∈ l, i < s.nextId) → l.filter (cellF (s.append mp e)) = l.filter (cellF s) :=
      fun l hl => List.filter_congr (fun j hj => hcellOld j (hl j hj))
    split
    · rename_i hq
      have : k = mp := by simpa using hq
      subst this
      rw [List.filter_append, hold _ (idsOf_lt s hs k)]
      simp [List.filter_cons, hnew]
    · exact hold _ (idsOf_lt s hs k)
  · rw [happ, setIds_nextId]; exact Nat.le_succ _

/-! ## Loading further Manifests -/

theorem find_append_left {α : Type} (l r : List α) (p : α → Bool) (x : α) (h : l.find? p = some x) : (l ++ r).find? p = some x := by
  rw [List.find?_append, h]; rfl

theorem hasKey_iff (s : St) (k : Str) : hasKey s k ↔ ∃ ids, (k, ids) ∈ s.loaded := by
  unfold hasKey
  rw [List.any_eq_true]
  constructor
  · rintro ⟨x, hx, hq⟩
    have : x.1 = k := by simpa using hq
    exact ⟨x.2, by rw [← this]; exact hx⟩
  · rintro ⟨ids, h⟩
    exact ⟨(k, ids), h, by simp⟩

def newIds (acc : St) (n : Nat) : List Nat := (List.range n).map (· + acc.nextId)

/-- a Manifest that is not loaded yet gets fresh entry objects -/
def syncNew (acc : St) (kv : Str × List Entry) : St :=
  { acc with loaded := acc.loaded ++ [(kv.1, newIds acc kv.2.length)], heap := acc.heap ++ (newIds acc kv.2.length).zip kv.2,
             nextId := acc.nextId + kv.2.length }

/-- one step of `sync` -/
def syncStep (acc : St) (kv : Str × List Entry) : St :=
  if acc.loaded.any (·.1 == kv.1) then acc else syncNew acc kv

theorem sync_eq (s : St) (lm : LoadedMs) : s.sync lm = lm.foldl syncStep s := rfl

theorem mem_zip_fst {α β : Type} (a : List α) (b : List β) (x : α × β) (h : x ∈ a.zip b) : x.1 ∈ a := by
  induction a generalizing b with
  | nil => simp at h
  | cons y ys ih =>
    cases b with
    | nil => simp at h
    | cons z zs =>
      simp only [List.zip_cons_cons, List.mem_cons] at h
      rcases h with rfl | h
      · simp
      · exact List.mem_cons_of_mem _ (ih zs h)

theorem newIds_range (acc : St) (n : Nat) : ∀ i ∈ newIds acc n, acc.nextId ≤ i ∧ i < acc.nextId + n := by
  intro i hi
  simp only [newIds, List.mem_map, List.mem_range] at hi
  obtain ⟨a, ha, rfl⟩ := hi
  omega

theorem val_syncNew (acc : St) (kv : Str × List Entry) (j : Nat) (hj : j < acc.nextId) : (syncNew acc kv).val j = acc.val j := by
  unfold St.val syncNew
  simp only
  rw [List.find?_append]
  cases hf : acc.heap.find? (·.1 == j) with
  | some x => rfl
  | none =>
    have : ((newIds acc kv.2.length).zip kv.2).find? (·.1 == j) = none := by
      rw [List.find?_eq_none]
      intro x hx
      have := (newIds_range acc _ x.1 (mem_zip_fst _ _ x hx)).1
      simp; omega
    simp [this]

theorem good_syncStep (acc : St) (kv : Str × List Entry) (hs : Fresh acc) : Good acc (syncStep acc kv) := by
  unfold syncStep
  split
  · exact Good.refl acc hs
  · rename_i hnew
    have hnew' : acc.loaded.any (·.1 == kv.1) = false := by
      cases hq : acc.loaded.any (·.1 == kv.1) with
      | false => rfl
      | true => exact absurd hq hnew
    have hvalSome : ∀ j e, acc.val j = some e → (syncNew acc kv).val j = some e := by
      intro j e he
      have hj : j < acc.nextId := by
        rcases Nat.lt_or_ge j acc.nextId with h | h
        · exact h
        · rw [cellF_none acc hs j h] at he; cases he
      rw [val_syncNew acc kv j hj]; exact he
    refine ⟨⟨?_, ?_⟩, fun j e he _ => hvalSome j e he, fun j e he hf => ⟨e, hvalSome j e he, hf⟩, ?_, ?_, Nat.le_add_right _ _⟩
    · intro ie hie
      show ie.1 < acc.nextId + kv.2.length
      have hie' : ie ∈ acc.heap ++ (newIds acc kv.2.length).zip kv.2 := hie
      rcases List.mem_append.mp hie' with h | h
      · have := hs.heap ie h; omega
      · exact (newIds_range acc _ ie.1 (mem_zip_fst _ _ ie h)).2
    · intro x hx i hi
      show i < acc.nextId + kv.2.length
      have hx' : x ∈ acc.loaded ++ [(kv.1, newIds acc kv.2.length)] := hx
      rcases List.mem_append.mp hx' with h | h
      · have := hs.lists x h i hi; omega
      · simp only [List.mem_singleton] at h; subst h; exact (newIds_range acc _ i hi).2
    · intro k hk
      unfold hasKey at *
      show (acc.loaded ++ [(kv.1, newIds acc kv.2.length)]).any (·.1 == k) = true
      simp [List.any_append, hk]
    · intro k hk
      have hne : k ≠ kv.1 := by
        intro he
        subst he
        unfold hasKey at hk
        rw [hk] at hnew'; cases hnew'
      have hids : (syncNew acc kv).idsOf k = acc.idsOf k := by
        unfold St.idsOf syncNew
        simp only
        rw [find_key_append_other acc.loaded kv.1 k _ hne]
      rw [hids]
      apply List.filter_congr
      intro j hj
      unfold cellF
      rw [val_syncNew acc kv j (idsOf_lt acc hs k j hj)]

theorem good_foldl {α : Type} (f : St → α → St) (hf : ∀ s a, Fresh s → Good s (f s a)) :
    ∀ (l : List α) (s : St), Fresh s → Good s (l.foldl f s) := by
  intro l
  induction l with
  | nil => intro s hs; exact Good.refl s hs
  | cons a rest ih =>
    intro s hs
    have g1 := hf s a hs
    exact g1.trans (ih (f s a) g1.fresh)

theorem good_sync (s : St) (lm : LoadedMs) (hs : Fresh s) : Good s (s.sync lm) := by
  rw [sync_eq]
  exact good_foldl syncStep good_syncStep lm s hs

theorem good_load (w : World) (s s' : St) (path : Str) (r v : Bool) (hs : Fresh s) (h : s.load w path r v = .ok s') : Good s s' := by
  unfold St.load at h
  split at h
  · cases h
  · cases h; exact good_sync s _ hs

/-- a fold whose steps are `Good` on a projection of its state -/
theorem good_foldE {σ α : Type} (proj : σ → St) (f : σ → α → Except Err σ)
    (hf : ∀ x a x', Fresh (proj x) → f x a = .ok x' → Good (proj x) (proj x')) :
    ∀ (l : List α) (x x' : σ), Fresh (proj x) → foldE f x l = .ok x' → Good (proj x) (proj x') := by
  intro l
  induction l with
  | nil => intro x x' hs h; simp [foldE] at h; subst h; exact Good.refl _ hs
  | cons a rest ih =>
    intro x x' hs h
    simp only [foldE] at h
    cases hfa : f x a with
    | error e => simp [hfa] at h
    | ok x1 =>
      simp only [hfa] at h
      have g1 := hf x a x1 hs hfa
      exact g1.trans (ih x1 x' g1.fresh h)

theorem good_tryLoad (w : World) (s s' : St) (fp : Str) (b : Bool) (hs : Fresh s)
    (h : tryLoadUnregistered w s fp = .ok (s', b)) : Good s s' := by
  unfold tryLoadUnregistered at h
  split at h
  · cases h; exact good_sync s _ hs
  · cases h; exact Good.refl s hs
  · cases h

theorem good_scanNameStep (w : World) (rel : Str) (fns : List Str) (x x' : ScanSt) (a : Str) (hx : Fresh x.st)
    (h : scanNameStep w rel fns x a = .ok x') : Good x.st x'.st := by
  unfold scanNameStep at h
  split at h
  · cases h; exact Good.refl _ hx
  · simp only at h
    split at h
    · cases h; exact Good.refl _ hx
    · split at h
      · cases h; exact Good.refl _ hx
      · split at h
        · cases h
        · rename_i st' htl
          cases h
          exact good_tryLoad w x.st st' _ true hx htl
        · rename_i st' htl
          cases h
          exact good_tryLoad w x.st st' _ false hx htl

theorem good_scanDir (w : World) (ed : EntryDict) (ss ss' : ScanSt) (sys rel : Str) (dev ino : Nat) (kids : List (Str × Node))
    (keep : List Str) (hs : Fresh ss.st) (h : scanDir w ed ss sys rel dev ino kids = .ok (ss', keep)) : Good ss.st ss'.st := by
  unfold scanDir at h
  split at h
  · cases h
  · simp only at h
    split at h
    · cases h
    · cases hfold : foldE (scanNameStep w rel ((kids.filter (!·.2.isDirNode)).map (·.1)))
          { ss with ids := if ((kids.filter (·.2.isDirNode)).map (·.1)).filter (fun d => !isHidden d && (ddGet (edGet ed rel) d).isNone) |>.isEmpty
                            then ss.ids else (ss.ids.filter (·.1 != sys)) ++ [(sys, ((ss.ids.find? (·.1 == dirname sys)).map (·.2)).getD [] ++ [(dev, ino)])] }
          manifestNames with
      | error e => rw [hfold] at h; cases h
      | ok ss2 =>
        rw [hfold] at h
        cases h
        have key := fun (x0 : ScanSt) (h0 : foldE (scanNameStep w rel ((kids.filter (!·.2.isDirNode)).map (·.1))) x0 manifestNames = .ok ss')
            (hx : Fresh x0.st) =>
          good_foldE (fun (x : ScanSt) => x.st) (scanNameStep w rel ((kids.filter (!·.2.isDirNode)).map (·.1)))
            (fun x a x' hx hstep => good_scanNameStep w rel _ x x' a hx hstep) manifestNames x0 ss' hx h0
        have g := key _ hfold hs
        exact g

/-- the scan for unregistered Manifests over any tree -/
theorem good_scanWalk (w : World) (ed : EntryDict) (n : Node) :
    ∀ (ss ss' : ScanSt) (sys rel : Str), Fresh ss.st → scanWalk w ed ss sys rel n = .ok ss' → Good ss.st ss'.st := by
  refine Node.rec
    (motive_1 := fun n => ∀ (ss ss' : ScanSt) (sys rel : Str), Fresh ss.st → scanWalk w ed ss sys rel n = .ok ss' → Good ss.st ss'.st)
    (motive_2 := fun kids => ∀ (ss ss' : ScanSt) (sys rel : Str) (keep : List Str), Fresh ss.st →
      scanKids w ed ss sys rel keep kids = .ok ss' → Good ss.st ss'.st)
    (motive_3 := fun p => ∀ (ss ss' : ScanSt) (sys rel : Str), Fresh ss.st → scanWalk w ed ss sys rel p.2 = .ok ss' → Good ss.st ss'.st)
    ?_ ?_ ?_ ?_ ?_ ?_ ?_ ?_ n
  · intro m ss ss' sys rel hs h; simp only [scanWalk] at h; cases h; exact Good.refl _ hs
  · intro dev ino kids ih ss ss' sys rel hs h
    simp only [scanWalk] at h
    cases hv : scanDir w ed ss sys rel dev ino kids with
    | error e => simp [hv] at h
    | ok r =>
      obtain ⟨ss1, keep⟩ := r
      simp only [hv] at h
      have g1 := good_scanDir w ed ss ss1 sys rel dev ino kids keep hs hv
      exact g1.trans (ih ss1 ss' sys rel keep g1.fresh h)
  · intro d ss ss' sys rel hs h; simp only [scanWalk] at h; cases h; exact Good.refl _ hs
  · intro ss ss' sys rel hs h; simp only [scanWalk] at h; cases h; exact Good.refl _ hs
  · intro code asDir ss ss' sys rel hs h
    cases asDir
    · simp only [scanWalk] at h; cases h; exact Good.refl _ hs
    · simp only [scanWalk] at h; cases h
  · intro ss ss' sys rel keep hs h; simp only [scanKids] at h; cases h; exact Good.refl _ hs
  · intro hd tl ihh iht ss ss' sys rel keep hs h
    obtain ⟨nm, ch⟩ := hd
    simp only [scanKids] at h
    split at h
    · cases hw : scanWalk w ed ss (pjoin sys nm) (relJoin rel nm) ch with
      | error e => simp [hw] at h
      | ok ss1 =>
        simp only [hw] at h
        have g1 := ihh ss ss1 _ _ hs hw
        exact g1.trans (iht ss1 ss' sys rel keep g1.fresh h)
    · exact iht ss ss' sys rel keep hs h
  · intro nm ch ih ss ss' sys rel hs h; exact ih ss ss' sys rel hs h

theorem good_loadUnregistered (w : World) (s s' : St) (path : Str) (nm : List Str) (hs : Fresh s)
    (h : loadUnregistered w s path = .ok (s', nm)) : Good s s' := by
  unfold loadUnregistered at h
  split at h
  · cases h
  · rename_i s1 hl
    have g1 := good_load w s s1 path true false hs hl
    split at h
    · cases h
    · split at h
      · cases h
      · split at h
        · cases h
        · split at h
          · cases h
          · rename_i ss hsw
            cases h
            exact g1.trans (good_scanWalk w _ _ { st := s1 } ss _ _ g1.fresh hsw)
        · cases h
        · cases h
        · cases h

/-! ## The de-duplication -/

/-- the update dictionary holds existing, non-foreign entry objects only -/
def UdOK (s : St) (ud : UDict) : Prop := ∀ x ∈ ud, ∃ e, s.val x.2.2 = some e ∧ isForeign e = false

theorem UdOK.step {s s' : St} {ud : UDict} (hu : UdOK s ud) (h : Good s s') : UdOK s' ud := by
  intro x hx
  obtain ⟨e, he, hf⟩ := hu x hx
  exact h.keepN _ e he hf

theorem foldE_inv_mem {σ α : Type} (I : σ → Prop) (f : σ → α → Except Err σ) (l : List α)
    (hstep : ∀ x a x', a ∈ l → I x → f x a = .ok x' → I x') : ∀ (x x' : σ), I x → foldE f x l = .ok x' → I x' := by
  induction l with
  | nil => intro x x' hi h; simp [foldE] at h; subst h; exact hi
  | cons a rest ih =>
    intro x x' hi h
    simp only [foldE] at h
    cases hfa : f x a with
    | error e => simp [hfa] at h
    | ok x1 =>
      simp only [hfa] at h
      exact ih (fun y b y' hb => hstep y b y' (List.mem_cons_of_mem _ hb)) x1 x'
        (hstep x a x1 List.mem_cons_self hi hfa) h

theorem entriesOf_val (s : St) (mp : Str) (ie : IEntry) (h : ie ∈ s.entriesOf mp) : s.val ie.1 = some ie.2 := by
  rw [entriesOf_eq] at h
  simp only [List.mem_filterMap] at h
  obtain ⟨id, _, hv⟩ := h
  cases hq : s.val id with
  | none => simp [hq] at hv
  | some e => simp [hq] at hv; subst hv; exact hq

theorem udGet_mem (d : UDict) (k mp : Str) (id : Nat) (h : udGet d k = some (mp, id)) : (k, mp, id) ∈ d := by
  unfold udGet at h
  cases hf : d.find? (·.1 == k) with
  | none => simp [hf] at h
  | some x =>
    simp only [hf, Option.map_some, Option.some.injEq] at h
    have hx := List.mem_of_find?_eq_some hf
    have hk : x.1 = k := by simpa using List.find?_some hf
    obtain ⟨a, b⟩ := x
    simp only at hk h
    subst hk; subst h
    exact hx

theorem mergeInto_notForeign (kept e kept' : Entry) (hk : isForeign kept = false) (h : mergeInto kept e = .ok kept') :
    isForeign kept' = false := by
  cases kept with
  | timestamp t => simp [isForeign] at hk
  | ignore p => cases e <;> simp [mergeInto] at h <;> subst h <;> rfl
  | file t p n c =>
    cases e with
    | file t2 p2 n2 c2 =>
      simp only [mergeInto, Except.ok.injEq] at h; subst h
      cases t <;> simp_all [isForeign]
    | timestamp t2 => simp only [mergeInto, Except.ok.injEq] at h; subst h; exact hk
    | ignore p2 => simp only [mergeInto, Except.ok.injEq] at h; subst h; exact hk

/-- the invariant of the de-duplication of one Manifest, relative to the state `s0` it started from -/
structure DedupInv (s0 : St) (acc : DedupSt × List Entry) : Prop where
  good : Good s0 acc.1.st
  ud : UdOK acc.1.st acc.1.out
  rem : ∀ x ∈ acc.2, isForeign x = false

theorem dedupEntryStep_inv (path mp rel : Str) (s0 : St) (acc acc' : DedupSt × List Entry) (ie : IEntry)
    (hie : s0.val ie.1 = some ie.2) (hi : DedupInv s0 acc) (h : dedupEntryStep path mp rel acc ie = .ok acc') : DedupInv s0 acc' := by
  obtain ⟨ds, toRemove⟩ := acc
  have core : ∀ e, ie.2 = e → isForeign e = false →
      (if !pathStartsWith (pjoin rel e.fullPath) path then (.ok (ds, toRemove) : Except Err (DedupSt × List Entry))
       else match udGet ds.out (pjoin rel e.fullPath) with
        | none => .ok ({ ds with out := ds.out ++ [(pjoin rel e.fullPath, mp, ie.1)] }, toRemove)
        | some (_kmp, kid) =>
          match ds.st.val kid with
          | none => .error (.internal .other)
          | some kept =>
            match entryCompat kept e with
            | .error err => .error err
            | .ok .typeMismatch => .error .incompatible
            | .ok _ =>
              match mergeInto kept e with
              | .error err => .error err
              | .ok kept' => .ok ({ ds with st := ds.st.setVal kid kept' }, toRemove ++ [e])) = .ok acc' → DedupInv s0 acc' := by
    intro e hee hef hh
    split at hh
    · cases hh; exact hi
    · split at hh
      · cases hh
        refine ⟨hi.good, ?_, hi.rem⟩
        intro x hx
        rcases List.mem_append.mp hx with hx | hx
        · exact hi.ud x hx
        · simp only [List.mem_singleton] at hx
          subst hx
          obtain ⟨e', he', hf'⟩ := hi.good.keepN ie.1 ie.2 hie (by rw [hee]; exact hef)
          exact ⟨e', he', hf'⟩
      · rename_i kmp kid hget
        have hmem := udGet_mem ds.out _ kmp kid hget
        obtain ⟨k0, hk0, hk0f⟩ := hi.ud _ hmem
        simp only at hk0
        split at hh
        · cases hh
        · rename_i kept hkept
          rw [hk0] at hkept
          cases hkept
          split at hh
          · cases hh
          · cases hh
          · split at hh
            · cases hh
            · rename_i kept' hm
              cases hh
              have hk' := mergeInto_notForeign k0 e kept' hk0f hm
              have g := good_setVal ds.st kid kept' hi.good.fresh (fun old ho => by rw [hk0] at ho; cases ho; exact hk0f) hk'
              refine ⟨hi.good.trans g, hi.ud.step g, ?_⟩
              intro x hx
              rcases List.mem_append.mp hx with hx | hx
              · exact hi.rem x hx
              · simp only [List.mem_singleton] at hx; subst hx; exact hef
  unfold dedupEntryStep at h
  simp only at h
  cases hq : ie.2 with
  | timestamp t => rw [hq] at h; simp only at h; cases h; exact hi
  | ignore p => rw [hq] at h; exact core (.ignore p) hq rfl h
  | file t p n c =>
    rw [hq] at h
    cases t
    case DIST => simp only at h; cases h; exact hi
    all_goals exact core _ hq rfl h

theorem good_foldE_mem {σ α : Type} (proj : σ → St) (f : σ → α → Except Err σ) (l : List α)
    (hf : ∀ x a x', a ∈ l → Fresh (proj x) → f x a = .ok x' → Good (proj x) (proj x')) :
    ∀ (x x' : σ), Fresh (proj x) → foldE f x l = .ok x' → Good (proj x) (proj x') := by
  induction l with
  | nil => intro x x' hs h; simp [foldE] at h; subst h; exact Good.refl _ hs
  | cons a rest ih =>
    intro x x' hs h
    simp only [foldE] at h
    cases hfa : f x a with
    | error e => simp [hfa] at h
    | ok x1 =>
      simp only [hfa] at h
      have g1 := hf x a x1 List.mem_cons_self hs hfa
      exact g1.trans (ih (fun y b y' hb => hf y b y' (List.mem_cons_of_mem _ hb)) x1 x' g1.fresh h)

theorem dedupManifest_inv (path : Str) (ds ds' : DedupSt) (mp rel : Str) (hfr : Fresh ds.st) (hu : UdOK ds.st ds.out)
    (h : dedupManifest path ds mp rel = .ok ds') : Good ds.st ds'.st ∧ UdOK ds'.st ds'.out := by
  unfold dedupManifest at h
  cases hfold : foldE (dedupEntryStep path mp rel) (ds, []) (ds.st.entriesOf mp) with
  | error e => rw [hfold] at h; cases h
  | ok r =>
    obtain ⟨ds1, toRemove⟩ := r
    rw [hfold] at h
    simp only at h
    have inv : DedupInv ds.st (ds1, toRemove) :=
      foldE_inv_mem (DedupInv ds.st) (dedupEntryStep path mp rel) (ds.st.entriesOf mp)
        (fun x a x' ha hi hs => dedupEntryStep_inv path mp rel ds.st x x' a (entriesOf_val ds.st mp a ha) hi hs)
        (ds, []) (ds1, toRemove) ⟨Good.refl _ hfr, hu, fun _ hx => by cases hx⟩ hfold
    split at h
    · cases h; exact ⟨inv.good, inv.ud⟩
    · cases hrem : foldE (dedupRemoveStep mp) ds1.st toRemove with
      | error e => rw [hrem] at h; cases h
      | ok st' =>
        rw [hrem] at h
        cases h
        have g2 : Good ds1.st st' :=
          good_foldE_mem (fun (x : St) => x) (dedupRemoveStep mp) toRemove
            (fun x a x' ha hx hs => by
              unfold dedupRemoveStep at hs
              split at hs
              · cases hs
              · rename_i r hr
                cases hs
                exact good_removeFirstEq x x' mp a hx (inv.rem a ha) hr) ds1.st st' inv.good.fresh hrem
        have g3 := good_markUpdated st' mp g2.fresh
        exact ⟨inv.good.trans (g2.trans g3), (inv.ud.step g2).step g3⟩

theorem dedupDict_inv (w : World) (s s' : St) (path : Str) (ud : UDict) (hs : Fresh s)
    (h : dedupDict w s path = .ok (s', ud)) : Good s s' ∧ UdOK s' ud := by
  unfold dedupDict at h
  split at h
  · cases h
  · rename_i s1 hl
    have g1 := good_load w s s1 path true false hs hl
    cases hfold : foldE (fun (ds : DedupSt) (kdv : Str × Str × List Entry) => dedupManifest path ds kdv.1 kdv.2.1)
        { st := s1 } (iterManifests s1.plain path true) with
    | error e => rw [hfold] at h; cases h
    | ok ds =>
      rw [hfold] at h
      cases h
      have inv := foldE_inv_mem (fun (d : DedupSt) => Good s1 d.st ∧ UdOK d.st d.out) _ (iterManifests s1.plain path true)
        (fun x a x' _ hi hstep => by
          obtain ⟨ga, ua⟩ := dedupManifest_inv path x x' a.1 a.2.1 hi.1.fresh hi.2 hstep
          exact ⟨hi.1.trans ga, ua⟩) { st := s1 } ds ⟨Good.refl _ g1.fresh, fun _ hx => by cases hx⟩ hfold
      exact ⟨g1.trans inv.1, inv.2⟩

/-! ## The walk -/

theorem UdOK.filter {s : St} {ud : UDict} (hu : UdOK s ud) (p : Str × Str × Nat → Bool) : UdOK s (ud.filter p) :=
  fun x hx => hu x (List.mem_filter.mp hx).1

theorem refreshEntry_notForeign (o : Obj) (p : Str) (e e' : Entry) (hs : Option (List Str)) (d : Option Nat) (lm : Option Int) (b : Bool)
    (he : isForeign e = false) (h : refreshEntry o p e hs d lm = .ok (e', b)) : isForeign e' = false := by
  cases e with
  | timestamp t => simp [isForeign] at he
  | ignore q => simp [refreshEntry] at h
  | file t q n c =>
    cases o with
    | file m =>
      simp only [refreshEntry] at h
      split at h
      · cases h
      · split at h
        · cases h; exact he
        · split at h
          · cases h
          · split at h
            · cases h
            · split at h
              · cases h; cases t <;> simp_all [isForeign]
              · cases h; exact he
    | dir dd i ks => simp only [refreshEntry] at h; split at h <;> cases h
    | special dd => simp only [refreshEntry] at h; split at h <;> cases h
    | absent => simp [refreshEntry] at h
    | notdir => simp [refreshEntry] at h
    | fault x => simp [refreshEntry] at h

theorem entryType_notDist (p : Prof.Profile) (path : Str) : Prof.entryType p path ≠ .DIST := by
  unfold Prof.entryType
  cases p <;> simp only <;> (try (repeat' split)) <;> simp

/-- every new entry collected in a directory is a non-foreign entry -/
def NewsOK (news : List NewEntry) : Prop := ∀ ne ∈ news, isForeign ne.e = false

theorem updFilesStep_inv (w : World) (o : Opts) (newMs : List Str) (rel : Str) (s0 : St)
    (acc acc' : St × UDict × List (Str × Str) × List NewEntry) (f : Str)
    (hg : Good s0 acc.1) (hu : UdOK acc.1 acc.2.1) (hn : NewsOK acc.2.2.2)
    (h : updFilesStep w o newMs rel acc f = .ok acc') :
    Good s0 acc'.1 ∧ UdOK acc'.1 acc'.2.1 ∧ NewsOK acc'.2.2.2 := by
  obtain ⟨st, ud, stack, news⟩ := acc
  unfold updFilesStep at h
  simp only at h
  split at h
  · cases h; exact ⟨hg, hu, hn⟩
  · simp only [udPop] at h
    split at h
    · rename_i mp id hget
      have hmem := udGet_mem ud _ mp id hget
      obtain ⟨e0, he0, he0f⟩ := hu _ hmem
      simp only at he0
      split at h
      · cases h
      · cases h; exact ⟨hg, hu.filter _, hn⟩
      · rename_i fe hni hfe
        rw [he0] at hfe
        cases hfe
        split at h
        · cases h
        · split at h
          · cases h
          · split at h
            · cases h
            · rename_i fe' changed hre
              cases h
              have hf' := refreshEntry_notForeign _ _ e0 fe' _ _ _ changed he0f hre
              have g1 := good_setVal st id fe' hg.fresh (fun old ho => by rw [he0] at ho; cases ho; exact he0f) hf'
              by_cases hc : changed = true
              · simp only [hc, if_true]
                have g2 := good_markUpdated (st.setVal id fe') mp g1.fresh
                exact ⟨hg.trans (g1.trans g2), ((hu.filter _).step g1).step g2, hn⟩
              · simp only [hc, Bool.false_eq_true, if_false]
                exact ⟨hg.trans g1, (hu.filter _).step g1, hn⟩
    · split at h
      · cases h; exact ⟨hg, hu.filter _, hn⟩
      · split at h
        · cases h
        · split at h
          · cases h
          · split at h
            · cases h
            · rename_i fe' b hre
              cases h
              refine ⟨hg, hu.filter _, ?_⟩
              intro ne hne
              rcases List.mem_append.mp hne with hne | hne
              · exact hn ne hne
              · simp only [List.mem_singleton] at hne
                subst hne
                simp only
                have hnd : ∀ t : FTag, t ≠ FTag.DIST → isForeign (Entry.file t (pjoin rel f) 0 []) = false := by
                  intro t ht; cases t <;> simp_all [isForeign]
                refine refreshEntry_notForeign _ _ _ fe' _ _ _ b (hnd _ ?_) hre
                split
                · simp
                · exact entryType_notDist o.profile (pjoin rel f)

theorem findIdInLoaded_spec (s : St) (path k : Str) (id : Nat) (e : Entry) (h : findIdInLoaded s path = some (k, id, e)) :
    s.val id = some e ∧ isForeign e = false := by
  unfold findIdInLoaded at h
  have hm := List.mem_of_mem_head? h
  simp only [List.mem_flatMap, List.mem_filterMap] at hm
  obtain ⟨⟨k', rel, es⟩, _, ie, hie, hf⟩ := hm
  have hv := entriesOf_val s k' ie hie
  cases hq : ie.2 with
  | timestamp t => rw [hq] at hf; simp at hf
  | ignore p =>
    rw [hq] at hf
    simp only at hf
    split at hf
    · cases hf; exact ⟨by rw [← hq]; exact hv, rfl⟩
    · cases hf
  | file t p n c =>
    rw [hq] at hf
    cases t
    case DIST => simp at hf
    all_goals
      simp only at hf
      split at hf
      · cases hf; exact ⟨by rw [← hq]; exact hv, rfl⟩
      · cases hf

theorem good_dropId (s : St) (id : Nat) (hs : Fresh s) (hc : cellF s id = false) (l : List (Str × Str × List Entry)) :
    Good s (l.foldl (fun (acc : St) (kdv : Str × Str × List Entry) =>
      if (acc.idsOf kdv.1).contains id then (acc.setIds kdv.1 ((acc.idsOf kdv.1).filter (· != id))).markUpdated kdv.1 else acc) s) := by
  have key : ∀ (l : List (Str × Str × List Entry)) (acc : St), Fresh acc → cellF acc id = false →
      Good acc (l.foldl (fun (acc : St) (kdv : Str × Str × List Entry) =>
        if (acc.idsOf kdv.1).contains id then (acc.setIds kdv.1 ((acc.idsOf kdv.1).filter (· != id))).markUpdated kdv.1 else acc) acc) := by
    intro l
    induction l with
    | nil => intro acc ha _; exact Good.refl _ ha
    | cons kdv rest ih =>
      intro acc ha hca
      simp only [List.foldl_cons]
      split
      · have g1 : Good acc (acc.setIds kdv.1 ((acc.idsOf kdv.1).filter (· != id))) := by
          apply good_setIds acc kdv.1 _ ha
          · intro i hi; exact idsOf_lt acc ha kdv.1 i (List.mem_filter.mp hi).1
          · rw [List.filter_filter]
            apply List.filter_congr
            intro j _
            by_cases hj : j = id
            · subst hj; simp [hca]
            · simp [hj]
        have g2 := good_markUpdated _ kdv.1 g1.fresh
        have g12 := g1.trans g2
        have hc2 : cellF ((acc.setIds kdv.1 ((acc.idsOf kdv.1).filter (· != id))).markUpdated kdv.1) id = false := by
          show cellF (acc.setIds kdv.1 _) id = false
          rw [cellF_setIds]; exact hca
        exact g12.trans (ih _ g12.fresh hc2)
      · exact ih acc ha hca
  exact key l s hs hc

theorem good_dropOldEntries (w : World) (iep : Str) : ∀ (fuel : Nat) (s s' : St) (d b1 b2 : Bool), Fresh s →
    dropOldEntries w iep fuel s d = .ok (s', b1, b2) → Good s s' := by
  intro fuel
  induction fuel with
  | zero =>
    intro s s' d b1 b2 hs h
    simp only [dropOldEntries] at h
    split at h
    · cases h; exact Good.refl _ hs
    · cases h; exact Good.refl _ hs
    · cases h
  | succ n ih =>
    intro s s' d b1 b2 hs h
    simp only [dropOldEntries] at h
    split at h
    · cases h; exact Good.refl _ hs
    · cases h; exact Good.refl _ hs
    · rename_i k id e hni hfind
      obtain ⟨hv, hf⟩ := findIdInLoaded_spec s iep k id e hfind
      have hc : cellF s id = false := by rw [cellF_some_of s id e hv]; exact hf
      have g1 := good_dropId s id hs hc (iterManifests s.plain iep false)
      split at h
      · cases h
      · rename_i s2 hl
        have g2 := good_load w _ s2 iep false true g1.fresh hl
        exact (g1.trans g2).trans (ih s2 s' true b1 b2 g2.fresh h)

theorem good_updIgnoreStep (w : World) (rel mp : Str) (acc acc' : St × List Str × List Str) (ip : Str) (hs : Fresh acc.1)
    (h : updIgnoreStep w rel mp acc ip = .ok acc') : Good acc.1 acc'.1 := by
  unfold updIgnoreStep at h
  simp only at h
  split at h
  · cases h
  · rename_i st' hl
    have g1 := good_load w acc.1 st' _ false true hs hl
    split at h
    · cases h
    · rename_i st'' dr hd
      cases h
      exact g1.trans (good_dropOldEntries w _ _ st' st'' false true dr g1.fresh hd)
    · rename_i st'' dr hd
      cases h
      have g2 := good_dropOldEntries w _ _ st' st'' false false dr g1.fresh hd
      exact (g1.trans g2).trans (good_append st'' mp (.ignore ip) g2.fresh rfl)

theorem good_updNewManifest (w : World) (o : Opts) (rel : Str) (st2 st5 : St) (stack2 stack5 : List (Str × Str))
    (news2 news5 : List NewEntry) (ni dr : List Str) (hs : Fresh st2) (hn : NewsOK news2)
    (h : updNewManifest w o rel st2 stack2 news2 = .ok (st5, stack5, news5, ni, dr)) : Good st2 st5 ∧ NewsOK news5 := by
  unfold updNewManifest at h
  simp only at h
  have hcreated : ∀ st3, (match loadOne w (pjoin rel Prof.sManifest) none with
      | .ok es => (.ok (st2.sync [(pjoin rel Prof.sManifest, es)]) : Except Err St)
      | .error (.os .ENOENT) => .ok ((st2.sync [(pjoin rel Prof.sManifest, [])]).markUpdated (pjoin rel Prof.sManifest))
      | .error e => .error e) = .ok st3 → Good st2 st3 := by
    intro st3 hc
    split at hc
    · cases hc; exact good_sync st2 _ hs
    · cases hc
      have g1 := good_sync st2 [(pjoin rel Prof.sManifest, [])] hs
      exact g1.trans (good_markUpdated _ _ g1.fresh)
    · cases hc
  split at h
  · cases h
  · rename_i st3 hc
    have g1 := hcreated st3 hc
    cases hfold : foldE (updIgnoreStep w rel (pjoin rel Prof.sManifest)) (st3, [], []) (Prof.ignorePaths o.profile rel) with
    | error e => rw [hfold] at h; cases h
    | ok r =>
      obtain ⟨st4, newIgn, dropped⟩ := r
      rw [hfold] at h
      cases h
      have g2 := good_foldE (fun (x : St × List Str × List Str) => x.1) (updIgnoreStep w rel (pjoin rel Prof.sManifest))
        (fun x a x' hx hstep => good_updIgnoreStep w rel _ x x' a hx hstep) (Prof.ignorePaths o.profile rel)
        (st3, [], []) _ g1.fresh hfold
      refine ⟨g1.trans g2, ?_⟩
      intro ne hne
      rcases List.mem_append.mp hne with hne | hne
      · exact hn ne hne
      · simp only [List.mem_singleton] at hne; subst hne; rfl

theorem good_updPlaceStep (stack5 : List (Str × Str)) (mpath mdir : Str) (newIgn : List Str) (st st' : St) (ne : NewEntry)
    (hs : Fresh st) (hne : isForeign ne.e = false) (h : updPlaceStep stack5 mpath mdir newIgn st ne = .ok st') : Good st st' := by
  unfold updPlaceStep at h
  cases he : ne.e with
  | timestamp t => rw [he] at hne; simp [isForeign] at hne
  | ignore p =>
    simp only [he] at h
    split at h <;> (cases h; exact Good.refl _ hs)
  | file t p n c =>
    simp only [he] at h
    split at h
    · cases h; exact Good.refl _ hs
    · have hother : ∀ st'', (match relpath? p mdir with
          | none => (.error .abstain : Except Err St)
          | some rp => .ok (st.append mpath (if t == FTag.AUX then
              (if pathInsideDir rp Prof.sFiles then Entry.file FTag.AUX (rp.drop 6) n c else Entry.file FTag.DATA rp n c)
              else Entry.file t rp n c))) = .ok st'' → Good st st'' := by
        intro st'' hh
        split at hh
        · cases hh
        · cases hh
          apply good_append st mpath _ hs
          by_cases ht : (t == FTag.AUX) = true
          · simp only [ht, if_true]
            split <;> rfl
          · simp only [ht, Bool.false_eq_true, if_false]
            rw [he] at hne
            cases t <;> simp_all [isForeign]
      cases t
      case MANIFEST =>
        simp only at h
        split at h
        · cases h
        · split at h
          · cases h
          · have helper : ∀ (mmp rp : Str), Good st ((st.append mmp (Entry.file .MANIFEST rp n c)).markUpdated mmp) := by
              intro mmp rp
              have g1 := good_append st mmp (Entry.file .MANIFEST rp n c) hs rfl
              exact g1.trans (good_markUpdated _ mmp g1.fresh)
            cases h
            exact helper _ _
      all_goals exact hother st' h

/-- the walk's state relative to the state `s0` it started from -/
structure WInv (s0 : St) (ws : WSt) : Prop where
  good : Good s0 ws.st
  ud : UdOK ws.st ws.ud

theorem updDirsStep_ud (w : World) (o : Opts) (st : St) (rel : Str) (acc acc' : UDict × List Str) (d : Str)
    (hu : UdOK st acc.1) (h : updDirsStep w o st rel acc d = .ok acc') : UdOK st acc'.1 := by
  unfold updDirsStep at h
  split at h
  · cases h; exact hu
  · simp only [udPop] at h
    split at h
    · cases h; exact hu.filter _
    · split at h
      · cases h
      · cases h; exact hu.filter _
      · split at h
        · cases h
        · split at h <;> cases h

theorem updateDirStep_inv (w : World) (o : Opts) (newMs : List Str) (s0 : St) (ws ws' : WSt) (sys rel : Str) (dev ino : Nat)
    (kids : List (Str × Node)) (keep : List Str) (hi : WInv s0 ws)
    (h : updateDirStep w o newMs ws sys rel dev ino kids = .ok (ws', keep)) : WInv s0 ws' := by
  unfold updateDirStep at h
  split at h
  · cases h
  · simp only at h
    split at h
    · cases h
    · split at h
      · cases h
      · rename_i stack0 _
        cases hd : foldE (updDirsStep w o ws.st rel) (ws.ud, []) ((kids.filter (·.2.isDirNode)).map (·.1)) with
        | error e => rw [hd] at h; cases h
        | ok r1 =>
          obtain ⟨ud1, keep1⟩ := r1
          rw [hd] at h
          simp only at h
          have hud1 : UdOK ws.st ud1 :=
            foldE_inv_mem (fun (a : UDict × List Str) => UdOK ws.st a.1) (updDirsStep w o ws.st rel) _
              (fun x a x' _ hx hs => updDirsStep_ud w o ws.st rel x x' a hx hs) (ws.ud, []) (ud1, keep1) hi.ud hd
          cases hf : foldE (updFilesStep w o newMs rel) (ws.st, ud1, stack0, []) ((kids.filter (!·.2.isDirNode)).map (·.1)) with
          | error e => rw [hf] at h; cases h
          | ok r2 =>
            obtain ⟨st2, ud2, stack2, news2⟩ := r2
            rw [hf] at h
            simp only at h
            have inv2 := foldE_inv_mem
              (fun (a : St × UDict × List (Str × Str) × List NewEntry) => Good s0 a.1 ∧ UdOK a.1 a.2.1 ∧ NewsOK a.2.2.2)
              (updFilesStep w o newMs rel) _
              (fun x a x' _ hx hs => updFilesStep_inv w o newMs rel s0 x x' a hx.1 hx.2.1 hx.2.2 hs)
              (ws.st, ud1, stack0, []) (st2, ud2, stack2, news2) ⟨hi.good, hud1, fun _ hx => by cases hx⟩ hf
            obtain ⟨g2, u2, n2⟩ := inv2
            -- the new Manifest, if any
            have hmk : ∀ st5 stack5 news5 ni dr,
                (if !(Prof.wantManifest o.profile rel ((kids.filter (·.2.isDirNode)).map (·.1)) ((kids.filter (!·.2.isDirNode)).map (·.1)) &&
                      (stack2.getLast?.map (·.2)) != some rel)
                 then (.ok (st2, stack2, news2, [], []) : Except Err (St × List (Str × Str) × List NewEntry × List Str × List Str))
                 else updNewManifest w o rel st2 stack2 news2) = .ok (st5, stack5, news5, ni, dr) →
                Good st2 st5 ∧ NewsOK news5 := by
              intro st5 stack5 news5 ni dr hh
              split at hh
              · cases hh; exact ⟨Good.refl _ g2.fresh, n2⟩
              · exact good_updNewManifest w o rel st2 st5 stack2 stack5 news2 news5 ni dr g2.fresh n2 hh
            split at h
            · cases h
            · rename_i st5 stack5 news5 newIgn dropped hmkeq
              obtain ⟨g5, n5⟩ := hmk st5 stack5 news5 newIgn dropped hmkeq
              have u5 : UdOK st5 (ud2.filter fun kv => !dropped.contains kv.1) := (u2.step g5).filter _
              split at h
              · cases h
                exact ⟨g2.trans g5, u5⟩
              · split at h
                · cases h
                · rename_i mpath mdir _
                  cases hp : foldE (updPlaceStep stack5 mpath mdir newIgn) st5 news5 with
                  | error e => rw [hp] at h; cases h
                  | ok st6 =>
                    rw [hp] at h
                    cases h
                    have g6 : Good st5 st6 :=
                      good_foldE_mem (fun (x : St) => x) (updPlaceStep stack5 mpath mdir newIgn) news5
                        (fun x a x' ha hx hs => good_updPlaceStep stack5 mpath mdir newIgn x x' a hx (n5 a ha) hs)
                        st5 st6 g5.fresh hp
                    have g7 := good_markUpdated st6 mpath g6.fresh
                    exact ⟨(g2.trans g5).trans (g6.trans g7), (u5.step g6).step g7⟩

/-- **the walk over any tree keeps the invariant** -/
theorem updWalk_inv (w : World) (o : Opts) (newMs : List Str) (s0 : St) (n : Node) :
    ∀ (ws ws' : WSt) (sys rel : Str), WInv s0 ws → updWalk w o newMs ws sys rel n = .ok ws' → WInv s0 ws' := by
  refine Node.rec
    (motive_1 := fun n => ∀ (ws ws' : WSt) (sys rel : Str), WInv s0 ws → updWalk w o newMs ws sys rel n = .ok ws' → WInv s0 ws')
    (motive_2 := fun kids => ∀ (ws ws' : WSt) (sys rel : Str) (keep : List Str), WInv s0 ws →
      updKids w o newMs ws sys rel keep kids = .ok ws' → WInv s0 ws')
    (motive_3 := fun p => ∀ (ws ws' : WSt) (sys rel : Str), WInv s0 ws → updWalk w o newMs ws sys rel p.2 = .ok ws' → WInv s0 ws')
    ?_ ?_ ?_ ?_ ?_ ?_ ?_ ?_ n
  · intro m ws ws' sys rel hi h; simp only [updWalk] at h; cases h; exact hi
  · intro dev ino kids ih ws ws' sys rel hi h
    simp only [updWalk] at h
    cases hv : updateDirStep w o newMs ws sys rel dev ino kids with
    | error e => simp [hv] at h
    | ok r =>
      obtain ⟨ws1, keep⟩ := r
      simp only [hv] at h
      exact ih ws1 ws' sys rel keep (updateDirStep_inv w o newMs s0 ws ws1 sys rel dev ino kids keep hi hv) h
  · intro d ws ws' sys rel hi h; simp only [updWalk] at h; cases h; exact hi
  · intro ws ws' sys rel hi h; simp only [updWalk] at h; cases h; exact hi
  · intro code asDir ws ws' sys rel hi h
    cases asDir
    · simp only [updWalk] at h; cases h; exact hi
    · simp only [updWalk] at h; cases h
  · intro ws ws' sys rel keep hi h; simp only [updKids] at h; cases h; exact hi
  · intro hd tl ihh iht ws ws' sys rel keep hi h
    obtain ⟨nm, ch⟩ := hd
    simp only [updKids] at h
    split at h
    · cases hw : updWalk w o newMs ws (pjoin sys nm) (relJoin rel nm) ch with
      | error e => simp [hw] at h
      | ok ws1 =>
        simp only [hw] at h
        exact iht ws1 ws' sys rel keep (ihh ws ws1 _ _ hi hw) h
    · exact iht ws ws' sys rel keep hi h
  · intro nm ch ih ws ws' sys rel hi h; exact ih ws ws' sys rel hi h

theorem updRemoveStep_inv (s0 : St) (ud : UDict) (st st' : St) (kv : Str × Str × Nat) (hkv : kv ∈ ud)
    (hi : Good s0 st ∧ UdOK st ud) (h : updRemoveStep st kv = .ok st') : Good s0 st' ∧ UdOK st' ud := by
  obtain ⟨full, mp', id⟩ := kv
  unfold updRemoveStep at h
  simp only at h
  obtain ⟨e0, he0, he0f⟩ := hi.2 _ hkv
  simp only at he0
  split at h
  · cases h
  · cases h; exact hi
  · rename_i fe hni hfe
    rw [he0] at hfe
    cases hfe
    split at h
    · cases h
    · rename_i r hr
      cases h
      have g1 := good_removeFirstEq st r mp' e0 hi.1.fresh he0f hr
      have g2 := good_markUpdated r mp' g1.fresh
      exact ⟨hi.1.trans (g1.trans g2), (hi.2.step g1).step g2⟩

theorem good_refreshChainStep (w : World) (cmpath om odir : Str) (st st' : St) (ie : IEntry) (hs : Fresh st)
    (h : refreshChainStep w cmpath om odir st ie = .ok st') : Good st st' := by
  unfold refreshChainStep at h
  split at h
  · rename_i p n c hv
    split at h
    · split at h
      · cases h
      · split at h
        · cases h
        · rename_i e' changed hre
          cases h
          by_cases hc : changed = true
          · simp only [hc, if_true]
            have hf' := refreshEntry_notForeign _ _ (.file .MANIFEST p n c) e' _ _ _ changed rfl hre
            have g1 := good_setVal st ie.1 e' hs (fun old ho => by rw [hv] at ho; cases ho; rfl) hf'
            exact g1.trans (good_markUpdated _ om g1.fresh)
          · simp only [hc, Bool.false_eq_true, if_false]
            exact Good.refl _ hs
    · cases h; exact Good.refl _ hs
  · cases h; exact Good.refl _ hs

theorem good_refreshChain (w : World) (path : Str) (s s' : St) (stack : List (Str × Str)) (hs : Fresh s)
    (h : refreshChain w path s stack = .ok s') : Good s s' := by
  unfold refreshChain at h
  refine good_foldE (fun (x : St) => x) _ ?_ stack s s' hs h
  intro x cm x' hx hstep
  split at hstep
  · cases hstep; exact Good.refl _ hx
  · refine good_foldE (fun (y : St) => y) _ ?_ (iterManifests x.plain cm.1 false) x x' hx hstep
    intro y kdv y' hy hstep2
    exact good_foldE (fun (z : St) => z) (refreshChainStep w cm.1 kdv.1 kdv.2.1)
      (fun z a z' hz hs3 => good_refreshChainStep w cm.1 kdv.1 kdv.2.1 z z' a hz hs3) (y.entriesOf kdv.1) y y' hy hstep2

/-- **the whole of `update_entries_for_directory`** -/
theorem good_updateDir (w : World) (s s' : St) (path : Str) (o : Opts) (hs : Fresh s) (h : updateDir w s path o = .ok s') :
    Good s s' := by
  unfold updateDir at h
  split at h
  · cases h
  · rename_i s1 newMs hlu
    have g1 := good_loadUnregistered w s s1 path newMs hs hlu
    split at h
    · cases h
    · rename_i s2 ud hdd
      obtain ⟨g2, u2⟩ := dedupDict_inv w s1 s2 path ud g1.fresh hdd
      split at h
      · cases h
      · split at h
        · cases h
        · cases h
        · rename_i stack0 _ _ _ rel d i ks _ _
          split at h
          · cases h
          · rename_i s3 hrc
            have g3 := good_refreshChain w path s2 s3 _ g2.fresh hrc
            split at h
            · cases h
            · rename_i ws hw
              have wi : WInv s3 ws := updWalk_inv w o newMs s3 _ _ ws _ _ ⟨Good.refl _ g3.fresh, u2.step g3⟩ hw
              have fin := foldE_inv_mem (fun (st : St) => Good s3 st ∧ UdOK st ws.ud) updRemoveStep ws.ud
                (fun x a x' ha hx hstep => updRemoveStep_inv s3 ws.ud x x' a ha hx hstep) ws.st s' ⟨wi.good, wi.ud⟩ h
              exact ((g1.trans g2).trans g3).trans fin.1
        · cases h
        · cases h
        · cases h

/-- the state a loader starts from allocates identities properly -/
theorem fresh_openForUpdate (w : World) (top : Str) (create : Bool) (prof : Prof.Profile) (xdev : Bool) (s : St)
    (h : openForUpdate w top create prof xdev = .ok s) : Fresh s := by
  have h0 : Fresh ({ top := top, loaded := [] } : St) := ⟨fun _ hx => (by cases hx), fun _ hx => (by cases hx)⟩
  have hsync : ∀ lm, Fresh (({ top := top, loaded := [] } : St).sync lm) := fun lm => (good_sync _ lm h0).fresh
  unfold openForUpdate at h
  cases hl : loadOne w top none with
  | ok es =>
    rw [hl] at h
    simp only at h
    cases ho : w.obj? top with
    | none => simp [ho] at h
    | some ob =>
      cases ob <;> simp [ho] at h
      subst h
      exact ⟨(hsync _).heap, (hsync _).lists⟩
  | error e =>
    rw [hl] at h
    by_cases he : e = .os .ENOENT
    · subst he
      simp only at h
      cases create
      · simp at h
      · simp only [Bool.not_true, Bool.false_eq_true, if_false] at h
        cases ho : w.obj? (dirname top) with
        | none => simp [ho] at h
        | some ob =>
          cases ob <;> simp [ho] at h
          subst h
          exact ⟨(hsync _).heap, (hsync _).lists⟩
    · cases e <;> simp_all

/-- **C10, over the whole algorithm.** For every tree, every loaded state in which identities are allocated
    properly (any state reached from `openForUpdate`), every directory and every option: after
    `update_entries_for_directory` the DIST and TIMESTAMP entries of every Manifest that was loaded are **the same
    entries in the same order** - whatever the update refreshed, added or removed, through the scan for unregistered
    Manifests, the de-duplication, the walk with its new Manifests and the removal pass. -/
theorem C10_update_keeps_dist_and_timestamp (w : World) (s s' : St) (path : Str) (o : Opts) (hs : Fresh s)
    (h : updateDir w s path o = .ok s') (k : Str) (hk : hasKey s k) : foreignOf s' k = foreignOf s k :=
  (good_updateDir w s s' path o hs h).foreign_kept k hk

/-- … and every loaded Manifest is still loaded -/
theorem C10_update_keeps_manifests (w : World) (s s' : St) (path : Str) (o : Opts) (hs : Fresh s)
    (h : updateDir w s path o = .ok s') (k : Str) (hk : hasKey s k) : hasKey s' k :=
  (good_updateDir w s s' path o hs h).keys k hk

/-- the same for the command as a whole, up to the save step: opening the loader and scanning -/
theorem C10_command_keeps_dist_and_timestamp (w : World) (top path : Str) (create : Bool) (prof : Prof.Profile) (xdev : Bool)
    (o : Opts) (s0 s1 : St) (ho : openForUpdate w top create prof xdev = .ok s0) (hu : updateDir w s0 path o = .ok s1)
    (k : Str) (hk : hasKey s0 k) : foreignOf s1 k = foreignOf s0 k :=
  C10_update_keeps_dist_and_timestamp w s0 s1 path o (fresh_openForUpdate w top create prof xdev s0 ho) hu k hk

/-! ## The single-path update (`ManifestRecursiveLoader.update_entry_for_path`) -/

/-- the invariant of the walk over the Manifests: a good state, and nothing foreign queued for removal -/
def PInv (s0 : St) (a : PSt) : Prop := Good s0 a.st ∧ ∀ x ∈ a.toRemove, isForeign x = false

theorem upEntryStep_inv (w : World) (path : Str) (hashes : Option (List Str)) (mp rel : Str) (s0 : St) (a a1 : PSt) (ie : IEntry)
    (hie : ie ∈ s0.entriesOf mp) (hi : PInv s0 a) (h : upEntryStep w path hashes mp rel a ie = .ok a1) : PInv s0 a1 := by
  unfold upEntryStep at h
  split at h
  · split at h
    · cases h
    · cases h; exact hi
  · cases h; exact hi
  · cases h; exact hi
  · rename_i fe hni hnt hnd
    have hff : isForeign ie.2 = false := by
      cases hfe : ie.2 with
      | timestamp t => exact absurd hfe (hnt t)
      | ignore q => exact absurd hfe (hni q)
      | file t q n c =>
        cases t with
        | DIST => exact absurd hfe (hnd q n c)
        | _ => rfl
    simp only at h
    split at h
    · cases h; exact hi
    · split at h
      · cases h
        exact ⟨hi.1, fun x hx => by
          rcases List.mem_append.mp hx with hx | hx
          · exact hi.2 x hx
          · have : x = ie.2 := by simpa using hx
            rw [this]; exact hff⟩
      · split at h
        · cases h
        · cases h
          exact ⟨hi.1, fun x hx => by
            rcases List.mem_append.mp hx with hx | hx
            · exact hi.2 x hx
            · have : x = ie.2 := by simpa using hx
              rw [this]; exact hff⟩
        · split at h
          · cases h
          · rename_i fe1 ch hre
            cases h
            have hf1 := refreshEntry_notForeign _ _ ie.2 fe1 _ _ _ ch hff hre
            obtain ⟨cur, hcur, hcf⟩ := hi.1.keepN ie.1 ie.2 (entriesOf_val s0 mp ie hie) hff
            have g1 := good_setVal a.st ie.1 fe1 hi.1.fresh (fun old ho => by rw [hcur] at ho; cases ho; exact hcf) hf1
            have g2 := good_markUpdated _ mp g1.fresh
            exact ⟨hi.1.trans (g1.trans g2), hi.2⟩

theorem upRemoveStep_good (mp : Str) (st st1 : St) (x : Entry) (hs : Fresh st) (hx : isForeign x = false)
    (h : upRemoveStep mp st x = .ok st1) : Good st st1 := by
  unfold upRemoveStep at h
  split at h
  · rename_i r hr
    cases h
    exact good_removeFirstEq st _ mp x hs hx hr
  · cases h

theorem upManifestStep_good (w : World) (path : Str) (hashes : Option (List Str)) (a a1 : PSt) (kdv : Str × Str × List Entry)
    (hs : Fresh a.st) (h : upManifestStep w path hashes a kdv = .ok a1) : Good a.st a1.st := by
  unfold upManifestStep at h
  split at h
  · cases h
  · rename_i b hb
    have hb' : PInv a.st b :=
      foldE_inv_mem (PInv a.st) (upEntryStep w path hashes kdv.1 kdv.2.1) (a.st.entriesOf kdv.1)
        (fun x ie x1 hie hx hstep => upEntryStep_inv w path hashes kdv.1 kdv.2.1 a.st x x1 ie hie hx hstep)
        { a with toRemove := [] } b ⟨Good.refl _ hs, fun x hx => by cases hx⟩ hb
    split at h
    · cases h; exact hb'.1
    · split at h
      · cases h
      · rename_i st1 hrm
        cases h
        have g2 : Good b.st st1 :=
          good_foldE_mem (fun (z : St) => z) (upRemoveStep kdv.1) b.toRemove
            (fun z x z1 hx hz hstep => upRemoveStep_good kdv.1 z z1 x hz (hb'.2 x hx) hstep) b.st st1 hb'.1.fresh hrm
        exact hb'.1.trans (g2.trans (good_markUpdated _ kdv.1 g2.fresh))

theorem good_upAddEntry (w : World) (st st1 : St) (path : Str) (t : FTag) (hs : List Str) (mp rel : Str) (hf : Fresh st)
    (h : upAddEntry w st path t hs mp rel = .ok st1) : Good st st1 := by
  unfold upAddEntry at h
  split at h
  · cases h
  · rename_i hnd
    split at h
    · cases h
    · split at h
      · cases h
      · split at h
        · cases h
        · rename_i fe1 ch hre
          cases h
          have hnd1 : t ≠ .DIST := by
            intro ht; simp [ht] at hnd
          have hf0 : ∀ q, isForeign (.file t q 0 []) = false := by
            intro q
            cases t <;> first | rfl | exact absurd rfl hnd1
          have hf1 := refreshEntry_notForeign _ _ _ fe1 _ _ _ ch (hf0 _) hre
          have g3 := good_append st mp fe1 hf hf1
          exact g3.trans (good_markUpdated _ mp g3.fresh)

/-- **the whole of the single-path update** -/
theorem good_updateEntryForPath (w : World) (s s1 : St) (path : Str) (t : FTag) (hashes : Option (List Str)) (hs : Fresh s)
    (h : updateEntryForPath w s path t hashes = .ok s1) : Good s s1 := by
  unfold updateEntryForPath at h
  split at h
  · cases h
  · rename_i sl hl
    have g1 := good_load w s sl path false true hs hl
    split at h
    · cases h
    · rename_i a ha
      have g2 : Good sl a.st :=
        good_foldE (fun (x : PSt) => x.st) (upManifestStep w path hashes)
          (fun x kdv x1 hx hstep => upManifestStep_good w path hashes x x1 kdv hx hstep) _ ({ st := sl } : PSt) a g1.fresh ha
      split at h
      · cases h; exact g1.trans g2
      · split at h
        · cases h
        · split at h
          · cases h; exact g1.trans g2
          · exact (g1.trans g2).trans (good_upAddEntry w _ _ path t _ _ _ g2.fresh h)

/-- **C10 for `update_entry_for_path`.** The single-path update keeps the DIST and TIMESTAMP entries of every loaded
    Manifest, in order, and keeps every Manifest loaded - whatever the path, the entry type asked for and the number
    of entries the path had (none, one, several, in one Manifest or across the chain). -/
theorem C10_path_update_keeps_dist_and_timestamp (w : World) (s s1 : St) (path : Str) (t : FTag) (hashes : Option (List Str))
    (hs : Fresh s) (h : updateEntryForPath w s path t hashes = .ok s1) (k : Str) (hk : hasKey s k) :
    foreignOf s1 k = foreignOf s k ∧ hasKey s1 k :=
  ⟨(good_updateEntryForPath w s s1 path t hashes hs h).foreign_kept k hk, (good_updateEntryForPath w s s1 path t hashes hs h).keys k hk⟩

/-! ## Non-vacuity -/

/-- a Manifest holding `DIST x`, `DATA x` (whose local file has vanished) and a TIMESTAMP: the update removes the
    DATA entry and keeps both foreign entries -/
example :
    let mtext : Str := [68,73,83,84,32,120,32,51,32,77,68,53,32,97,97,10,
                        68,65,84,65,32,120,32,49,10,
                        84,73,77,69,83,84,65,77,80,32,50,48,50,48,45,48,49,45,48,49,84,48,48,58,48,48,58,48,48,90,10]
    let w0 : World := ⟨.dir 1 1 [(Prof.sManifest, .file ⟨1, 56, 56, 0, [], some (.text mtext)⟩)]⟩
    (match openForUpdate w0 Prof.sManifest false .default with
     | .ok s => (match updateDir w0 s [] { hashes := [] } with
        | .ok s' => ((foreignOf s Prof.sManifest).length, (foreignOf s' Prof.sManifest).length, (s.entriesOf Prof.sManifest).length,
                     (s'.entriesOf Prof.sManifest).length) == (2, 2, 3, 2)
        | .error _ => false)
     | .error _ => false) = true := by
  decide +kernel

/-- the same Manifest with the `DATA x` line three times, file gone: the single-path update of `x` drops all three DATA
    entries and keeps both foreign ones -/
example :
    let mtext : Str := [68,73,83,84,32,120,32,51,32,77,68,53,32,97,97,10,
                        68,65,84,65,32,120,32,49,10, 68,65,84,65,32,120,32,49,10,
                        84,73,77,69,83,84,65,77,80,32,50,48,50,48,45,48,49,45,48,49,84,48,48,58,48,48,58,48,48,90,10,
                        68,65,84,65,32,120,32,49,10]
    let w0 : World := ⟨.dir 1 1 [(Prof.sManifest, .file ⟨1, 74, 74, 0, [], some (.text mtext)⟩)]⟩
    (match openForUpdate w0 Prof.sManifest false .default with
     | .ok s => (match updateEntryForPath w0 s [120] .DATA (some []) with
        | .ok s' => ((foreignOf s Prof.sManifest).length, (foreignOf s' Prof.sManifest).length, (s.entriesOf Prof.sManifest).length,
                     (s'.entriesOf Prof.sManifest).length) == (2, 2, 5, 2)
        | .error _ => false)
     | .error _ => false) = true := by
  decide +kernel

end Gemato.C10
