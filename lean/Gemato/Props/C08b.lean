import Gemato.Props.C08
/-
  C08, second half — the canonical fixed point: whatever the parser accepts is
  well-formed, so writing it yields text the parser accepts again with equal
  entries.
-/
namespace Gemato.C08
open Gemato.C09

theorem splitGo_fields (cur s : Str) (hcur : ∀ c ∈ cur, isSpace c = false) :
    ∀ f ∈ splitGo cur s, FieldOK f ∧ ∀ c ∈ f, c ∈ cur ∨ c ∈ s := by
  induction s generalizing cur with
  | nil =>
    intro f hf
    simp only [splitGo] at hf
    split at hf
    · simp at hf
    · rename_i hne
      simp at hf; subst hf
      exact ⟨⟨by intro e; subst e; simp at hne, hcur⟩, fun c hc => Or.inl hc⟩
  | cons c s ih =>
    intro f hf
    simp only [splitGo] at hf
    split at hf
    · split at hf
      · obtain ⟨h1, h2⟩ := ih [] (by simp) f hf
        exact ⟨h1, fun x hx => by rcases h2 x hx with h | h; simp at h; exact Or.inr (by simp [h])⟩
      · rename_i hne
        simp only [List.mem_cons] at hf
        rcases hf with hf | hf
        · subst hf
          exact ⟨⟨by intro e; subst e; simp at hne, hcur⟩, fun x hx => Or.inl hx⟩
        · obtain ⟨h1, h2⟩ := ih [] (by simp) f hf
          exact ⟨h1, fun x hx => by rcases h2 x hx with h | h; simp at h; exact Or.inr (by simp [h])⟩
    · rename_i hsp
      obtain ⟨h1, h2⟩ := ih (cur ++ [c]) (by
        intro x hx; simp at hx; rcases hx with hx | hx
        · exact hcur x hx
        · subst hx; simpa using hsp) f hf
      refine ⟨h1, fun x hx => ?_⟩
      rcases h2 x hx with h | h
      · simp at h; rcases h with h | h
        · exact Or.inl h
        · exact Or.inr (by simp [h])
      · exact Or.inr (by simp [h])

theorem splitWs_fields (s : Str) : ∀ f ∈ splitWs s, FieldOK f ∧ ∀ c ∈ f, c ∈ s := by
  intro f hf
  obtain ⟨h1, h2⟩ := splitGo_fields [] s (by simp) f hf
  exact ⟨h1, fun c hc => by rcases h2 c hc with h | h; simp at h; exact h⟩

theorem map_cons_ok {c : Nat} {r : Except DecErr Str} {q : Str} (h : r.map (c :: ·) = .ok q) :
    ∃ r', r = .ok r' ∧ q = c :: r' := by
  cases r with
  | error e => simp [Except.map] at h
  | ok r' => simp [Except.map] at h; exact ⟨r', rfl, h.symm⟩

theorem decodePath_props_aux (n : Nat) : ∀ p : Str, p.length ≤ n → ∀ q, decodePath p = .ok q →
    (p ≠ [] → q ≠ []) ∧ ((∀ c ∈ p, c < 0x110000) → ∀ c ∈ q, c < 0x110000) := by
  induction n with
  | zero =>
    intro p hp q h
    have : p = [] := by cases p with | nil => rfl | cons _ _ => simp at hp
    subst this
    rw [decodePath.eq_def] at h; simp at h; subst h; simp
  | succ n ih =>
    intro p hp q h
    rw [decodePath.eq_def] at h
    cases p with
    | nil => simp at h; subst h; simp
    | cons c rest =>
      simp only at h
      split at h
      · obtain ⟨r', hr, rfl⟩ := map_cons_ok h
        have hrest := ih rest (by simp at hp; omega) r' hr
        refine ⟨fun _ => by simp, fun hcp x hx => ?_⟩
        simp at hx
        rcases hx with hx | hx
        · subst hx; exact hcp x (by simp)
        · exact hrest.2 (fun y hy => hcp y (by simp [hy])) x hx
      · split at h
        · cases h
        · rename_i m tl
          split at h
          · cases h
          · rename_i w hw
            split at h
            · cases h
            · split at h
              · cases h
              · rename_i v hv
                split at h
                · rename_i hvlt
                  obtain ⟨r', hr, rfl⟩ := map_cons_ok h
                  have hrest := ih (tl.drop w) (by simp at hp ⊢; omega) r' hr
                  refine ⟨fun _ => by simp, fun hcp x hx => ?_⟩
                  simp at hx
                  rcases hx with hx | hx
                  · subst hx; exact hvlt
                  · exact hrest.2 (fun y hy => hcp y (by
                      have := List.mem_of_mem_drop hy; simp [this])) x hx
                · cases h

theorem decodePath_props (p : Str) : ∀ q, decodePath p = .ok q →
    (p ≠ [] → q ≠ []) ∧ ((∀ c ∈ p, c < 0x110000) → ∀ c ∈ q, c < 0x110000) :=
  decodePath_props_aux p.length p (Nat.le_refl _)

theorem processPath_wf (fs : List Str) (p : Str) (hfs : ∀ f ∈ fs, ∀ c ∈ f, c < 0x110000)
    (h : processPath fs = .ok p) : PathOK p := by
  unfold processPath at h
  split at h
  · rename_i tag f
    split at h
    · cases h
    · rename_i hne
      simp only [Bool.or_eq_true, not_or, Bool.not_eq_true] at hne
      split at h
      · cases h
      · rename_i q hq
        split at h
        · cases h
        · rename_i habs
          cases h
          have hp := decodePath_props f p hq
          refine ⟨hp.1 (by intro e; subst e; simp at hne), by simpa using habs, hp.2 (hfs f (by simp))⟩
  · cases h

theorem toDec_length_le (n k : Nat) (hk : 1 ≤ k) (h : n < 10 ^ k) : (toDec n).length ≤ k := by
  induction k generalizing n with
  | zero => omega
  | succ k ih =>
    rw [toDec]
    split
    · simp
    · rename_i h10
      simp only [List.length_append, List.length_singleton]
      by_cases hk0 : k = 0
      · subst hk0; simp at h; omega
      · have : n / 10 < 10 ^ k := by
          rw [Nat.pow_succ] at h; exact Nat.div_lt_of_lt_mul (by omega)
        have := ih (n / 10) (by omega) this
        omega

theorem digitsVal_go_lt (acc : Nat) (ds : Str) (h : ∀ d ∈ ds, isDigit d = true) :
    ds.foldl (fun a d => a * 10 + (d - 48)) acc + 1 ≤ (acc + 1) * 10 ^ ds.length := by
  induction ds generalizing acc with
  | nil => simp
  | cons d ds ih =>
    have hd := h d (by simp)
    simp [isDigit] at hd
    simp only [List.foldl_cons, List.length_cons]
    calc ds.foldl (fun a d => a * 10 + (d - 48)) (acc * 10 + (d - 48)) + 1
        ≤ (acc * 10 + (d - 48) + 1) * 10 ^ ds.length := ih _ (fun x hx => h x (by simp [hx]))
      _ ≤ ((acc + 1) * 10) * 10 ^ ds.length := Nat.mul_le_mul_right _ (by omega)
      _ = (acc + 1) * 10 ^ (ds.length + 1) := by rw [Nat.pow_succ, Nat.mul_assoc, Nat.mul_comm 10]

theorem digitsVal_lt (ds : Str) (h : ∀ d ∈ ds, isDigit d = true) : digitsVal ds < 10 ^ ds.length := by
  have := digitsVal_go_lt 0 ds h
  simp only [digitsVal]
  omega

theorem intBodyGo_digits_of (b : Bool) (s ds : Str) (h : intBodyGo b s = some ds) : ∀ d ∈ ds, isDigit d = true := by
  induction s generalizing b ds with
  | nil => simp only [intBodyGo] at h; split at h <;> simp at h; subst h; simp
  | cons c s ih =>
    simp only [intBodyGo] at h
    split at h
    · rename_i hc
      cases hr : intBodyGo true s with
      | none => simp [hr] at h
      | some r =>
        simp [hr] at h; subst h
        intro d hd; simp at hd
        rcases hd with hd | hd
        · subst hd; exact hc
        · exact ih true r hr d hd
    · split at h
      · exact ih false ds h
      · cases h

theorem size_printable (ds : Str) (hd : ∀ d ∈ ds, isDigit d = true) (hl : ¬ ds.length > maxStrDigits) :
    (toDec (digitsVal ds)).length ≤ maxStrDigits := by
  by_cases he : ds = []
  · subst he; simp [digitsVal, toDec, maxStrDigits]
  · have h1 : 1 ≤ ds.length := by cases ds with | nil => exact absurd rfl he | cons _ _ => simp
    have := toDec_length_le (digitsVal ds) ds.length h1 (digitsVal_lt ds hd)
    omega

theorem parseSize_wf (f : Str) (n : Nat) (h : parseSize? f = some n) : (toDec n).length ≤ maxStrDigits := by
  unfold parseSize? at h
  split at h
  · cases hb : intBody? ‹Str› with
    | none => simp [hb] at h
    | some ds =>
      simp only [hb, Option.bind_some] at h
      split at h
      · cases h
      · cases h; exact size_printable ds (intBodyGo_digits_of _ _ _ hb) ‹_›
  · cases hb : intBody? ‹Str› with
    | none => simp [hb] at h
    | some ds =>
      simp only [hb, Option.bind_some] at h
      split at h
      · cases h
      · split at h
        · cases h; simp [toDec, maxStrDigits]
        · cases h
  · cases hb : intBody? f with
    | none => simp [hb] at h
    | some ds =>
      simp only [hb, Option.bind_some] at h
      split at h
      · cases h
      · cases h; exact size_printable ds (intBodyGo_digits_of _ _ _ hb) ‹_›

theorem parseTs_valid (f : Str) (t : Ts) (h : parseTs? f = some t) : t.valid = true := by
  unfold parseTs? at h
  repeat' split at h
  all_goals first | (cases h; assumption) | (cases h)

theorem processChecksums_ok (fs : List Str) (n : Nat) (cks : List (Str × Str))
    (h : processChecksums fs = .ok (n, cks)) :
    ∃ a b sz rest, fs = a :: b :: sz :: rest ∧ parseSize? sz = some n ∧ parseCks? rest [] = some cks := by
  unfold processChecksums at h
  split at h
  · rename_i a b sz rest
    cases hs : parseSize? sz with
    | none => simp [hs] at h
    | some n' =>
      cases hc : parseCks? rest [] with
      | none => simp [hs, hc] at h
      | some cks' =>
        simp only [hs, hc, Except.ok.injEq, Prod.mk.injEq] at h
        obtain ⟨rfl, rfl⟩ := h
        exact ⟨a, b, sz, rest, rfl, hs, hc⟩
  · cases h

theorem fileFromList_ok (t : FTag) (fs : List Str) (e : Entry) (h : fileFromList t fs = .ok e) :
    ∃ p n cks, e = .file t p n cks ∧ processPath (fs.take 2) = .ok p ∧ ¬ (t = .DIST ∧ 47 ∈ p) ∧
      processChecksums fs = .ok (n, cks) := by
  unfold fileFromList at h
  cases hp : processPath (fs.take 2) with
  | error e' => simp [hp] at h
  | ok p =>
    simp only [hp] at h
    by_cases hd : t = .DIST ∧ 47 ∈ p
    · simp [hd] at h
    · simp only [hd, if_false] at h
      cases hc : processChecksums fs with
      | error e' => simp [hc] at h
      | ok v =>
        obtain ⟨n, cks⟩ := v
        simp only [hc, Except.ok.injEq] at h
        exact ⟨p, n, cks, h.symm, rfl, hd, rfl⟩

/-- what `from_list` returns is well-formed, for any list of proper fields -/
theorem entryFromList_wf (fs : List Str) (e : Entry)
    (hfs : ∀ f ∈ fs, FieldOK f ∧ ∀ c ∈ f, c < 0x110000) (h : entryFromList fs = .ok e) : WF e := by
  unfold entryFromList at h
  split at h
  · cases h
  · split at h
    · cases h
    · unfold timestampFromList at h
      split at h
      · split at h
        · cases h; exact parseTs_valid _ _ ‹_›
        · cases h
      · cases h
    · unfold ignoreFromList at h
      split at h
      · cases h
      · cases h
        exact processPath_wf _ _ (fun f hf => (hfs f hf).2) ‹_›
    · obtain ⟨p, n, cks, rfl, hp, hdist, hc⟩ := fileFromList_ok _ _ _ h
      obtain ⟨a, b, sz, rest, hfs', hn, hck⟩ := processChecksums_ok _ _ _ hc
      have hpok : PathOK p := processPath_wf _ _
        (fun f hf => (hfs f (List.mem_of_mem_take hf)).2) hp
      refine ⟨hpok, fun ht h47 => hdist ⟨ht, h47⟩, parseSize_wf sz n hn,
        parseCks_sorted rest [] cks (by simp [CksSorted]) hck, ?_⟩
      intro kv hkv
      rcases parseCks_mem rest [] cks hck kv hkv with hm | ⟨h1, h2⟩
      · simp at hm
      · rw [hfs'] at hfs
        exact ⟨(hfs kv.1 (by simp [h1])).1, (hfs kv.2 (by simp [h2])).1⟩

theorem lineEntry_wf (l : Str) (e : Entry) (hl : ∀ c ∈ l, c < 0x110000) (h : lineEntry l = .ok (some e)) : WF e := by
  unfold lineEntry at h
  split at h
  · cases h
  · split at h
    · cases h
    · split at h
      · rename_i e' he
        cases h
        exact entryFromList_wf _ _ (fun f hf =>
          ⟨(splitWs_fields l f hf).1, fun c hc => hl c ((splitWs_fields l f hf).2 c hc)⟩) he
      · cases h

theorem linesEntries_wf (ls : List Str) (es : List Entry) (hl : ∀ l ∈ ls, ∀ c ∈ l, c < 0x110000)
    (h : linesEntries ls = .ok es) : ∀ e ∈ es, WF e := by
  induction ls generalizing es with
  | nil => simp [linesEntries] at h; subst h; simp
  | cons l ls ih =>
    simp only [linesEntries] at h
    split at h
    · cases h
    · rename_i o ho
      split at h
      · cases h
      · rename_i es' hes
        cases h
        intro e he
        simp only [List.mem_append, Option.mem_toList] at he
        rcases he with he | he
        · cases o with
          | none => simp at he
          | some e' => simp at he; subst he; exact lineEntry_wf l _ (hl l (by simp)) ho
        · exact ih es' (fun x hx => hl x (by simp [hx])) hes e he

-- once the signed-message header has been taken the machine never returns to DATA
theorem loadCommon_st (s s' : LoadSt) (l : Str) (h : loadCommon s l = .ok s') : s'.st = s.st := by
  unfold loadCommon at h
  repeat' split at h
  all_goals first | (cases h; rfl) | (cases h)

theorem loadStep_not_data (s s' : LoadSt) (l : Str) (hs : s.st ≠ .data) (h : loadStep s l = .ok s') :
    s'.st ≠ .data := by
  unfold loadStep at h
  split at h
  · rename_i hd; exact absurd hd hs
  all_goals
    repeat' split at h
    all_goals first
      | (cases h; done)
      | (cases h; simp; done)
      | (cases h; simp_all; done)
      | (have := loadCommon_st _ _ _ h; simp_all)

theorem loadLines_not_data (s s' : LoadSt) (ls : List Str) (hs : s.st ≠ .data) (h : loadLines s ls = .ok s') :
    s'.st ≠ .data := by
  induction ls generalizing s with
  | nil => simp [loadLines] at h; subst h; exact hs
  | cons l ls ih =>
    simp only [loadLines] at h
    split at h
    · exact ih _ (loadStep_not_data _ _ _ hs ‹_›) h
    · cases h

theorem unsigned_no_header (acc : List Entry) (ls : List Str) (s' : LoadSt)
    (h : loadLines ⟨.data, acc, []⟩ ls = .ok s') (hs : s'.st = .data) : ∀ l ∈ ls, l ≠ lnBeginMsg := by
  induction ls generalizing acc with
  | nil => simp
  | cons l ls ih =>
    simp only [loadLines] at h
    split at h
    · rename_i s1 h1
      intro x hx
      simp only [List.mem_cons] at hx
      by_cases hl : l = lnBeginMsg
      · exfalso
        simp only [loadStep, hl, if_true] at h1
        split at h1
        · cases h1
        · cases h1
          exact loadLines_not_data _ _ _ (by simp) h hs
      · rcases hx with hx | hx
        · subst hx; exact hl
        · simp only [loadStep, hl, if_false] at h1
          have hst := loadCommon_st _ _ _ h1
          have : s1 = ⟨.data, s1.entries, s1.pgpData⟩ := by
            cases s1; simp_all
          have hpd : s1.pgpData = [] := by
            unfold loadCommon at h1
            repeat' split at h1
            all_goals first | (cases h1; rfl) | (cases h1)
          rw [this, hpd] at h
          exact ih s1.entries h x hx
    · cases h

/-- **C08 (canonical fixed point).** For every text of code points that the
    parser accepts as an unsigned Manifest: the entries are well-formed, and
    writing them yields text the parser accepts again with equal entries. -/
theorem C08_fixed_point (ls : List Str) (es : List Entry) (hcp : ∀ l ∈ ls, ∀ c ∈ l, c < 0x110000)
    (h : loadFromLines ls = .ok ⟨es, none⟩) :
    (∀ e ∈ es, WF e) ∧ loadText (dumpEntries false es) = .ok ⟨es, none⟩ ∧
      loadFile (dumpEntries false es) = .ok ⟨es, none⟩ := by
  have hnb : ∀ l ∈ ls, l ≠ lnBeginMsg := by
    unfold loadFromLines at h
    split at h
    · cases h
    · rename_i s hs
      split at h
      all_goals first | (cases h) | skip
      rename_i hst
      exact unsigned_no_header [] ls s hs hst
  rw [C09_line_homomorphism ls hnb] at h
  split at h
  · cases h
  · rename_i es' hes
    cases h
    have hwf := linesEntries_wf ls es hcp hes
    exact ⟨hwf, C08_load_dump es hwf⟩

-- non-vacuity: a concrete hostile entry list meets `WF` ------------------------------
example : WF (.file .DATA [97, 32, 92, 0x3000, 0xD800, 0x10FFFF] (2 ^ 64) [([77, 68, 53], [97, 98])]) := by
  refine ⟨⟨by simp, by decide, by intro c hc; simp at hc; omega⟩, by simp, ?_, by simp [CksSorted], ?_⟩
  · have : (toDec (2 ^ 64)).length ≤ 20 := toDec_length_le _ 20 (by omega) (by decide)
    simp [maxStrDigits] at *; omega
  · intro kv hkv; simp at hkv; subst hkv
    exact ⟨⟨by simp, by decide⟩, ⟨by simp, by decide⟩⟩

end Gemato.C08
