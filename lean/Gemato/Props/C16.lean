import Gemato.Model.GraphWalk
/-
  C16 — Tree walks always terminate and respect file-system boundaries.
  `Gr.walk` is defined by well-founded recursion on
  (number of directory identities + 1 − length of the duplicate-free ancestor list):
  that Lean's kernel accepts the definition *is* the termination theorem, for
  every finite directory graph, cyclic or not. The theorems below add the
  depth bound, loop detection, following of other links, and one-file-system mode.
-/
namespace Gemato.C16
open Gemato.Gr

def devBad (g : G) (xdev : Option Nat) (v : Nat) : Bool :=
  match xdev with | some d => g.dev v != d | none => false

theorem walk_unfold (g : G) (xdev : Option Nat) (a : Anc g) (v : Nat) (hv : v < g.n) (p : List Str) :
    walk g xdev a v hv p =
      if devBad g xdev v then .error (.crossDevice p)
      else if hm : v ∈ a.ids then .error (.loop p)
      else match walkKids g xdev (a.push v hv hm) (g.kids v) (fun q hq => g.closed v q hq) p with
        | .error e => .error e
        | .ok sub => .ok ((p, v) :: sub) := by
  rw [walk.eq_def]; rfl

/-- **a link back to an ancestor raises the loop error** (on the expected device) -/
theorem C16_loop_raises (g : G) (xdev : Option Nat) (a : Anc g) (v : Nat) (hv : v < g.n) (p : List Str)
    (hd : devBad g xdev v = false) (hm : v ∈ a.ids) : walk g xdev a v hv p = .error (.loop p) := by
  rw [walk_unfold]; simp [hd, hm]

/-- **one-file-system mode**: a directory on another device raises the cross-device error -/
theorem C16_cross_device_raises (g : G) (d : Nat) (a : Anc g) (v : Nat) (hv : v < g.n) (p : List Str)
    (hd : g.dev v ≠ d) : walk g (some d) a v hv p = .error (.crossDevice p) := by
  rw [walk_unfold]; simp [devBad, hd]

/-- what every successfully visited (path, directory) satisfies -/
def Good (g : G) (xdev : Option Nat) (a : Anc g) (p : List Str) (q : List Str × Nat) : Prop :=
  q.1.length + a.ids.length + 1 ≤ p.length + g.n ∧ (∀ d, xdev = some d → g.dev q.2 = d)

theorem kids_inv (g : G) (xdev : Option Nat) (a : Anc g) (p : List Str)
    (ihw : ∀ (c : Nat) (hc : c < g.n) (nm : Str) (vs : List (List Str × Nat)),
        walk g xdev a c hc (p ++ [nm]) = .ok vs → ∀ q ∈ vs, Good g xdev a (p ++ [nm]) q) :
    ∀ (ks : List (Str × Nat)) (hk : ∀ q ∈ ks, q.2 < g.n) (vs : List (List Str × Nat)),
      walkKids g xdev a ks hk p = .ok vs →
      ∀ q ∈ vs, q.1.length + a.ids.length ≤ p.length + g.n ∧ (∀ d, xdev = some d → g.dev q.2 = d)
  | [], _, vs, h => by rw [walkKids.eq_def] at h; cases h; simp
  | (nm, c) :: rest, hk, vs, h => by
    rw [walkKids.eq_def] at h; simp only at h
    cases h1 : walk g xdev a c (hk (nm, c) (by simp)) (p ++ [nm]) with
    | error e => simp [h1] at h
    | ok r1 =>
      simp only [h1] at h
      cases h2 : walkKids g xdev a rest (fun q hq => hk q (by simp [hq])) p with
      | error e => simp [h2] at h
      | ok r2 =>
        simp only [h2, Except.ok.injEq] at h
        subst h
        intro q hq
        simp at hq
        rcases hq with hq | hq
        · have := ihw c _ nm r1 h1 q hq
          exact ⟨by have := this.1; simp at this; omega, this.2⟩
        · exact kids_inv g xdev a p ihw rest _ r2 h2 q hq

theorem walk_inv (g : G) (xdev : Option Nat) : ∀ (m : Nat) (a : Anc g) (v : Nat) (hv : v < g.n) (p : List Str)
    (vs : List (List Str × Nat)), g.n + 1 - a.ids.length ≤ m → walk g xdev a v hv p = .ok vs →
    ∀ q ∈ vs, Good g xdev a p q := by
  intro m
  induction m with
  | zero =>
    intro a v hv p vs hm h
    have := a.length_le
    omega
  | succ m ih =>
    intro a v hv p vs hm h
    rw [walk_unfold] at h
    by_cases hd : devBad g xdev v = true
    · simp [hd] at h
    · simp only [hd, Bool.false_eq_true, if_false] at h
      by_cases hmem : v ∈ a.ids
      · simp [hmem] at h
      · simp only [hmem, dite_false] at h
        cases hk : walkKids g xdev (a.push v hv hmem) (g.kids v) (fun q hq => g.closed v q hq) p with
        | error e => simp [hk] at h
        | ok sub =>
          simp only [hk, Except.ok.injEq] at h
          subst h
          have hlen : (a.push v hv hmem).ids.length = a.ids.length + 1 := by simp [Anc.push]
          have hle := (a.push v hv hmem).length_le
          intro q hq
          simp at hq
          rcases hq with rfl | hq
          · refine ⟨by simp; omega, ?_⟩
            intro d hx
            subst hx
            simpa [devBad] using hd
          · have := kids_inv g xdev (a.push v hv hmem) p
              (fun c hc nm vs' hw => ih (a.push v hv hmem) c hc (p ++ [nm]) vs' (by omega) hw)
              (g.kids v) _ sub hk q hq
            exact ⟨by have := this.1; omega, this.2⟩

/-- **depth bound and one-file-system mode.** Every directory a successful walk
    visits lies at a depth below the number of distinct directories, and — with
    a device set — is on that device. -/
theorem C16_depth_and_device (g : G) (xdev : Option Nat) (v0 : Nat) (hv : v0 < g.n) (vs : List (List Str × Nat))
    (h : walkTop g xdev v0 hv = .ok vs) :
    ∀ q ∈ vs, q.1.length + 1 ≤ g.n ∧ (∀ d, xdev = some d → g.dev q.2 = d) := by
  intro q hq
  have := walk_inv g xdev (g.n + 1) (Anc.empty g) v0 hv [] vs (by simp [Anc.empty]) h q hq
  exact ⟨by have := this.1; simp [Anc.empty] at this; omega, this.2⟩

/-- **other links are followed**: a sub-directory (real or symlinked) that is not
    one of the ancestors is visited like any other -/
theorem C16_other_links_followed (g : G) (xdev : Option Nat) (a : Anc g) (nm : Str) (c : Nat)
    (rest : List (Str × Nat)) (hk : ∀ q ∈ (nm, c) :: rest, q.2 < g.n) (p : List Str) (vs : List (List Str × Nat))
    (h : walkKids g xdev a ((nm, c) :: rest) hk p = .ok vs) : (p ++ [nm], c) ∈ vs := by
  rw [walkKids.eq_def] at h; simp only at h
  cases h1 : walk g xdev a c (hk (nm, c) (by simp)) (p ++ [nm]) with
  | error e => simp [h1] at h
  | ok r1 =>
    simp only [h1] at h
    cases h2 : walkKids g xdev a rest (fun q hq => hk q (by simp [hq])) p with
    | error e => simp [h2] at h
    | ok r2 =>
      simp only [h2, Except.ok.injEq] at h
      subst h
      rw [walk_unfold] at h1
      by_cases hd : devBad g xdev c = true
      · simp [hd] at h1
      · simp only [hd, Bool.false_eq_true, if_false] at h1
        by_cases hmem : c ∈ a.ids
        · simp [hmem] at h1
        · simp only [hmem, dite_false] at h1
          split at h1
          · cases h1
          · cases h1; simp

/-- a loop below the first sub-directory is reported whatever follows it -/
theorem C16_loop_in_first_kid (g : G) (xdev : Option Nat) (a : Anc g) (nm : Str) (c : Nat)
    (rest : List (Str × Nat)) (hk : ∀ q ∈ (nm, c) :: rest, q.2 < g.n) (p : List Str)
    (hd : devBad g xdev c = false) (hm : c ∈ a.ids) :
    walkKids g xdev a ((nm, c) :: rest) hk p = .error (.loop (p ++ [nm])) := by
  rw [walkKids.eq_def]; simp only; rw [C16_loop_raises g xdev a c _ _ hd hm]

-- non-vacuity: a cyclic graph (0 -> a:1, b:2; 1 -> up:0) and an acyclic one with a link to a sibling
def ex1 : G := ⟨3, fun v => if v = 0 then [([97], 1), ([98], 2)] else if v = 1 then [([117], 0)] else [],
  by intro v p hp; split at hp <;> (try split at hp) <;> simp at hp <;> (try rcases hp with h | h) <;> simp_all,
  fun _ => 1⟩
def ex2 : G := ⟨3, fun v => if v = 0 then [([97], 1), ([98], 2)] else if v = 1 then [([115], 2)] else [],
  by intro v p hp; split at hp <;> (try split at hp) <;> simp at hp <;> (try rcases hp with h | h) <;> simp_all,
  fun _ => 1⟩

end Gemato.C16
