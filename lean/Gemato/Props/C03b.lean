import Gemato.Props.C03
/-
  C03 / C13 — the order in which `save_manifests` writes the loaded Manifests (`saveOrder`, the model of the sort
  by directory depth followed by the recursive `queue_manifest` pass, gemato/recursiveloader.py).

  For every set of loaded Manifests whose same-directory references are acyclic (a rank function decreasing along
  them), in whatever order they were loaded:
    * `saveOrder_nodup`     no Manifest is written twice,
    * `saveOrder_complete`  none is skipped,
    * `saveOrder_subset`    nothing else is written,
    * `saveOrder_refs_first` a Manifest referenced by a Manifest of its own directory comes BEFORE its referrer
      (so the referrer's MANIFEST entry is refreshed from the file as rewritten, and follows a rename) - the
      statement whose failure were findings F16, F29 and F30,
  and with `C03_save_children_first` deeper directories come before shallower ones.
-/
namespace Gemato.C03
open Gemato.L1 Gemato.U

abbrev X := Str × Str × List Entry

def paths (l : List X) : List Str := l.map (·.1)

/-- the loaded Manifests of `x`'s own directory that `x` references -/
def refsIn (all : List X) (x : X) : List X := (sameDirRefsOf x).filterMap fun r => all.find? (·.1 == r)

/-- every element comes after the Manifests of its own directory that it references -/
def RefsBefore (all out : List X) : Prop :=
  ∀ pre x post, out = pre ++ x :: post → ∀ y ∈ refsIn all x, y.1 ∈ paths pre

/-- how many Manifests are not queued yet -/
def unseen (all : List X) (seen : List Str) : Nat := ((paths all).filter fun p => !seen.contains p).length

structure QI (all : List X) (stack : List Str) (acc : QAcc) : Prop where
  a : ∀ p ∈ paths acc.1, p ∈ acc.2
  b : ∀ p ∈ acc.2, p ∈ paths acc.1 ∨ p ∈ stack
  c : (paths acc.1).Nodup
  d : RefsBefore all acc.1
  e : ∀ p ∈ stack, p ∉ paths acc.1
  f : ∀ p ∈ stack, p ∈ acc.2
  g : ∀ z ∈ acc.1, z ∈ all

structure QPost (all : List X) (stack : List Str) (acc acc1 : QAcc) (x : X) : Prop where
  inv : QI all stack acc1
  ext : ∃ t, acc1.1 = acc.1 ++ t
  mono : ∀ p ∈ acc.2, p ∈ acc1.2
  done : x.1 ∈ paths acc1.1 ∨ x.1 ∈ stack

/-! ## counting -/

theorem unseen_le (all : List X) (seen : List Str) : unseen all seen ≤ all.length := by
  unfold unseen paths
  exact Nat.le_trans (List.length_filter_le _ _) (by simp)

theorem filter_len_mono {α : Type} (l : List α) (p q : α → Bool) (h : ∀ a ∈ l, p a = true → q a = true) :
    (l.filter p).length ≤ (l.filter q).length := by
  induction l with
  | nil => simp
  | cons a as ih =>
    have ih1 := ih (fun b hb => h b (by simp [hb]))
    by_cases hp : p a = true
    · have hq := h a (by simp) hp
      rw [List.filter_cons_of_pos hp, List.filter_cons_of_pos hq]
      simp only [List.length_cons]; omega
    · rw [List.filter_cons_of_neg hp]
      by_cases hq : q a = true
      · rw [List.filter_cons_of_pos hq]; simp only [List.length_cons]; omega
      · rw [List.filter_cons_of_neg hq]; exact ih1

theorem unseen_mono (all : List X) (s1 s2 : List Str) (h : ∀ p ∈ s1, p ∈ s2) : unseen all s2 ≤ unseen all s1 := by
  unfold unseen
  apply filter_len_mono
  intro a _ ha
  simp only [Bool.not_eq_true', List.contains_eq_mem, decide_eq_false_iff_not] at ha ⊢
  exact fun hc => ha (h a hc)

theorem filter_len_lt {α : Type} (l : List α) (p q : α → Bool) (h : ∀ a ∈ l, p a = true → q a = true)
    (x : α) (hx : x ∈ l) (hq : q x = true) (hp : p x = false) : (l.filter p).length < (l.filter q).length := by
  induction l with
  | nil => cases hx
  | cons a as ih =>
    have hmono := filter_len_mono as p q (fun b hb => h b (by simp [hb]))
    rcases List.mem_cons.mp hx with rfl | hx1
    · have hp1 : ¬ (p x = true) := by simp [hp]
      rw [List.filter_cons_of_neg hp1, List.filter_cons_of_pos hq]
      simp only [List.length_cons]; omega
    · have ih1 := ih (fun b hb => h b (by simp [hb])) hx1
      by_cases hpa : p a = true
      · have hqa := h a (by simp) hpa
        rw [List.filter_cons_of_pos hpa, List.filter_cons_of_pos hqa]
        simp only [List.length_cons]; omega
      · rw [List.filter_cons_of_neg hpa]
        by_cases hqa : q a = true
        · rw [List.filter_cons_of_pos hqa]; simp only [List.length_cons]; omega
        · rw [List.filter_cons_of_neg hqa]; exact ih1

theorem unseen_cons_lt (all : List X) (seen : List Str) (x : X) (hx : x ∈ all) (hns : seen.contains x.1 = false) :
    unseen all (x.1 :: seen) < unseen all seen := by
  unfold unseen
  have hnm : x.1 ∉ seen := by simpa using hns
  apply filter_len_lt (paths all) _ _ _ x.1 (List.mem_map.mpr ⟨x, hx, rfl⟩)
  · simp [hnm]
  · simp
  · intro a _ ha
    simp only [Bool.not_eq_true', List.contains_eq_mem, decide_eq_false_iff_not, List.mem_cons, not_or] at ha ⊢
    exact ha.2

theorem unseen_zero (all : List X) (seen : List Str) (h : unseen all seen = 0) (x : X) (hx : x ∈ all) : x.1 ∈ seen := by
  unfold unseen at h
  have h0 := List.length_eq_zero_iff.mp h
  have hm : x.1 ∈ paths all := List.mem_map.mpr ⟨x, hx, rfl⟩
  by_cases hc : x.1 ∈ seen
  · exact hc
  · have : x.1 ∈ (paths all).filter fun p => !seen.contains p := by
      simp [List.mem_filter, hm, hc]
    rw [h0] at this; cases this

/-! ## `RefsBefore` under appending -/

theorem refsBefore_snoc (all out : List X) (x : X) (h : RefsBefore all out) (hx : ∀ y ∈ refsIn all x, y.1 ∈ paths out) :
    RefsBefore all (out ++ [x]) := by
  intro pre z post heq y hy
  rcases List.eq_nil_or_concat post with hp | ⟨post1, w, hp⟩
  · subst hp
    have h1 : out ++ [x] = pre ++ [z] := heq
    have := List.append_inj' h1 rfl
    obtain ⟨e1, e2⟩ := this
    have : x = z := by simpa using e2
    subst this; subst e1
    exact hx y hy
  · subst hp
    have h1 : out ++ [x] = (pre ++ z :: post1) ++ [w] := by
      rw [heq]; simp
    have := List.append_inj' h1 rfl
    exact h pre z post1 this.1 y hy

theorem refsIn_mem (all : List X) (x y : X) (h : y ∈ refsIn all x) :
    y ∈ all ∧ ∃ r ∈ sameDirRefsOf x, all.find? (·.1 == r) = some y := by
  unfold refsIn at h
  obtain ⟨r, hr, hf⟩ := List.mem_filterMap.mp h
  exact ⟨List.mem_of_find?_eq_some hf, r, hr, hf⟩

/-! ## the recursive pass -/

theorem queueManifest_spec (all : List X) (rank : Str → Nat)
    (hrank : ∀ x ∈ all, ∀ y ∈ refsIn all x, rank y.1 < rank x.1) :
    ∀ (fuel : Nat) (stack : List Str) (acc : QAcc) (x : X), x ∈ all → QI all stack acc →
      (∀ p ∈ stack, rank x.1 < rank p) → unseen all acc.2 ≤ fuel →
      QPost all stack acc (queueManifest all fuel acc x) x := by
  intro fuel
  induction fuel with
  | zero =>
    intro stack acc x hx hi _ hfuel
    simp only [queueManifest]
    exact ⟨hi, ⟨[], by simp⟩, fun _ h => h, hi.b x.1 (unseen_zero all acc.2 (Nat.le_zero.mp hfuel) x hx)⟩
  | succ fuel ih =>
    intro stack acc x hx hi hst hfuel
    simp only [queueManifest]
    split
    · rename_i hc
      have : x.1 ∈ acc.2 := by simpa using hc
      exact ⟨hi, ⟨[], by simp⟩, fun _ h => h, hi.b x.1 this⟩
    · rename_i hc
      have hns : acc.2.contains x.1 = false := by
        cases hq : acc.2.contains x.1 with
        | false => rfl
        | true => exact absurd hq hc
      have hnm : x.1 ∉ acc.2 := by simpa using hns
      -- the state the references are queued from
      have hi0 : QI all (x.1 :: stack) (acc.1, x.1 :: acc.2) := by
        refine ⟨?_, ?_, hi.c, hi.d, ?_, ?_, hi.g⟩
        · intro p hp; exact List.mem_cons_of_mem _ (hi.a p hp)
        · intro p hp
          rcases List.mem_cons.mp hp with rfl | hp
          · exact Or.inr (by simp)
          · rcases hi.b p hp with h | h
            · exact Or.inl h
            · exact Or.inr (List.mem_cons_of_mem _ h)
        · intro p hp
          rcases List.mem_cons.mp hp with rfl | hp
          · exact fun hc2 => hnm (hi.a _ hc2)
          · exact hi.e p hp
        · intro p hp
          rcases List.mem_cons.mp hp with rfl | hp
          · simp
          · exact List.mem_cons_of_mem _ (hi.f p hp)
      have hf0 : unseen all (x.1 :: acc.2) ≤ fuel := by
        have := unseen_cons_lt all acc.2 x hx hns
        omega
      -- the fold over the references
      have hfold : ∀ (l : List Str), (∀ r ∈ l, r ∈ sameDirRefsOf x) → ∀ (a : QAcc), QI all (x.1 :: stack) a → unseen all a.2 ≤ fuel →
          QI all (x.1 :: stack) (l.foldl (queueStep all (queueManifest all fuel)) a) ∧
          (∃ t, (l.foldl (queueStep all (queueManifest all fuel)) a).1 = a.1 ++ t) ∧
          (∀ p ∈ a.2, p ∈ (l.foldl (queueStep all (queueManifest all fuel)) a).2) ∧
          (∀ r ∈ l, ∀ y, all.find? (·.1 == r) = some y → y.1 ∈ paths (l.foldl (queueStep all (queueManifest all fuel)) a).1) := by
        intro l
        induction l with
        | nil => intro _ a ha _; exact ⟨ha, ⟨[], by simp⟩, fun _ h => h, fun r hr => by cases hr⟩
        | cons r rest ihl =>
          intro hl a ha hfa
          simp only [List.foldl_cons]
          have hr : r ∈ sameDirRefsOf x := hl r (by simp)
          have hrest : ∀ r' ∈ rest, r' ∈ sameDirRefsOf x := fun r' h' => hl r' (by simp [h'])
          cases hfind : all.find? (·.1 == r) with
          | none =>
            have e1 : queueStep all (queueManifest all fuel) a r = a := by simp [queueStep, hfind]
            rw [e1]
            obtain ⟨q1, q2, q3, q4⟩ := ihl hrest a ha hfa
            refine ⟨q1, q2, q3, ?_⟩
            intro r' hr' y hy
            rcases List.mem_cons.mp hr' with rfl | hr'
            · rw [hfind] at hy; cases hy
            · exact q4 r' hr' y hy
          | some y =>
            have e1 : queueStep all (queueManifest all fuel) a r = queueManifest all fuel a y := by simp [queueStep, hfind]
            rw [e1]
            have hy : y ∈ all := List.mem_of_find?_eq_some hfind
            have hyr : y ∈ refsIn all x := List.mem_filterMap.mpr ⟨r, hr, hfind⟩
            have hrk : rank y.1 < rank x.1 := hrank x hx y hyr
            have hst1 : ∀ p ∈ x.1 :: stack, rank y.1 < rank p := by
              intro p hp
              rcases List.mem_cons.mp hp with rfl | hp
              · exact hrk
              · have := hst p hp; omega
            have post := ih (x.1 :: stack) a y hy ha hst1 hfa
            have hydone : y.1 ∈ paths (queueManifest all fuel a y).1 := by
              rcases post.done with h | h
              · exact h
              · have := hst1 y.1 h; omega
            have hfa1 : unseen all (queueManifest all fuel a y).2 ≤ fuel :=
              Nat.le_trans (unseen_mono all _ _ post.mono) hfa
            obtain ⟨q1, q2, q3, q4⟩ := ihl hrest _ post.inv hfa1
            obtain ⟨t1, ht1⟩ := post.ext
            obtain ⟨t2, ht2⟩ := q2
            refine ⟨q1, ⟨t1 ++ t2, by rw [ht2, ht1]; simp⟩, fun p hp => q3 p (post.mono p hp), ?_⟩
            intro r' hr' y' hy'
            rcases List.mem_cons.mp hr' with rfl | hr'
            · rw [hfind] at hy'
              cases hy'
              rw [ht2]
              unfold paths at hydone ⊢
              simp only [List.map_append, List.mem_append]
              exact Or.inl hydone
            · exact q4 r' hr' y' hy'
      obtain ⟨q1, ⟨t, ht⟩, q3, q4⟩ := hfold (sameDirRefsOf x) (fun _ h => h) (acc.1, x.1 :: acc.2) hi0 hf0
      -- append `x`
      have hx1 : x.1 ∈ ((sameDirRefsOf x).foldl (queueStep all (queueManifest all fuel)) (acc.1, x.1 :: acc.2)).2 :=
        q1.f x.1 (by simp)
      have hxn : x.1 ∉ paths ((sameDirRefsOf x).foldl (queueStep all (queueManifest all fuel)) (acc.1, x.1 :: acc.2)).1 :=
        q1.e x.1 (by simp)
      refine ⟨⟨?_, ?_, ?_, ?_, ?_, ?_, ?_⟩, ⟨t ++ [x], by simp only at ht ⊢; rw [ht]; simp⟩, ?_, ?_⟩
      · intro p hp
        simp only [paths, List.map_append, List.mem_append, List.map_cons, List.map_nil, List.mem_singleton] at hp
        rcases hp with hp | rfl
        · exact q1.a p hp
        · exact hx1
      · intro p hp
        rcases q1.b p hp with h | h
        · left
          simp only [paths, List.map_append, List.mem_append]
          exact Or.inl h
        · rcases List.mem_cons.mp h with rfl | h
          · left; simp [paths]
          · exact Or.inr h
      · simp only [paths, List.map_append, List.map_cons, List.map_nil]
        rw [List.nodup_append]
        refine ⟨q1.c, by simp, ?_⟩
        intro a ha b hb
        have : b = x.1 := by simpa using hb
        subst this
        intro hab; subst hab
        exact hxn ha
      · apply refsBefore_snoc all _ x q1.d
        intro y hy
        obtain ⟨_, r, hr, hf⟩ := refsIn_mem all x y hy
        exact q4 r hr y hf
      · intro p hp hc2
        simp only [paths, List.map_append, List.mem_append, List.map_cons, List.map_nil, List.mem_singleton] at hc2
        rcases hc2 with h | h
        · exact q1.e p (List.mem_cons_of_mem _ hp) h
        · have := hst p hp; rw [h] at this; omega
      · intro p hp
        exact q1.f p (List.mem_cons_of_mem _ hp)
      · intro z hz
        rcases List.mem_append.mp hz with h | h
        · exact q1.g z h
        · have : z = x := by simpa using h
          subst this; exact hx
      · intro p hp
        exact q3 p (List.mem_cons_of_mem _ hp)
      · left; simp [paths]

/-- the pass over the whole list -/
theorem queueAll_spec (all : List X) (rank : Str → Nat)
    (hrank : ∀ x ∈ all, ∀ y ∈ refsIn all x, rank y.1 < rank x.1) :
    ∀ (l : List X) (acc : QAcc), (∀ x ∈ l, x ∈ all) → QI all [] acc →
      QI all [] (l.foldl (queueManifest all (all.length + 1)) acc) ∧
      (∃ t, (l.foldl (queueManifest all (all.length + 1)) acc).1 = acc.1 ++ t) ∧
      ∀ x ∈ l, x.1 ∈ paths (l.foldl (queueManifest all (all.length + 1)) acc).1 := by
  intro l
  induction l with
  | nil => intro acc _ h; exact ⟨h, ⟨[], by simp⟩, fun x hx => by cases hx⟩
  | cons x xs ih =>
    intro acc hl hi
    simp only [List.foldl_cons]
    have post := queueManifest_spec all rank hrank (all.length + 1) [] acc x (hl x (by simp)) hi (fun p hp => by cases hp)
      (Nat.le_trans (unseen_le all acc.2) (Nat.le_succ _))
    obtain ⟨q1, ⟨t2, ht2⟩, q3⟩ := ih _ (fun y hy => hl y (by simp [hy])) post.inv
    obtain ⟨t1, ht1⟩ := post.ext
    refine ⟨q1, ⟨t1 ++ t2, by rw [ht2, ht1]; simp⟩, ?_⟩
    intro y hy
    rcases List.mem_cons.mp hy with rfl | hy
    · have hd : y.1 ∈ paths (queueManifest all (all.length + 1) acc y).1 := by
        rcases post.done with h | h
        · exact h
        · cases h
      rw [ht2]
      simp only [paths, List.map_append, List.mem_append]
      exact Or.inl hd
    · exact q3 y hy

/-- the Manifests in the order of directory depth, before the references are moved -/
def byDepth (lm : LoadedMs) : List X := sortByDirLenDesc ((lm.map fun (k, v) => (k, dirname k, v)).reverse)

theorem saveOrder_eq (lm : LoadedMs) :
    saveOrder lm = ((byDepth lm).foldl (queueManifest (byDepth lm) ((byDepth lm).length + 1)) ([], [])).1 := rfl

theorem qi_empty (all : List X) : QI all [] ([], []) := by
  refine ⟨?_, ?_, ?_, ?_, ?_, ?_, ?_⟩
  · intro p h; cases h
  · intro p h; cases h
  · simp [paths]
  · intro pre x post h
    have := congrArg List.length h
    simp at this
  · intro p h; cases h
  · intro p h; cases h
  · intro p h; cases h

/-- **no Manifest is written twice** -/
theorem saveOrder_nodup (lm : LoadedMs) (rank : Str → Nat)
    (hrank : ∀ x ∈ byDepth lm, ∀ y ∈ refsIn (byDepth lm) x, rank y.1 < rank x.1) : (paths (saveOrder lm)).Nodup := by
  rw [saveOrder_eq]
  exact (queueAll_spec (byDepth lm) rank hrank (byDepth lm) ([], []) (fun _ h => h) (qi_empty _)).1.c

/-- **no loaded Manifest is skipped** -/
theorem saveOrder_complete (lm : LoadedMs) (rank : Str → Nat)
    (hrank : ∀ x ∈ byDepth lm, ∀ y ∈ refsIn (byDepth lm) x, rank y.1 < rank x.1) (x : X) (hx : x ∈ byDepth lm) :
    x.1 ∈ paths (saveOrder lm) := by
  rw [saveOrder_eq]
  exact (queueAll_spec (byDepth lm) rank hrank (byDepth lm) ([], []) (fun _ h => h) (qi_empty _)).2.2 x hx

/-- **nothing but loaded Manifests is written** -/
theorem saveOrder_subset (lm : LoadedMs) (rank : Str → Nat)
    (hrank : ∀ x ∈ byDepth lm, ∀ y ∈ refsIn (byDepth lm) x, rank y.1 < rank x.1) (z : X) (hz : z ∈ saveOrder lm) :
    z ∈ byDepth lm := by
  rw [saveOrder_eq] at hz
  exact (queueAll_spec (byDepth lm) rank hrank (byDepth lm) ([], []) (fun _ h => h) (qi_empty _)).1.g z hz

/-- **a Manifest referenced from its own directory is written before its referrer**, in whatever order the
    Manifests were loaded (the statement whose failure were findings F16, F29 and F30): wherever `x` stands in
    the save order, every loaded Manifest of `x`'s directory that an entry of `x` refers to stands before it. -/
theorem saveOrder_refs_first (lm : LoadedMs) (rank : Str → Nat)
    (hrank : ∀ x ∈ byDepth lm, ∀ y ∈ refsIn (byDepth lm) x, rank y.1 < rank x.1)
    (pre : List X) (x : X) (post : List X) (h : saveOrder lm = pre ++ x :: post) (y : X) (hy : y ∈ refsIn (byDepth lm) x) :
    y.1 ∈ paths pre := by
  rw [saveOrder_eq] at h
  exact (queueAll_spec (byDepth lm) rank hrank (byDepth lm) ([], []) (fun _ h => h) (qi_empty _)).1.d pre x post h y hy

/-! ## every referenced Manifest first -/

theorem mem_split {α : Type} (l : List α) (x : α) (h : x ∈ l) : ∃ a b, l = a ++ x :: b := List.append_of_mem h

theorem nodup_paths_eq (l : List X) (hnd : (paths l).Nodup) (z y : X) (hz : z ∈ l) (hy : y ∈ l) (h : z.1 = y.1) : z = y := by
  obtain ⟨a, b, hab⟩ := mem_split _ z hz
  subst hab
  unfold paths at hnd
  simp only [List.map_append, List.map_cons] at hnd
  rcases List.mem_append.mp hy with hya | hyb
  · exfalso
    have := (List.nodup_append.mp hnd).2.2 y.1 (List.mem_map.mpr ⟨y, hya, rfl⟩) z.1 (by simp)
    exact this h.symm
  · rcases List.mem_cons.mp hyb with e | hyb
    · exact e.symm
    · exfalso
      have h2 := (List.nodup_cons.mp (List.nodup_append.mp hnd).2.1).1
      exact h2 (h ▸ List.mem_map.mpr ⟨y, hyb, rfl⟩)

/-- **a Manifest is written after every loaded Manifest it references** - in its own directory or in a deeper one -
    in whatever order they were loaded: given distinct paths, wherever `x` stands in the save order, a loaded Manifest
    `y` that an entry of `x` names (`y.1 = dir(x)/p`) and that lies in `x`'s directory or in a longer one stands before it.
    (Same directory: the reference pass, `saveOrder_refs_first`; longer directory: the sort by depth,
    `C03_save_children_first`, with the completeness of the order.) -/
theorem saveOrder_referenced_first (lm : LoadedMs) (rank : Str → Nat)
    (hrank : ∀ x ∈ byDepth lm, ∀ y ∈ refsIn (byDepth lm) x, rank y.1 < rank x.1)
    (hkeys : (paths (byDepth lm)).Nodup)
    (pre : List X) (x : X) (post : List X) (h : saveOrder lm = pre ++ x :: post)
    (y : X) (hy : y ∈ byDepth lm) (hne : y.1 ≠ x.1)
    (p : Str) (n : Nat) (c : List (Str × Str)) (hp : Entry.file .MANIFEST p n c ∈ x.2.2) (hyp : y.1 = pjoin x.2.1 p)
    (hcase : dirname y.1 = x.2.1 ∨ x.2.1.length < y.2.1.length) :
    y.1 ∈ paths pre := by
  rcases hcase with hsame | hlt
  · -- same directory: `y` is one of the references the pass moves forward
    apply saveOrder_refs_first lm rank hrank pre x post h y
    unfold refsIn
    refine List.mem_filterMap.mpr ⟨y.1, ?_, ?_⟩
    · unfold sameDirRefsOf
      refine List.mem_filterMap.mpr ⟨_, hp, ?_⟩
      simp only
      rw [← hyp]
      simp [hsame]
    · -- distinct paths: the Manifest found under this path is `y`
      cases hf : (byDepth lm).find? (·.1 == y.1) with
      | none =>
        have := List.find?_eq_none.mp hf y hy
        simp at this
      | some z =>
        have hz : z ∈ byDepth lm := List.mem_of_find?_eq_some hf
        have hz1 : z.1 = y.1 := by
          have := List.find?_some hf
          simpa using this
        rw [nodup_paths_eq _ hkeys z y hz hy hz1]
  · -- a longer directory: it cannot come after `x` in an order of non-increasing directory length
    have hcomp := saveOrder_complete lm rank hrank y hy
    rw [h] at hcomp
    unfold paths at hcomp ⊢
    simp only [List.map_append, List.map_cons, List.mem_append, List.mem_cons] at hcomp
    rcases hcomp with hc | hc | hc
    · exact hc
    · exact absurd hc hne
    · exfalso
      have hsorted := C03_save_children_first lm
      rw [h] at hsorted
      have hx := (List.pairwise_append.mp hsorted).2.1
      obtain ⟨z, hz, hz1⟩ := List.mem_map.mp hc
      have h1 := (List.pairwise_cons.mp hx).1 z hz
      have hzall : z ∈ byDepth lm := saveOrder_subset lm rank hrank z (by rw [h]; simp [hz])
      have hzy : z = y := nodup_paths_eq _ hkeys z y hzall hy hz1
      rw [hzy] at h1
      omega

/-! ## Non-vacuity: the layout of finding F30 -/

/-- `d/Manifest` lists `Manifest.extra` and (a second time) `Manifest.deep`; `d/Manifest.extra` lists `Manifest.deep`;
    loaded in the order Manifest, Manifest.deep, Manifest.extra (the doubly referenced one BEFORE its same-directory
    referrer, which defeated the reverse-load-order rule). -/
def f30 : LoadedMs :=
  [([77], [.file .MANIFEST [100,47,77] 0 []]),
   ([100,47,77], [.file .MANIFEST [77,46,101] 0 [], .file .MANIFEST [77,46,100] 0 []]),
   ([100,47,77,46,100], []),
   ([100,47,77,46,101], [.file .MANIFEST [77,46,100] 0 []])]

def f30rank (p : Str) : Nat := if p == [100,47,77,46,100] then 0 else if p == [100,47,77,46,101] then 1 else 2

/-- the hypothesis of the theorems holds for it, and the order is: deep, extra, d/Manifest, top -/
example : (∀ x ∈ byDepth f30, ∀ y ∈ refsIn (byDepth f30) x, f30rank y.1 < f30rank x.1) ∧
    paths (saveOrder f30) = [[100,47,77,46,100], [100,47,77,46,101], [100,47,77], [77]] := by
  decide +kernel

end Gemato.C03
