import Gemato.Model.OpenPGP
/-
  C05 — A signature is accepted only if good, valid, trusted, unexpired and
  unrevoked. Statements hold for every list of status lines.
-/
namespace Gemato.C05
open Gemato.PGP

/-- the specification, written independently of the loop: -/
structure Accepts (exit : Nat) (ls : List Str) (d : SigData) : Prop where
  exit_ok : exit = 0
  good : ∃ l ∈ ls, classify l = .good
  /-- `d` is read from the last VALIDSIG line, and every VALIDSIG line is well-formed -/
  valid : ∃ pre l post, ls = pre ++ l :: post ∧ classify l = .valid ∧ validFields l = some d ∧
            ∀ x ∈ post, classify x ≠ .valid
  valid_wf : ∀ l ∈ ls, classify l = .valid → (validFields l).isSome
  trusted : ∃ l ∈ ls, classify l = .trust ∧ lineTrusted l = true
  no_expired : ∀ l ∈ ls, classify l ≠ .expkey
  no_revoked : ∀ l ∈ ls, classify l ≠ .revkey

/-- invariant of the scan: flags only ever describe lines already seen -/
theorem scan_ok (a a' : Acc) (ls : List Str) (h : scan a ls = .ok a') :
    (a'.good = true ↔ a.good = true ∨ ∃ l ∈ ls, classify l = .good) ∧
    (a'.trusted = true ↔ a.trusted = true ∨ ∃ l ∈ ls, classify l = .trust ∧ lineTrusted l = true) ∧
    (∀ l ∈ ls, classify l ≠ .expkey ∧ classify l ≠ .revkey) ∧
    (∀ l ∈ ls, classify l = .valid → (validFields l).isSome) ∧
    ((∀ x ∈ ls, classify x ≠ .valid) → a'.sig = a.sig) ∧
    (∀ d, (∃ x ∈ ls, classify x = .valid) → (a'.sig = some d ↔
        ∃ pre l post, ls = pre ++ l :: post ∧ classify l = .valid ∧ validFields l = some d ∧
          ∀ x ∈ post, classify x ≠ .valid)) := by
  induction ls generalizing a with
  | nil => simp [scan] at h; subst h; simp
  | cons l ls ih =>
    simp only [scan] at h
    cases hc : classify l with
    | expkey => simp [hc] at h
    | revkey => simp [hc] at h
    | good =>
      simp only [hc] at h
      obtain ⟨h1, h2, h3, h4, h5, h6⟩ := ih _ h
      refine ⟨?_, ?_, ?_, ?_, ?_, ?_⟩
      · rw [h1]; simp [hc]
      · rw [h2]; simp [hc]
      · intro x hx; simp at hx; rcases hx with hx | hx
        · subst hx; simp [hc]
        · exact h3 x hx
      · intro x hx hv; simp at hx; rcases hx with hx | hx
        · subst hx; simp [hc] at hv
        · exact h4 x hx hv
      · intro hall; exact h5 (fun x hx => hall x (by simp [hx]))
      · intro d hex
        have hex' : ∃ x ∈ ls, classify x = .valid := by
          obtain ⟨x, hx, hv⟩ := hex; simp at hx; rcases hx with hx | hx
          · subst hx; simp [hc] at hv
          · exact ⟨x, hx, hv⟩
        rw [h6 d hex']
        constructor
        · rintro ⟨pre, m, post, e, hm, hf, hp⟩; exact ⟨l :: pre, m, post, by simp [e], hm, hf, hp⟩
        · rintro ⟨pre, m, post, e, hm, hf, hp⟩
          cases pre with
          | nil => simp at e; obtain ⟨rfl, _⟩ := e; simp [hc] at hm
          | cons p pre => simp at e; exact ⟨pre, m, post, e.2, hm, hf, hp⟩
    | other =>
      simp only [hc] at h
      obtain ⟨h1, h2, h3, h4, h5, h6⟩ := ih _ h
      refine ⟨?_, ?_, ?_, ?_, ?_, ?_⟩
      · rw [h1]; simp [hc]
      · rw [h2]; simp [hc]
      · intro x hx; simp at hx; rcases hx with hx | hx
        · subst hx; simp [hc]
        · exact h3 x hx
      · intro x hx hv; simp at hx; rcases hx with hx | hx
        · subst hx; simp [hc] at hv
        · exact h4 x hx hv
      · intro hall; exact h5 (fun x hx => hall x (by simp [hx]))
      · intro d hex
        have hex' : ∃ x ∈ ls, classify x = .valid := by
          obtain ⟨x, hx, hv⟩ := hex; simp at hx; rcases hx with hx | hx
          · subst hx; simp [hc] at hv
          · exact ⟨x, hx, hv⟩
        rw [h6 d hex']
        constructor
        · rintro ⟨pre, m, post, e, hm, hf, hp⟩; exact ⟨l :: pre, m, post, by simp [e], hm, hf, hp⟩
        · rintro ⟨pre, m, post, e, hm, hf, hp⟩
          cases pre with
          | nil => simp at e; obtain ⟨rfl, _⟩ := e; simp [hc] at hm
          | cons p pre => simp at e; exact ⟨pre, m, post, e.2, hm, hf, hp⟩
    | trust =>
      simp only [hc] at h
      obtain ⟨h1, h2, h3, h4, h5, h6⟩ := ih _ h
      refine ⟨?_, ?_, ?_, ?_, ?_, ?_⟩
      · rw [h1]; by_cases ht : lineTrusted l = true <;> simp [hc, ht]
      · rw [h2]; by_cases ht : lineTrusted l = true <;> simp [hc, ht]
      · intro x hx; simp at hx; rcases hx with hx | hx
        · subst hx; simp [hc]
        · exact h3 x hx
      · intro x hx hv; simp at hx; rcases hx with hx | hx
        · subst hx; simp [hc] at hv
        · exact h4 x hx hv
      · intro hall
        rw [h5 (fun x hx => hall x (by simp [hx]))]
        by_cases ht : lineTrusted l = true <;> simp [ht]
      · intro d hex
        have hex' : ∃ x ∈ ls, classify x = .valid := by
          obtain ⟨x, hx, hv⟩ := hex; simp at hx; rcases hx with hx | hx
          · subst hx; simp [hc] at hv
          · exact ⟨x, hx, hv⟩
        rw [h6 d hex']
        constructor
        · rintro ⟨pre, m, post, e, hm, hf, hp⟩; exact ⟨l :: pre, m, post, by simp [e], hm, hf, hp⟩
        · rintro ⟨pre, m, post, e, hm, hf, hp⟩
          cases pre with
          | nil => simp at e; obtain ⟨rfl, _⟩ := e; simp [hc] at hm
          | cons p pre => simp at e; exact ⟨pre, m, post, e.2, hm, hf, hp⟩
    | valid =>
      simp only [hc] at h
      cases hv : validFields l with
      | none => simp [hv] at h
      | some d0 =>
        simp only [hv] at h
        obtain ⟨h1, h2, h3, h4, h5, h6⟩ := ih _ h
        refine ⟨?_, ?_, ?_, ?_, ?_, ?_⟩
        · rw [h1]; simp [hc]
        · rw [h2]; simp [hc]
        · intro x hx; simp at hx; rcases hx with hx | hx
          · subst hx; simp [hc]
          · exact h3 x hx
        · intro x hx hvx; simp at hx; rcases hx with hx | hx
          · subst hx; simp [hv]
          · exact h4 x hx hvx
        · intro hall; exact absurd hc (hall l (by simp))
        · intro d _
          by_cases hlater : ∃ x ∈ ls, classify x = .valid
          · rw [h6 d hlater]
            constructor
            · rintro ⟨pre, m, post, e, hm, hf, hp⟩; exact ⟨l :: pre, m, post, by simp [e], hm, hf, hp⟩
            · rintro ⟨pre, m, post, e, hm, hf, hp⟩
              cases pre with
              | nil =>
                simp at e; obtain ⟨rfl, rfl⟩ := e
                obtain ⟨x, hx, hxv⟩ := hlater
                exact absurd hxv (hp x hx)
              | cons p pre => simp at e; exact ⟨pre, m, post, e.2, hm, hf, hp⟩
          · have hnone : ∀ x ∈ ls, classify x ≠ .valid := fun x hx hxv => hlater ⟨x, hx, hxv⟩
            rw [h5 hnone]
            simp only [Option.some.injEq]
            constructor
            · intro e; subst e; exact ⟨[], l, ls, rfl, hc, hv, hnone⟩
            · rintro ⟨pre, m, post, e, hm, hf, hp⟩
              cases pre with
              | nil => simp at e; obtain ⟨rfl, _⟩ := e; rw [hv] at hf; exact Option.some.inj hf
              | cons p pre =>
                simp at e
                exact absurd hm (hnone m (by rw [e.2]; simp))

/-- **C05 (acceptance, only-if).** Signature data is returned only when gpg
    exited successfully, reported GOODSIG and a well-formed VALIDSIG (whose
    fields are what is returned), reported a validity of at least marginal, and
    reported neither an expired nor a revoked key. -/
theorem C05_accept_only_if (exit : Nat) (ls : List Str) (d : SigData)
    (h : verifyStatus exit ls = .ok d) : Accepts exit ls d := by
  unfold verifyStatus at h
  split at h
  · cases h
  · rename_i hex
    split at h
    · cases h
    · rename_i a ha
      obtain ⟨h1, h2, h3, h4, h5, h6⟩ := scan_ok {} a ls ha
      split at h
      · rename_i d' hg hs
        split at h
        · rename_i ht
          cases h
          have hvalid : ∃ x ∈ ls, classify x = .valid := by
            by_cases hn : ∃ x ∈ ls, classify x = .valid
            · exact hn
            · have := h5 (fun x hx hxv => hn ⟨x, hx, hxv⟩)
              rw [hs] at this; cases this
          exact {
            exit_ok := by simpa using hex
            good := by simpa using h1.mp hg
            valid := (h6 d hvalid).mp hs
            valid_wf := h4
            trusted := by simpa using h2.mp ht
            no_expired := fun l hl => (h3 l hl).1
            no_revoked := fun l hl => (h3 l hl).2 }
        · cases h
      · cases h

theorem scan_total (a : Acc) (ls : List Str)
    (h3 : ∀ l ∈ ls, classify l ≠ .expkey ∧ classify l ≠ .revkey)
    (h4 : ∀ l ∈ ls, classify l = .valid → (validFields l).isSome) : ∃ a', scan a ls = .ok a' := by
  induction ls generalizing a with
  | nil => exact ⟨a, rfl⟩
  | cons l ls ih =>
    have hl := h3 l (by simp)
    have ih' := fun a => ih a (fun x hx => h3 x (by simp [hx])) (fun x hx => h4 x (by simp [hx]))
    simp only [scan]
    cases hc : classify l with
    | expkey => exact absurd hc hl.1
    | revkey => exact absurd hc hl.2
    | good => exact ih' _
    | other => exact ih' _
    | trust => exact ih' _
    | valid =>
      have := h4 l (by simp) hc
      cases hv : validFields l with
      | none => simp [hv] at this
      | some d => exact ih' _

/-- **C05 (acceptance, if).** -/
theorem C05_accept_if (exit : Nat) (ls : List Str) (d : SigData) (h : Accepts exit ls d) :
    verifyStatus exit ls = .ok d := by
  obtain ⟨a, ha⟩ := scan_total {} ls (fun l hl => ⟨h.no_expired l hl, h.no_revoked l hl⟩) h.valid_wf
  obtain ⟨h1, h2, _, _, _, h6⟩ := scan_ok {} a ls ha
  have hg : a.good = true := h1.mpr (Or.inr h.good)
  have ht : a.trusted = true := h2.mpr (Or.inr h.trusted)
  have hvalid : ∃ x ∈ ls, classify x = .valid := by
    obtain ⟨pre, l, post, e, hl, _, _⟩ := h.valid
    exact ⟨l, by rw [e]; simp, hl⟩
  have hs : a.sig = some d := (h6 d hvalid).mpr h.valid
  simp [verifyStatus, h.exit_ok, ha, hg, hs, ht]

theorem C05_accept_iff (exit : Nat) (ls : List Str) (d : SigData) :
    verifyStatus exit ls = .ok d ↔ Accepts exit ls d :=
  ⟨C05_accept_only_if exit ls d, C05_accept_if exit ls d⟩

/-- a non-zero exit status is always the verification failure, whatever gpg printed -/
theorem C05_nonzero_exit (exit : Nat) (ls : List Str) (h : exit ≠ 0) :
    verifyStatus exit ls = .error .verification := by
  simp [verifyStatus, h]

/-- an expired-key or revoked-key report is never accepted -/
theorem C05_expired_or_revoked_rejected (exit : Nat) (ls : List Str) (l : Str) (hl : l ∈ ls)
    (h : classify l = .expkey ∨ classify l = .revkey) : ∀ d, verifyStatus exit ls ≠ .ok d := by
  intro d hd
  have := C05_accept_only_if exit ls d hd
  rcases h with h | h
  · exact this.no_expired l hl h
  · exact this.no_revoked l hl h

-- monotonicity in key validity --------------------------------------------------------

/-- gpg's validity levels, in increasing order -/
inductive Validity | undefined | never | marginal | fully | ultimate
deriving DecidableEq, Repr

def Validity.rank : Validity → Nat
  | .undefined => 0 | .never => 0 | .marginal => 1 | .fully => 2 | .ultimate => 3

def Validity.token : Validity → Str
  | .undefined => tUNDEFINED | .never => tNEVER | .marginal => tMARGINAL
  | .fully => tFULLY | .ultimate => tULTIMATE

/-- the status line gpg prints for a validity level -/
def trustLine (v : Validity) : Str := [91, 71, 78, 85, 80, 71, 58, 93, 32] ++ v.token ++ [32, 48, 32, 100, 105, 114, 101, 99, 116]

/-- **C05 (monotone, complete table).** marginal, full and ultimate validity
    are accepted, undefined and never are not; acceptance is upward closed. -/
theorem C05_trust_table :
    lineTrusted (trustLine .undefined) = false ∧ lineTrusted (trustLine .never) = false ∧
    lineTrusted (trustLine .marginal) = true ∧ lineTrusted (trustLine .fully) = true ∧
    lineTrusted (trustLine .ultimate) = true := by decide

theorem C05_trust_monotone (a b : Validity) (hab : a.rank ≤ b.rank)
    (h : lineTrusted (trustLine a) = true) : lineTrusted (trustLine b) = true := by
  cases a <;> cases b <;> first | (revert h; decide) | (simp [Validity.rank] at hab) | decide

theorem C05_trust_line_kind (v : Validity) : classify (trustLine v) = .trust := by cases v <;> decide

-- isolated environment ------------------------------------------------------------------

theorem envGet_envSet_same (k v : Str) (e : Env) : envGet k (envSet k v e) = some v := by
  induction e with
  | nil => simp [envSet, envGet]
  | cons p e ih =>
    obtain ⟨k', v'⟩ := p
    simp only [envSet]
    split
    · simp [envGet]
    · rename_i hne; simp [envGet, hne, ih]

theorem envGet_envSet_other (k k2 v : Str) (e : Env) (h : k2 ≠ k) : envGet k (envSet k2 v e) = envGet k e := by
  induction e with
  | nil => simp [envSet, envGet, h]
  | cons p e ih =>
    obtain ⟨k', v'⟩ := p
    simp only [envSet]
    split
    · rename_i he; subst he; simp [envGet, h]
    · simp only [envGet, ih]

/-- **C05 (isolated keyring).** Whatever the caller's environment contains —
    any `GNUPGHOME`, any number of times — gpg is started with `GNUPGHOME` set to
    the private directory. -/
theorem C05_isolated_home (caller : Env) (home : Str) (proxy : Option Str) :
    envGet sGNUPGHOME (spawnEnv caller (isolatedOverride home proxy)) = some home := by
  unfold spawnEnv isolatedOverride envUpdate
  cases proxy with
  | none => simp [envGet_envSet_same]
  | some p =>
    simp only [List.foldl_cons, List.foldl_nil]
    rw [envGet_envSet_other _ _ _ _ (by decide), envGet_envSet_same]

/-- **C05 (`--require-signed-manifest`).** -/
theorem C05_require_signed_exit (loaderSigned : Bool) :
    requireSignedGate true loaderSigned = none ↔ loaderSigned = true := by
  cases loaderSigned <;> simp [requireSignedGate]

-- non-vacuity: gpg's real output for a good signature by a fully valid key is accepted ---------
example : ∃ d, verifyStatus 0
    [ [91, 71, 78, 85, 80, 71, 58, 93, 32, 78, 69, 87, 83, 73, 71],
      pGOODSIG ++ [32, 65, 66, 32, 117],
      pVALIDSIG ++ [32, 70, 80, 32, 100, 32, 49, 32, 48, 32, 52, 32, 48, 32, 49, 32, 56, 32, 48, 48, 32, 80, 70],
      trustLine .fully ] = .ok d := ⟨⟨[70, 80], [49], [48], [80, 70]⟩, by rfl⟩

end Gemato.C05
