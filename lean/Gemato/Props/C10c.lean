import Gemato.Props.C10b
/-
  C10 for the single-path update, at full strength: `ManifestRecursiveLoader.update_entry_for_path`
  leaves the entries of every OTHER path - and every DIST, IGNORE and TIMESTAMP entry - of every loaded
  Manifest exactly as they were, in order; at most one entry (the new one for the path) is appended.

  `names path rel e`: `e` is a file entry (not DIST) of a Manifest in directory `rel` whose path is `path`.
  `othersOf path s k`: the entries of Manifest `k` that do not name the path, in order.
  The invariant `Keep` is carried through the primitives the function uses (load, in-place refresh,
  `list.remove` by equality, append, queueing the Manifest for the save) and composed.
-/
namespace Gemato.C10
open Gemato.L1 Gemato.U

/-- the entry is one `update_entry_for_path(path)` looks at in a Manifest of directory `rel` -/
def names (path rel : Str) (e : Entry) : Bool :=
  match e with
  | .file .DIST _ _ _ => false
  | .file _ _ _ _ => pjoin rel e.fullPath == path
  | _ => false

/-- the entries of a loaded Manifest that do not name the path, in order -/
def othersOf (path : Str) (s : St) (k : Str) : List Entry :=
  ((s.entriesOf k).map (·.2)).filter fun e => !names path (dirname k) e

/-- entry objects are not shared between the lists of different Manifests -/
def Disj (s : St) : Prop :=
  ∀ kv1 ∈ s.loaded, ∀ kv2 ∈ s.loaded, ∀ i, i ∈ kv1.2 → i ∈ kv2.2 → kv1.1 = kv2.1

/-- same tag class and same path: the two entries name the same paths -/
def SameName (a b : Entry) : Prop := ∀ path rel, names path rel a = names path rel b

structure Keep (path : Str) (s s' : St) : Prop where
  fresh : Fresh s'
  disj : Disj s'
  keys : ∀ k, hasKey s k → hasKey s' k
  others : ∀ k, hasKey s k → othersOf path s' k = othersOf path s k
  vals : ∀ id e, s.val id = some e → ∃ e', s'.val id = some e' ∧ SameName e' e

theorem Keep.refl (path : Str) (s : St) (h : Fresh s) (hd : Disj s) : Keep path s s :=
  ⟨h, hd, fun _ h => h, fun _ _ => rfl, fun _ e he => ⟨e, he, fun _ _ => rfl⟩⟩

theorem Keep.trans {path : Str} {a b c : St} (h1 : Keep path a b) (h2 : Keep path b c) : Keep path a c := by
  refine ⟨h2.fresh, h2.disj, fun k hk => h2.keys k (h1.keys k hk), ?_, ?_⟩
  · intro k hk
    rw [h2.others k (h1.keys k hk), h1.others k hk]
  · intro id e he
    obtain ⟨e1, he1, hs1⟩ := h1.vals id e he
    obtain ⟨e2, he2, hs2⟩ := h2.vals id e1 he1
    exact ⟨e2, he2, fun p r => by rw [hs2 p r, hs1 p r]⟩

/-! ## list lemmas -/

theorem filt_filterMap_congr (ids : List Nat) (f g : Nat → Option IEntry) (p : Entry → Bool)
    (h : ∀ j ∈ ids, ((f j).toList.map (·.2)).filter p = ((g j).toList.map (·.2)).filter p) :
    ((ids.filterMap f).map (·.2)).filter p = ((ids.filterMap g).map (·.2)).filter p := by
  induction ids with
  | nil => rfl
  | cons j rest ih =>
    have hj := h j (by simp)
    have hr := ih (fun i hi => h i (by simp [hi]))
    simp only [List.filterMap_cons]
    cases hf : f j with
    | none =>
      cases hg : g j with
      | none => simpa using hr
      | some y =>
        simp only [hf, hg, Option.toList, List.map_nil, List.filter_nil, List.map_cons] at hj
        simp only [List.map_cons, List.filter_cons]
        split
        · rename_i hp
          simp [List.filter_cons, hp] at hj
        · exact hr
    | some x =>
      cases hg : g j with
      | none =>
        simp only [hf, hg, Option.toList, List.map_nil, List.filter_nil, List.map_cons] at hj
        simp only [List.map_cons, List.filter_cons]
        split
        · rename_i hp
          simp [List.filter_cons, hp] at hj
        · exact hr
      | some y =>
        simp only [hf, hg, Option.toList, List.map_cons, List.map_nil] at hj
        simp only [List.map_cons, List.filter_cons] at hj ⊢
        by_cases hpx : p x.2 = true <;> by_cases hpy : p y.2 = true
        · simp only [hpx, hpy, if_true] at hj ⊢
          rw [hr]; congr 1
          simpa using hj
        · simp [hpx, hpy] at hj
        · simp [hpx, hpy] at hj
        · simp only [hpx, hpy] at hj ⊢
          simpa using hr

theorem mem_idsOf (s : St) (k : Str) (i : Nat) (h : i ∈ s.idsOf k) : ∃ kv ∈ s.loaded, kv.1 = k ∧ i ∈ kv.2 := by
  unfold St.idsOf at h
  cases hf : s.loaded.find? (·.1 == k) with
  | none => simp [hf] at h
  | some kv =>
    simp [hf] at h
    refine ⟨kv, List.mem_of_find?_eq_some hf, ?_, h⟩
    have := List.find?_some hf
    simpa using this

/-- an object in the lists of two Manifests: they are the same Manifest -/
theorem Disj.same {s : St} (hd : Disj s) (k1 k2 : Str) (i : Nat) (h1 : i ∈ s.idsOf k1) (h2 : i ∈ s.idsOf k2) : k1 = k2 := by
  obtain ⟨kv1, hm1, e1, hi1⟩ := mem_idsOf s k1 i h1
  obtain ⟨kv2, hm2, e2, hi2⟩ := mem_idsOf s k2 i h2
  rw [← e1, ← e2]
  exact hd kv1 hm1 kv2 hm2 i hi1 hi2

/-! ## the primitive edits -/

theorem othersOf_congr (path : Str) (s s' : St) (k : Str) (hids : s'.idsOf k = s.idsOf k)
    (h : ∀ j ∈ s.idsOf k,
      (((s'.val j).map fun e => (j, e)).toList.map (·.2)).filter (fun e => !names path (dirname k) e) =
      (((s.val j).map fun e => (j, e)).toList.map (·.2)).filter (fun e => !names path (dirname k) e)) :
    othersOf path s' k = othersOf path s k := by
  unfold othersOf
  rw [entriesOf_eq, entriesOf_eq, hids]
  exact filt_filterMap_congr _ _ _ _ h

theorem keep_setVal (path : Str) (s : St) (id : Nat) (e : Entry) (mp : Str) (hs : Fresh s) (hd : Disj s)
    (hid : id ∈ s.idsOf mp)
    (hold : ∀ old, s.val id = some old → SameName e old ∧ names path (dirname mp) old = true) :
    Keep path s (s.setVal id e) := by
  refine ⟨fresh_setVal s id e hs, hd, fun _ h => h, ?_, ?_⟩
  · intro k _
    apply othersOf_congr path s (s.setVal id e) k rfl
    intro j hj
    by_cases hji : j = id
    · subst hji
      have hk : k = mp := hd.same k mp j hj hid
      subst hk
      cases hv : s.val j with
      | none => rw [val_setVal_none s j e hv]
      | some old =>
        rw [val_setVal_self s j e old hv]
        obtain ⟨hsn, hnm⟩ := hold old hv
        simp [Option.toList, List.filter_cons, hnm, hsn path (dirname k)]
    · rw [C10_refresh_touches_one s id j e hji]
  · intro j x hx
    by_cases hji : j = id
    · subst hji
      exact ⟨e, val_setVal_self s j e x hx, (hold x hx).1⟩
    · exact ⟨x, by rw [C10_refresh_touches_one s id j e hji]; exact hx, fun _ _ => rfl⟩

theorem keep_markUpdated (path : Str) (s : St) (mp : Str) (hs : Fresh s) (hd : Disj s) : Keep path s (s.markUpdated mp) :=
  ⟨⟨hs.heap, hs.lists⟩, hd, fun _ h => h, fun _ _ => rfl, fun _ e he => ⟨e, he, fun _ _ => rfl⟩⟩

theorem mem_setIds (s : St) (mp : Str) (ids : List Nat) (hk : hasKey s mp) (kv : Str × List Nat)
    (h : kv ∈ (s.setIds mp ids).loaded) : (kv ∈ s.loaded ∧ kv.1 ≠ mp) ∨ kv = (mp, ids) := by
  unfold St.setIds at h
  unfold hasKey at hk
  simp only [hk, if_true] at h
  obtain ⟨kv0, hm, he⟩ := List.mem_map.mp h
  by_cases hq : (kv0.1 == mp) = true
  · simp only [hq, if_true] at he
    exact Or.inr he.symm
  · simp only [hq] at he
    subst he
    exact Or.inl ⟨hm, by simpa using hq⟩

theorem disj_setIds (s : St) (mp : Str) (ids : List Nat) (hd : Disj s) (hk : hasKey s mp)
    (hsub : ∀ i ∈ ids, i ∈ s.idsOf mp) : Disj (s.setIds mp ids) := by
  -- every list of the new state has a list of the old state with the same key that contains its elements
  have wit : ∀ kv ∈ (s.setIds mp ids).loaded, ∀ i ∈ kv.2, ∃ kv0 ∈ s.loaded, kv0.1 = kv.1 ∧ i ∈ kv0.2 := by
    intro kv hkv i hi
    rcases mem_setIds s mp ids hk kv hkv with ⟨hm, _⟩ | rfl
    · exact ⟨kv, hm, rfl, hi⟩
    · obtain ⟨kv0, hm0, e0, hi0⟩ := mem_idsOf s mp i (hsub i hi)
      exact ⟨kv0, hm0, e0, hi0⟩
  intro kv1 h1 kv2 h2 i hi1 hi2
  obtain ⟨a, ha, ea, hia⟩ := wit kv1 h1 i hi1
  obtain ⟨b, hb, eb, hib⟩ := wit kv2 h2 i hi2
  rw [← ea, ← eb]
  exact hd a ha b hb i hia hib

theorem keep_removeFirstEq (path : Str) (s s1 : St) (mp : Str) (x : Entry) (hs : Fresh s) (hd : Disj s) (hk : hasKey s mp)
    (hx : names path (dirname mp) x = true) (h : s.removeFirstEq mp x = some s1) : Keep path s s1 := by
  unfold St.removeFirstEq at h
  cases hg : St.removeFirstEq.go s x (s.idsOf mp) with
  | none => simp [hg] at h
  | some ids =>
    simp [hg] at h; subst h
    obtain ⟨pre, i, post, e1, e2, _, e4⟩ := go_spec s x _ _ hg
    have hsub : ∀ j ∈ ids, j ∈ s.idsOf mp := by
      intro j hj
      rw [e1]; rw [e4] at hj
      simp at hj ⊢
      rcases hj with hj | hj
      · exact Or.inl hj
      · exact Or.inr (Or.inr hj)
    refine ⟨fresh_setIds s mp ids hs (fun j hj => idsOf_lt s hs mp j (hsub j hj)), disj_setIds s mp ids hd hk hsub,
      fun k hkk => hasKey_setIds s mp ids k hkk, ?_, ?_⟩
    · intro k _
      by_cases hkm : (k == mp) = true
      · have hkm1 : k = mp := by simpa using hkm
        subst hkm1
        unfold othersOf
        rw [entriesOf_eq, entriesOf_eq, idsOf_setIds, e4, e1]
        simp only [val_setIds, List.filterMap_append, List.map_append, List.filter_append, List.filterMap_cons, e2, Option.map_some]
        simp [List.filter_cons, hx]
      · have hkm1 : (k == mp) = false := by
          cases hq : (k == mp) with
          | false => rfl
          | true => exact absurd hq hkm
        apply othersOf_congr path s (s.setIds mp ids) k (idsOf_setIds_other s mp k ids hkm1)
        intro j _
        rw [val_setIds]
    · intro j e he
      exact ⟨e, by rw [val_setIds]; exact he, fun _ _ => rfl⟩

/-! ## append: the one edit that adds to the other entries (at most the new entry itself) -/

theorem idsOf_append_self (s : St) (mp : Str) (e : Entry) : (s.append mp e).idsOf mp = s.idsOf mp ++ [s.nextId] := by
  unfold St.append
  rw [idsOf_setIds]

theorem idsOf_append_other (s : St) (mp k : Str) (e : Entry) (h : (k == mp) = false) : (s.append mp e).idsOf k = s.idsOf k := by
  unfold St.append
  rw [idsOf_setIds_other _ mp k _ h]
  rfl

theorem others_append (path : Str) (s : St) (mp : Str) (e : Entry) (hs : Fresh s) (k : Str) :
    ∃ extra : List Entry, extra.length ≤ 1 ∧ othersOf path (s.append mp e) k = othersOf path s k ++ extra := by
  have hold : ∀ j ∈ s.idsOf k, (s.append mp e).val j = s.val j := by
    intro j hj
    have := idsOf_lt s hs k j hj
    exact val_append_old s mp e hs j (by omega)
  have hsame : ((((s.idsOf k).filterMap fun id => ((s.append mp e).val id).map fun x => (id, x)).map (·.2)).filter
        fun x => !names path (dirname k) x) = othersOf path s k := by
    unfold othersOf
    rw [entriesOf_eq]
    apply filt_filterMap_congr
    intro j hj
    rw [hold j hj]
  by_cases hkm : (k == mp) = true
  · have hkm1 : k = mp := by simpa using hkm
    subst hkm1
    refine ⟨[e].filter (fun x => !names path (dirname k) x), ?_, ?_⟩
    · simp [List.filter_cons]; split <;> simp
    · unfold othersOf
      rw [entriesOf_eq, idsOf_append_self]
      simp only [List.filterMap_append, List.map_append, List.filter_append]
      rw [hsame]
      simp [val_append_new s k e hs, othersOf]
  · have hkm1 : (k == mp) = false := by
      cases hq : (k == mp) with
      | false => rfl
      | true => exact absurd hq hkm
    refine ⟨[], by simp, ?_⟩
    unfold othersOf
    rw [entriesOf_eq, idsOf_append_other s mp k e hkm1, List.append_nil]
    rw [hsame]
    rfl

/-! ## loading further Manifests -/

theorem keep_syncStep (path : Str) (acc : St) (kv : Str × List Entry) (hs : Fresh acc) (hd : Disj acc) :
    Keep path acc (syncStep acc kv) := by
  have g := good_syncStep acc kv hs
  unfold syncStep at g ⊢
  split
  · exact Keep.refl path acc hs hd
  · rename_i hnew
    simp only [hnew, if_false] at g
    have hnew1 : acc.loaded.any (·.1 == kv.1) = false := by
      cases hq : acc.loaded.any (·.1 == kv.1) with
      | false => rfl
      | true => exact absurd hq hnew
    have hval : ∀ j, j < acc.nextId → (syncNew acc kv).val j = acc.val j := fun j hj => val_syncNew acc kv j hj
    refine ⟨g.fresh, ?_, g.keys, ?_, ?_⟩
    · intro kv1 h1 kv2 h2 i hi1 hi2
      have h1a : kv1 ∈ acc.loaded ++ [(kv.1, newIds acc kv.2.length)] := h1
      have h2a : kv2 ∈ acc.loaded ++ [(kv.1, newIds acc kv.2.length)] := h2
      rcases List.mem_append.mp h1a with m1 | m1 <;> rcases List.mem_append.mp h2a with m2 | m2
      · exact hd kv1 m1 kv2 m2 i hi1 hi2
      · simp only [List.mem_singleton] at m2; subst m2
        have a := hs.lists kv1 m1 i hi1
        have b := (newIds_range acc _ i hi2).1
        omega
      · simp only [List.mem_singleton] at m1; subst m1
        have a := hs.lists kv2 m2 i hi2
        have b := (newIds_range acc _ i hi1).1
        omega
      · simp only [List.mem_singleton] at m1 m2; subst m1; subst m2; rfl
    · intro k hk
      have hne : k ≠ kv.1 := by
        intro he
        subst he
        unfold hasKey at hk
        rw [hk] at hnew1; cases hnew1
      have hids : (syncNew acc kv).idsOf k = acc.idsOf k := by
        unfold St.idsOf syncNew
        simp only
        rw [find_key_append_other acc.loaded kv.1 k _ hne]
      apply othersOf_congr path acc (syncNew acc kv) k hids
      intro j hj
      rw [hval j (idsOf_lt acc hs k j hj)]
    · intro j e he
      have hj : j < acc.nextId := by
        rcases Nat.lt_or_ge j acc.nextId with h | h
        · exact h
        · rw [cellF_none acc hs j h] at he; cases he
      exact ⟨e, by rw [hval j hj]; exact he, fun _ _ => rfl⟩

theorem keep_sync (path : Str) (lm : LoadedMs) : ∀ (s : St), Fresh s → Disj s → Keep path s (s.sync lm) := by
  induction lm with
  | nil => intro s hs hd; exact Keep.refl path s hs hd
  | cons kv rest ih =>
    intro s hs hd
    rw [sync_eq]
    simp only [List.foldl_cons]
    have k1 := keep_syncStep path s kv hs hd
    have k2 := ih (syncStep s kv) k1.fresh k1.disj
    rw [sync_eq] at k2
    exact k1.trans k2

theorem keep_load (path : Str) (w : World) (s s1 : St) (p : Str) (r v : Bool) (hs : Fresh s) (hd : Disj s)
    (h : s.load w p r v = .ok s1) : Keep path s s1 := by
  unfold St.load at h
  split at h
  · cases h
  · cases h; exact keep_sync path _ s hs hd

/-! ## the steps of `update_entry_for_path` -/

theorem sameName_of_tag_path (t : FTag) (p : Str) (n n1 : Nat) (c c1 : List (Str × Str)) :
    SameName (.file t p n1 c1) (.file t p n c) := by
  intro path rel
  cases t <;> simp [names, Entry.fullPath]

theorem refreshEntry_sameName (o : Obj) (p : Str) (e e1 : Entry) (hs : Option (List Str)) (d : Option Nat) (lm : Option Int) (b : Bool)
    (h : refreshEntry o p e hs d lm = .ok (e1, b)) : SameName e1 e := by
  cases e with
  | timestamp t => simp [refreshEntry] at h
  | ignore q => simp [refreshEntry] at h
  | file t q n c =>
    cases o with
    | file m =>
      simp only [refreshEntry] at h
      split at h
      · cases h
      · split at h
        · cases h; exact fun _ _ => rfl
        · split at h
          · cases h
          · split at h
            · cases h
            · split at h
              · cases h; exact sameName_of_tag_path t q n _ c _
              · cases h; exact fun _ _ => rfl
    | dir dd i ks => simp only [refreshEntry] at h; split at h <;> cases h
    | special dd => simp only [refreshEntry] at h; split at h <;> cases h
    | absent => simp [refreshEntry] at h
    | notdir => simp [refreshEntry] at h
    | fault x => simp [refreshEntry] at h

theorem entriesOf_mem_ids (s : St) (mp : Str) (ie : IEntry) (h : ie ∈ s.entriesOf mp) : ie.1 ∈ s.idsOf mp := by
  rw [entriesOf_eq] at h
  simp only [List.mem_filterMap] at h
  obtain ⟨id, hid, hv⟩ := h
  cases hq : s.val id with
  | none => simp [hq] at hv
  | some e => simp [hq] at hv; subst hv; exact hid

theorem idsOf_of_loaded (s s1 : St) (h : s1.loaded = s.loaded) (k : Str) : s1.idsOf k = s.idsOf k := by
  unfold St.idsOf; rw [h]

theorem hasKey_of_loaded (s s1 : St) (h : s1.loaded = s.loaded) (k : Str) (hk : hasKey s k) : hasKey s1 k := by
  unfold hasKey at *; rw [h]; exact hk

/-- the invariant of the walk over one Manifest's entries: nothing but in-place refreshes happened since it began -/
structure PKeep (path : Str) (sM : St) (mp : Str) (a : PSt) : Prop where
  keep : Keep path sM a.st
  loaded : a.st.loaded = sM.loaded
  rem : ∀ x ∈ a.toRemove, names path (dirname mp) x = true

theorem upEntryStep_keep (w : World) (path : Str) (hashes : Option (List Str)) (mp : Str) (sM : St) (a a1 : PSt) (ie : IEntry)
    (hie : ie ∈ sM.entriesOf mp) (hi : PKeep path sM mp a)
    (h : upEntryStep w path hashes mp (dirname mp) a ie = .ok a1) : PKeep path sM mp a1 := by
  unfold upEntryStep at h
  split at h
  · split at h
    · cases h
    · cases h; exact hi
  · cases h; exact hi
  · cases h; exact hi
  · rename_i fe hni hnt hnd
    simp only at h
    split at h
    · cases h; exact hi
    · rename_i hfull
      have hnm : names path (dirname mp) ie.2 = true := by
        have hq : pjoin (dirname mp) ie.2.fullPath = path := by simpa using hfull
        cases hfe : ie.2 with
        | timestamp t => exact absurd hfe (hnt t)
        | ignore q => exact absurd hfe (hni q)
        | file t q n c =>
          rw [hfe] at hq
          cases t with
          | DIST => exact absurd hfe (hnd q n c)
          | _ => simp [names, hq]
      have hrem : ∀ x ∈ a.toRemove ++ [ie.2], names path (dirname mp) x = true := by
        intro x hx
        rcases List.mem_append.mp hx with hx | hx
        · exact hi.rem x hx
        · have : x = ie.2 := by simpa using hx
          rw [this]; exact hnm
      split at h
      · cases h; exact ⟨hi.keep, hi.loaded, hrem⟩
      · split at h
        · cases h
        · cases h; exact ⟨hi.keep, hi.loaded, hrem⟩
        · split at h
          · cases h
          · rename_i fe1 ch hre
            cases h
            have hsn := refreshEntry_sameName _ _ ie.2 fe1 _ _ _ ch hre
            obtain ⟨cur, hcur, hcs⟩ := hi.keep.vals ie.1 ie.2 (entriesOf_val sM mp ie hie)
            have hid : ie.1 ∈ a.st.idsOf mp := by
              rw [idsOf_of_loaded sM a.st hi.loaded mp]; exact entriesOf_mem_ids sM mp ie hie
            have k1 := keep_setVal path a.st ie.1 fe1 mp hi.keep.fresh hi.keep.disj hid (fun old ho => by
              rw [hcur] at ho; cases ho
              exact ⟨fun p r => by rw [hsn p r, hcs p r], by rw [hcs path (dirname mp)]; exact hnm⟩)
            have k2 := keep_markUpdated path (a.st.setVal ie.1 fe1) mp k1.fresh k1.disj
            exact ⟨hi.keep.trans (k1.trans k2), hi.loaded, hi.rem⟩

theorem upRemoveStep_keep (path mp : Str) (st st1 : St) (x : Entry) (hs : Fresh st) (hd : Disj st) (hk : hasKey st mp)
    (hx : names path (dirname mp) x = true) (h : upRemoveStep mp st x = .ok st1) : Keep path st st1 := by
  unfold upRemoveStep at h
  split at h
  · rename_i r hr
    cases h
    exact keep_removeFirstEq path st _ mp x hs hd hk hx hr
  · cases h

theorem upManifestStep_keep (w : World) (path : Str) (hashes : Option (List Str)) (a a1 : PSt) (kdv : Str × Str × List Entry)
    (hrel : kdv.2.1 = dirname kdv.1) (hs : Fresh a.st) (hd : Disj a.st) (hk : hasKey a.st kdv.1)
    (h : upManifestStep w path hashes a kdv = .ok a1) : Keep path a.st a1.st := by
  unfold upManifestStep at h
  rw [hrel] at h
  split at h
  · cases h
  · rename_i b hb
    have hb1 : PKeep path a.st kdv.1 b :=
      foldE_inv_mem (PKeep path a.st kdv.1) (upEntryStep w path hashes kdv.1 (dirname kdv.1)) (a.st.entriesOf kdv.1)
        (fun x ie x1 hie hx hstep => upEntryStep_keep w path hashes kdv.1 a.st x x1 ie hie hx hstep)
        { a with toRemove := [] } b ⟨Keep.refl path _ hs hd, rfl, fun x hx => by cases hx⟩ hb
    split at h
    · cases h; exact hb1.keep
    · split at h
      · cases h
      · rename_i st1 hrm
        cases h
        have hkb : hasKey b.st kdv.1 := hb1.keep.keys _ hk
        have k2 : Keep path b.st st1 ∧ hasKey st1 kdv.1 :=
          foldE_inv_mem (fun (z : St) => Keep path b.st z ∧ hasKey z kdv.1) (upRemoveStep kdv.1) b.toRemove
            (fun z x z1 hx hz hstep => by
              have kk := upRemoveStep_keep path kdv.1 z z1 x hz.1.fresh hz.1.disj hz.2 (hb1.rem x hx) hstep
              exact ⟨hz.1.trans kk, kk.keys _ hz.2⟩)
            b.st st1 ⟨Keep.refl path _ hb1.keep.fresh hb1.keep.disj, hkb⟩ hrm
        exact hb1.keep.trans (k2.1.trans (keep_markUpdated path st1 kdv.1 k2.1.fresh k2.1.disj))

/-! ## the whole function -/

theorem insertSorted_mem_c {α} (lt : α → α → Bool) (x y : α) (l : List α) : y ∈ insertSorted lt x l → y = x ∨ y ∈ l := by
  induction l with
  | nil => simp [insertSorted]
  | cons z zs ih =>
    simp only [insertSorted]
    split
    · intro h
      rcases List.mem_cons.mp h with h | h
      · exact Or.inr (by simp [h])
      · rcases ih h with h | h
        · exact Or.inl h
        · exact Or.inr (by simp [h])
    · intro h
      rcases List.mem_cons.mp h with h | h
      · exact Or.inl h
      · exact Or.inr h

theorem stableSort_mem_c {α} (lt : α → α → Bool) (y : α) (l : List α) : y ∈ stableSort lt l → y ∈ l := by
  induction l with
  | nil => simp [stableSort]
  | cons x xs ih =>
    intro h
    have e : stableSort lt (x :: xs) = insertSorted lt x (stableSort lt xs) := rfl
    rw [e] at h
    rcases insertSorted_mem_c lt x y _ h with h | h
    · simp [h]
    · exact List.mem_cons_of_mem _ (ih h)

/-- what `_iter_manifests_for_path` yields: loaded Manifests, each with its own directory -/
theorem iterManifests_mem (s : St) (path : Str) (r : Bool) (kdv : Str × Str × List Entry)
    (h : kdv ∈ iterManifests s.plain path r) : kdv.2.1 = dirname kdv.1 ∧ hasKey s kdv.1 := by
  unfold iterManifests sortByDirLenDesc at h
  have h1 := stableSort_mem_c _ kdv _ h
  simp only [List.mem_filterMap] at h1
  obtain ⟨kv, hkv, hq⟩ := h1
  have hkey : hasKey s kv.1 := by
    unfold St.plain at hkv
    obtain ⟨x, hx, rfl⟩ := List.mem_map.mp hkv
    exact (hasKey_iff s x.1).mpr ⟨x.2, hx⟩
  obtain ⟨k, v⟩ := kv
  simp only at hq hkey
  split at hq
  · cases hq; exact ⟨rfl, hkey⟩
  · split at hq
    · cases hq; exact ⟨rfl, hkey⟩
    · cases hq

/-- **C10 for `update_entry_for_path`, at full strength.** For every tree, every loader state with properly
    allocated, unshared entry objects (any state reached from `openForUpdate`), every path, entry type and hash
    set: after the single-path update every loaded Manifest holds the entries that do not name the path - the
    entries of every other path, and every DIST, IGNORE and TIMESTAMP entry - exactly as before, in the same
    order; at most one entry was appended after them (the new entry for the path, when it had none). -/
theorem C10_path_update_keeps_other_entries (w : World) (s s1 : St) (path : Str) (t : FTag) (hashes : Option (List Str))
    (hs : Fresh s) (hd : Disj s) (h : updateEntryForPath w s path t hashes = .ok s1) (k : Str) (hk : hasKey s k) :
    ∃ extra : List Entry, extra.length ≤ 1 ∧ othersOf path s1 k = othersOf path s k ++ extra := by
  unfold updateEntryForPath at h
  split at h
  · cases h
  · rename_i sl hl
    have k1 := keep_load path w s sl path false true hs hd hl
    split at h
    · cases h
    · rename_i a ha
      have k2 : Keep path sl a.st :=
        foldE_inv_mem (fun (x : PSt) => Keep path sl x.st) (upManifestStep w path hashes) (iterManifests sl.plain path false)
          (fun x kdv x1 hkdv hx hstep => by
            obtain ⟨hrel, hkey⟩ := iterManifests_mem sl path false kdv hkdv
            exact hx.trans (upManifestStep_keep w path hashes x x1 kdv hrel hx.fresh hx.disj (hx.keys _ hkey) hstep))
          ({ st := sl } : PSt) a (Keep.refl path sl k1.fresh k1.disj) ha
      have k12 := k1.trans k2
      split at h
      · cases h; exact ⟨[], by simp, by rw [k12.others k hk]; simp⟩
      · split at h
        · cases h
        · split at h
          · cases h; exact ⟨[], by simp, by rw [k12.others k hk]; simp⟩
          · rename_i hs1 kdv rest _
            unfold upAddEntry at h
            split at h
            · cases h
            · split at h
              · cases h
              · split at h
                · cases h
                · split at h
                  · cases h
                  · rename_i fe1 ch hre
                    cases h
                    obtain ⟨extra, hlen, he⟩ := others_append path a.st kdv.1 fe1 k2.fresh k
                    refine ⟨extra, hlen, ?_⟩
                    have : othersOf path ((a.st.append kdv.1 fe1).markUpdated kdv.1) k = othersOf path (a.st.append kdv.1 fe1) k := rfl
                    rw [this, he, k12.others k hk]

/-- the state a loader starts from shares no entry object between Manifests -/
theorem disj_sync_empty (top : Str) (lm : LoadedMs) : Disj (({ top := top, loaded := [] } : St).sync lm) :=
  (keep_sync [] lm _ ⟨fun _ hx => (by cases hx), fun _ hx => (by cases hx)⟩ (fun _ hx => (by cases hx))).disj

theorem disj_openForUpdate (w : World) (top : Str) (create : Bool) (prof : Prof.Profile) (xdev : Bool) (s : St)
    (h : openForUpdate w top create prof xdev = .ok s) : Disj s := by
  have hsync : ∀ lm, Disj (({ top := top, loaded := [] } : St).sync lm) := disj_sync_empty top
  unfold openForUpdate at h
  cases hl : loadOne w top none with
  | ok es =>
    rw [hl] at h
    simp only at h
    cases ho : w.obj? top with
    | none => simp [ho] at h
    | some ob =>
      cases ob <;> simp [ho] at h
      subst h
      exact hsync _
  | error e =>
    rw [hl] at h
    by_cases he : e = .os .ENOENT
    · subst he
      simp only at h
      cases create
      · simp at h
      · simp only [Bool.not_true, Bool.false_eq_true, if_false] at h
        cases ho : w.obj? (dirname top) with
        | none => simp [ho] at h
        | some ob =>
          cases ob <;> simp [ho] at h
          subst h
          exact hsync _
    · cases e <;> simp_all

/-- the same from the moment the loader is opened: `ManifestRecursiveLoader(top)`, then `update_entry_for_path` -/
theorem C10_path_update_from_open (w : World) (top path : Str) (create : Bool) (prof : Prof.Profile) (xdev : Bool)
    (t : FTag) (hashes : Option (List Str)) (s0 s1 : St) (ho : openForUpdate w top create prof xdev = .ok s0)
    (hu : updateEntryForPath w s0 path t hashes = .ok s1) (k : Str) (hk : hasKey s0 k) :
    ∃ extra : List Entry, extra.length ≤ 1 ∧ othersOf path s1 k = othersOf path s0 k ++ extra :=
  C10_path_update_keeps_other_entries w s0 s1 path t hashes (fresh_openForUpdate w top create prof xdev s0 ho)
    (disj_openForUpdate w top create prof xdev s0 ho) hu k hk

/-! ## Non-vacuity -/

/-- `DIST x`, `DATA x 1`, `DATA y 1`, `DATA x 1`, TIMESTAMP, `DATA x 1`, with `x` gone: the single-path update of `x`
    drops the three entries of `x` and keeps the three others (DIST x, DATA y, TIMESTAMP); nothing is appended -/
example :
    let mtext : Str := [68,73,83,84,32,120,32,51,32,77,68,53,32,97,97,10,
                        68,65,84,65,32,120,32,49,10, 68,65,84,65,32,121,32,49,10, 68,65,84,65,32,120,32,49,10,
                        84,73,77,69,83,84,65,77,80,32,50,48,50,48,45,48,49,45,48,49,84,48,48,58,48,48,58,48,48,90,10,
                        68,65,84,65,32,120,32,49,10]
    let w0 : World := ⟨.dir 1 1 [(Prof.sManifest, .file ⟨1, 83, 83, 0, [], some (.text mtext)⟩)]⟩
    (match openForUpdate w0 Prof.sManifest false .default with
     | .ok s => (match updateEntryForPath w0 s [120] .DATA (some []) with
        | .ok s' => ((othersOf [120] s Prof.sManifest).length, decide (othersOf [120] s' Prof.sManifest = othersOf [120] s Prof.sManifest),
                     (s.entriesOf Prof.sManifest).length, (s'.entriesOf Prof.sManifest).length) == (3, true, 6, 3)
        | .error _ => false)
     | .error _ => false) = true := by
  decide +kernel

end Gemato.C10
